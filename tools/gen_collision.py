"""Fail-closed fact extractor / translator for C14 (collision loading, basis change,
interpolation).

From  collisionArray.py / boltzmann.py / polynomial.py  it produces Coq text:

  CollisionGen.v
    * `the_cfg : cfg`  -- the facts the state machine  WG.Model.CollisionLoad  is parametrised
      by: order of the per-file checks of `newFromDirectory` and the exception class each
      one raises, which names label the polynomial bases in the two branches, the dummy grid
      size, the argument of the final changeBasis, what `interpolateCollisionArray` converts
      to / back, the statement list of `BoltzmannSolver.loadCollisions` and its handlers;
    * `interp_layout`  -- the array pipeline of `interpolateCollisionArray`
      (np.array / [..., :m, :m] / moveaxis / transpose / swapaxes / reshape) as a term over
      WG.Lib.Reshape, with symbolic sizes P (= len(source.particles)) and Nt (= targetGrid.N);
    * `grid_points`    -- the meshgrid(...).reshape(...) layout of the evaluation points and
      `eval_axes`, the axes argument of Polynomial.evaluate.
  BasisGen.v  (mathcomp)
    * `tn_matrix`      -- the matrix pipeline of Polynomial.changeBasis (T, inv if the new
      basis is Chebyshev, transpose(inv) if inverseTranspose) and the contraction side;
    * `collision_invT` -- the inverseTranspose flag CollisionArray.changeBasis passes.

Anything outside the recognised statement shapes raises TranslateError.
"""
import ast


class TranslateError(Exception):
    pass


def U(node):
    return ast.unparse(node)


def _strip(stmts):
    """drop docstrings / bare string expressions, bare annotations, logging calls"""
    out = []
    for st in stmts:
        if isinstance(st, ast.Expr) and isinstance(st.value, ast.Constant) and \
                isinstance(st.value.value, str):
            continue
        if isinstance(st, ast.AnnAssign) and st.value is None:
            continue
        if isinstance(st, ast.Expr) and isinstance(st.value, ast.Call) and \
                U(st.value.func).startswith("logging."):
            continue
        out.append(st)
    return out


def _find_class(tree, name):
    """the unique, undecorated top-level class of that name"""
    found = [st for st in ast.walk(tree) if isinstance(st, ast.ClassDef) and st.name == name]
    top = [st for st in tree.body if isinstance(st, ast.ClassDef) and st.name == name]
    if len(found) != 1 or len(top) != 1:
        raise TranslateError("class %s defined %d times (%d at top level)" % (
            name, len(found), len(top)))
    if top[0].decorator_list or top[0].keywords:
        raise TranslateError("class %s is decorated / has a metaclass" % name)
    return top[0]


def _find_method(cls, name):
    """the unique def of that name in the class body; a decorator other than a single
    @staticmethod could replace the function by anything, so it fails closed"""
    found = [st for st in cls.body if isinstance(st, (ast.FunctionDef, ast.AsyncFunctionDef))
             and st.name == name]
    if len(found) != 1 or not isinstance(found[0], ast.FunctionDef):
        raise TranslateError("method %s.%s defined %d times" % (cls.name, name, len(found)))
    decs = [U(d) for d in found[0].decorator_list]
    if decs not in ([], ["staticmethod"]):
        raise TranslateError("method %s.%s is decorated with %s" % (cls.name, name, decs))
    for st in cls.body:
        if isinstance(st, (ast.Assign, ast.AnnAssign, ast.AugAssign)):
            tg = st.targets if isinstance(st, ast.Assign) else [st.target]
            if any(isinstance(t, ast.Name) and t.id == name for t in tg):
                raise TranslateError("%s.%s is rebound in the class body" % (cls.name, name))
    return found[0]


# modules whose functions the facts are about: nothing but imports, classes and functions at
# module level (a statement there could rebind a method after the class is built), classes
# without decorators / metaclasses / copy or attribute hooks
ANCHORED_MODULES = ("collisionArray.py", "boltzmann.py", "polynomial.py", "equationOfMotion.py",
                    "manager.py", "exceptions.py", "grid.py", "grid3Scales.py", "particle.py")
HOOKS = ("__deepcopy__", "__copy__", "__reduce__", "__reduce_ex__", "__getstate__",
         "__setstate__", "__getattr__", "__getattribute__", "__setattr__", "__delattr__",
         "__new__", "__init_subclass__", "__class_getitem__", "__set_name__")


def check_plain_modules(trees):
    for f in ANCHORED_MODULES:
        if f not in trees:
            raise TranslateError("source file %s not found" % f)
        for st in trees[f].body:
            if isinstance(st, (ast.Import, ast.ImportFrom, ast.ClassDef, ast.FunctionDef)):
                continue
            if isinstance(st, ast.Expr) and isinstance(st.value, ast.Constant) and \
                    isinstance(st.value.value, str):
                continue
            if isinstance(st, ast.If) and U(st.test) in ("typing.TYPE_CHECKING", "TYPE_CHECKING") \
                    and not st.orelse and all(isinstance(x, (ast.Import, ast.ImportFrom))
                                              for x in st.body):
                continue
            raise TranslateError("%s: module-level statement `%s`" % (f, U(st)[:70]))
        for cls in [st for st in trees[f].body if isinstance(st, ast.ClassDef)]:
            if cls.keywords:
                raise TranslateError("%s: class %s has a metaclass" % (f, cls.name))
            decs = [U(d) for d in cls.decorator_list]
            if decs not in ([], ["dataclass"]):
                raise TranslateError("%s: class %s decorated with %s" % (f, cls.name, decs))
            names = {}
            for m in cls.body:
                if isinstance(m, (ast.FunctionDef, ast.AsyncFunctionDef)):
                    names[m.name] = names.get(m.name, 0) + 1
                    if m.name in HOOKS:
                        raise TranslateError("%s: %s.%s defined" % (f, cls.name, m.name))
                    d = [U(x) for x in m.decorator_list]
                    if d not in ([], ["staticmethod"]) and f in (
                            "collisionArray.py", "boltzmann.py", "polynomial.py"):
                        raise TranslateError("%s: %s.%s decorated with %s" % (
                            f, cls.name, m.name, d))
                elif isinstance(m, ast.ClassDef):
                    raise TranslateError("%s: nested class %s.%s" % (f, cls.name, m.name))
            dup = [k for k, v in names.items() if v > 1]
            if dup:
                raise TranslateError("%s: %s defines %s more than once" % (f, cls.name, dup))


def _kind_of_exc(name):
    return {"CollisionLoadError": "CollisionLoadError",
            "AssertionError": "AssertionError"}.get(name, "OtherError")


def _raise_kind(st):
    """`raise X(...)` / `raise X` -> Coq errkind"""
    if not isinstance(st, ast.Raise) or st.exc is None:
        raise TranslateError("expected `raise X(...)`, got " + U(st)[:60])
    e = st.exc
    if isinstance(e, ast.Call):
        e = e.func
    if not isinstance(e, ast.Name):
        raise TranslateError("unrecognised exception expression " + U(st)[:60])
    return _kind_of_exc(e.id)


# ----------------------------------------------------------------------------------
# newFromDirectory

_GUARD_TESTS_FAIL = {      # condition under which the check FAILS (if ...: raise)
    "grid.N > size": "GOversized", "size < grid.N": "GOversized",
    "size != basisSizeFile": "GSizeMismatch", "basisSizeFile != size": "GSizeMismatch",
    "btype != basisTypeFile": "GBasisMismatch", "basisTypeFile != btype": "GBasisMismatch",
    "datasetName not in file": "GDatasetMissing", "not datasetName in file": "GDatasetMissing",
    "collisionDataset.shape != 4 * (size - 1,)": "GDatasetShape",
    "collisionDataset.shape != (size - 1,) * 4": "GDatasetShape",
    "collisionDataset.shape != (size - 1, size - 1, size - 1, size - 1)": "GDatasetShape",
}
_GUARD_TESTS_PASS = {      # condition that must HOLD (assert ...)
    "grid.N <= size": "GOversized", "size >= grid.N": "GOversized",
    "size == basisSizeFile": "GSizeMismatch", "basisSizeFile == size": "GSizeMismatch",
    "btype == basisTypeFile": "GBasisMismatch", "basisTypeFile == btype": "GBasisMismatch",
    "datasetName in file": "GDatasetMissing",
    "collisionDataset.shape == 4 * (size - 1,)": "GDatasetShape",
    "collisionDataset.shape == (size - 1,) * 4": "GDatasetShape",
}


def _guard(st, check_basis_kind):
    """a statement that is a check -> (guard, kind) or None"""
    if isinstance(st, ast.If) and not st.orelse and len(st.body) == 1 and \
            isinstance(st.body[0], ast.Raise):
        t = U(st.test)
        if t not in _GUARD_TESTS_FAIL:
            raise TranslateError("unrecognised check `if %s: raise`" % t)
        return _GUARD_TESTS_FAIL[t], _raise_kind(st.body[0])
    if isinstance(st, ast.Assert):
        t = U(st.test)
        if t not in _GUARD_TESTS_PASS:
            raise TranslateError("unrecognised check `assert %s`" % t)
        return _GUARD_TESTS_PASS[t], "AssertionError"
    if isinstance(st, ast.Expr) and isinstance(st.value, ast.Call) and \
            U(st.value) == "CollisionArray._checkBasis(btype)":
        return "GUnknownBasis", check_basis_kind
    return None


def _basis_label(tup, what):
    if not isinstance(tup, ast.Tuple) or len(tup.elts) != 6:
        raise TranslateError("basis tuple of %s is not a 6-tuple" % what)
    fixed = [U(e) for e in tup.elts[:4]]
    if fixed != ["'Array'", "'Cardinal'", "'Cardinal'", "'Array'"]:
        raise TranslateError("momentum/particle bases of %s are %s" % (what, fixed))
    a, b = U(tup.elts[4]), U(tup.elts[5])
    if a != b:
        raise TranslateError("two polynomial axes of %s labelled differently" % what)
    return _which_basis(tup.elts[4], what)


def _which_basis(node, what):
    s = U(node)
    if s == "basisTypeFile":
        return "FileBasis"
    if s == "basisType":
        return "RequestedBasis"
    if isinstance(node, ast.Constant) and node.value in ("Cardinal", "Chebyshev"):
        return "(ConstBasis %s)" % node.value
    raise TranslateError("unrecognised basis expression %s in %s" % (s, what))


def _polynomial_call(st, var, data, grid, what):
    if not (isinstance(st, ast.Assign) and U(st.targets[0]) == var and
            isinstance(st.value, ast.Call) and U(st.value.func) == "Polynomial"):
        raise TranslateError("expected %s = Polynomial(...) in %s" % (var, what))
    a = st.value.args
    if len(a) < 4 or U(a[0]) != data or U(a[1]) != grid or \
            U(a[3]) != "CollisionArray.AXIS_TYPES":
        raise TranslateError("unexpected Polynomial(...) arguments in %s: %s" % (
            what, U(st.value)[:80]))
    kws = {k.arg: U(k.value) for k in st.value.keywords}
    if kws != {"endpoints": "False"} and not (len(a) == 5 and U(a[4]) == "False"):
        raise TranslateError("Polynomial(...) endpoints in %s" % what)
    return _basis_label(a[2], what)


def extract_new_from_directory(cls):
    fn = _find_method(cls, "newFromDirectory")
    cb = _find_method(cls, "_checkBasis")
    cbs = _strip(cb.body)
    if len(cbs) == 2 and isinstance(cbs[0], ast.Assign) and isinstance(cbs[1], ast.Assert):
        check_basis_kind = "AssertionError"
    elif len(cbs) == 2 and isinstance(cbs[1], ast.If) and len(cbs[1].body) == 1:
        check_basis_kind = _raise_kind(cbs[1].body[0])
    else:
        raise TranslateError("unrecognised CollisionArray._checkBasis body")
    args = [a.arg for a in fn.args.args]
    if args != ["directoryPath", "grid", "basisType", "particles", "bInterpolate"]:
        raise TranslateError("newFromDirectory signature changed: %s" % args)
    if U(fn.args.defaults[-1]) != "True":
        raise TranslateError("bInterpolate default is not True")
    body = _strip(fn.body)
    # leading normalisations of an argument that cannot change what is loaded
    while body and U(body[0]) in ("directoryPath = Path(directoryPath)",
                                  "directoryPath = pathlib.Path(directoryPath)"):
        body = body[1:]
    facts = {"c_row_major": "true"}
    # ---- the double loop
    outer = body[0]
    if not (isinstance(outer, ast.For) and U(outer.iter) == "enumerate(particles)" and
            isinstance(outer.target, ast.Tuple) and len(outer.target.elts) == 2
            and not outer.orelse):
        raise TranslateError("outer loop is not `for i, p in enumerate(particles)`")
    io, po = (U(e) for e in outer.target.elts)
    ob = _strip(outer.body)
    if len(ob) != 1 or not isinstance(ob[0], ast.For):
        raise TranslateError("outer loop body is not a single inner loop")
    inner = ob[0]
    if not (U(inner.iter) == "enumerate(particles)" and isinstance(inner.target, ast.Tuple)
            and len(inner.target.elts) == 2 and not inner.orelse):
        raise TranslateError("inner loop is not `for j, p in enumerate(particles)`")
    ii, pi = (U(e) for e in inner.target.elts)
    ib = _strip(inner.body)
    if len(ib) != 2 or not isinstance(ib[0], ast.Assign) or not isinstance(ib[1], ast.Try):
        raise TranslateError("inner loop body is not `filename = ...; try: ...`")
    fname = U(ib[0].value)
    key_fwd = "directoryPath / f'collisions_{%s.name}_{%s.name}.hdf5'" % (po, pi)
    key_bwd = "directoryPath / f'collisions_{%s.name}_{%s.name}.hdf5'" % (pi, po)
    if U(ib[0].targets[0]) != "filename" or fname not in (key_fwd, key_bwd):
        raise TranslateError("unrecognised file name expression " + fname)
    facts["c_key_order"] = "true" if fname == key_fwd else "false"
    tr = ib[1]
    if tr.orelse or tr.finalbody:
        raise TranslateError("try has else/finally")
    # h5py.File(...) raises FileNotFoundError for an absent file and some other OSError for a
    # file it cannot open (not HDF5, a directory, ...); handlers are tried in order
    kinds = {}
    for h in tr.handlers:
        if h.type is None:
            raise TranslateError("bare `except:` around the file read")
        names = [U(e) for e in h.type.elts] if isinstance(h.type, ast.Tuple) else [U(h.type)]
        if any(nm not in ("FileNotFoundError", "OSError", "IOError") for nm in names):
            raise TranslateError("unexpected handler `except %s`" % U(h.type))
        hb = _strip(h.body)
        if len(hb) != 1:
            raise TranslateError("file-open handler does more than raise")
        k = _raise_kind(hb[0])
        kinds.setdefault("missing", k)
        if "OSError" in names or "IOError" in names:
            kinds.setdefault("unreadable", k)
    # what is not handled escapes as the OSError it is
    facts["c_kind_missing"] = kinds.get("missing", "OtherError")
    facts["c_kind_unreadable"] = kinds.get("unreadable", "OtherError")
    tb = _strip(tr.body)
    if len(tb) != 1 or not isinstance(tb[0], ast.With) or \
            U(tb[0].items[0].context_expr) != "h5py.File(str(filename), 'r')" or \
            U(tb[0].items[0].optional_vars) != "file":
        raise TranslateError("try body is not `with h5py.File(str(filename), 'r') as file`")
    every, later = [], []
    seen_init = False
    seen_store = False
    plain = {
        "metadata = file['metadata']",
        "size = metadata.attrs['Basis Size']",
        "btype = codecs.decode(metadata.attrs['Basis Type'], 'unicode_escape')",
    }
    read_stmt = "collisionDataset = np.array(file[datasetName][:])"
    seen_read = False
    for st in _strip(tb[0].body):
        if seen_store:
            raise TranslateError("statement after the store into collisionFileArray")
        g = _guard(st, check_basis_kind)
        if g is not None:
            if seen_init:
                raise TranslateError("check placed after the first-file initialisation")
            if g[0] in ("GSizeMismatch", "GBasisMismatch"):
                raise TranslateError("mismatch check outside the not-first-file branch")
            if g[0] == "GDatasetShape" and not seen_read:
                raise TranslateError("dataset shape checked before the dataset is read")
            every.append(g)
            continue
        s = U(st)
        if s in plain:
            continue
        if s == read_stmt:
            if seen_read or seen_init:
                raise TranslateError("dataset read twice / after the initialisation")
            seen_read = True
            # the read itself is a look-up of the dataset: KeyError if absent -- unless an
            # explicit check of the same condition comes first (then it can never fire)
            if not any(g0 == "GDatasetMissing" for g0, _ in every):
                every.append(("GDatasetMissing", "OtherError"))
            continue
        if isinstance(st, ast.Assign) and U(st.targets[0]) == "datasetName":
            want = {"true": "%s.name + ', ' + %s.name" % (po, pi),
                    "false": "%s.name + ', ' + %s.name" % (pi, po)}[facts["c_key_order"]]
            if U(st.value) != want:
                raise TranslateError("dataset name order differs from file name order")
            continue
        if isinstance(st, ast.If) and U(st.test) in (
                "not 'collisionFileArray' in locals()",
                "'collisionFileArray' not in locals()"):
            seen_init = True
            init = [U(x) for x in _strip(st.body)]
            shape = "(len(particles), size - 1, size - 1, len(particles), size - 1, size - 1)"
            if init != ["collisionFileArray = np.zeros(%s)" % shape,
                        "basisSizeFile = size", "basisTypeFile = btype"]:
                raise TranslateError("unrecognised first-file initialisation: %s" % init)
            for st2 in _strip(st.orelse):
                g2 = _guard(st2, check_basis_kind)
                if g2 is None:
                    raise TranslateError("unrecognised statement in the not-first-file "
                                         "branch: " + U(st2)[:60])
                later.append(g2)
            continue
        if isinstance(st, ast.Assign) and isinstance(st.targets[0], ast.Subscript) and \
                U(st.targets[0].value) == "collisionFileArray":
            tgt = U(st.targets[0])
            if U(st.value) != "collisionDataset" or not seen_init:
                raise TranslateError("unexpected store " + s[:80])
            if tgt == "collisionFileArray[%s, :, :, %s, :, :]" % (io, ii):
                facts["c_store_order"] = "true"
            elif tgt == "collisionFileArray[%s, :, :, %s, :, :]" % (ii, io):
                facts["c_store_order"] = "false"
            else:
                raise TranslateError("unrecognised store target " + tgt)
            seen_store = True
            continue
        raise TranslateError("unrecognised statement in the per-file block: " + s[:80])
    if not seen_store or not seen_read:
        raise TranslateError("no dataset read / store into collisionFileArray")
    facts["c_guards_every"] = every
    facts["c_guards_later"] = later
    # ---- after the loops
    rest = body[1:]
    if rest and isinstance(rest[0], ast.Assign) and U(rest[0].targets[0]) == \
            "collisionFileArray":
        shape = "(len(particles), basisSizeFile - 1, basisSizeFile - 1, len(particles), " \
                "basisSizeFile - 1, basisSizeFile - 1)"
        if U(rest[0].value) != "collisionFileArray.reshape(%s)" % shape:
            raise TranslateError("unrecognised reshape of the file array")
        rest = rest[1:]
    if len(rest) != 2 or not isinstance(rest[0], ast.If) or \
            not isinstance(rest[1], ast.Return):
        raise TranslateError("tail of newFromDirectory is not `if ...: ... else: ...; return`")
    br = rest[0]
    if U(br.test) not in ("basisSizeFile == grid.N", "grid.N == basisSizeFile"):
        raise TranslateError("branch test is " + U(br.test))
    db = _strip(br.body)
    if len(db) != 2:
        raise TranslateError("equal-size branch has %d statements" % len(db))
    facts["c_direct_label"] = _polynomial_call(db[0], "polynomialData", "collisionFileArray",
                                               "grid", "the equal-size branch")
    if U(db[1]) != "newCollision = CollisionArray.newFromPolynomial(polynomialData, particles)":
        raise TranslateError("equal-size branch: " + U(db[1])[:80])
    eb = _strip(br.orelse)
    if len(eb) != 5:
        raise TranslateError("interpolation branch has %d statements" % len(eb))
    g = eb[0]
    if not (isinstance(g, ast.If) and U(g.test) == "not bInterpolate" and not g.orelse
            and len(g.body) == 1):
        raise TranslateError("interpolation branch does not start with the bInterpolate check")
    facts["c_kind_nointerp"] = _raise_kind(g.body[0])
    dg = eb[1]
    if not (isinstance(dg, ast.Assign) and U(dg.targets[0]) == "dummyGrid" and
            isinstance(dg.value, ast.Call) and U(dg.value.func) == "Grid"
            and len(dg.value.args) >= 2 and U(dg.value.args[0]) == "grid.M"):
        raise TranslateError("dummy grid construction: " + U(dg)[:80])
    if [U(a) for a in dg.value.args[2:]] != ["grid.positionFalloff", "grid.momentumFalloffT",
                                             "grid.spacing"] or dg.value.keywords:
        raise TranslateError("dummy grid is not built with the target grid's falloffs and "
                             "spacing: " + U(dg.value)[:100])
    n_arg = U(dg.value.args[1])
    if n_arg == "basisSizeFile":
        facts["c_interp_size"] = "FileSize"
    elif n_arg == "grid.N":
        facts["c_interp_size"] = "TargetSize"
    else:
        raise TranslateError("dummy grid N is " + n_arg)
    facts["c_interp_label"] = _polynomial_call(eb[2], "dummyPolynomial", "collisionFileArray",
                                               "dummyGrid", "the interpolation branch")
    if U(eb[3]) != "dummyCollision = CollisionArray.newFromPolynomial(dummyPolynomial, particles)":
        raise TranslateError("interpolation branch: " + U(eb[3])[:80])
    if U(eb[4]) != "newCollision = CollisionArray.interpolateCollisionArray(dummyCollision, grid)":
        raise TranslateError("interpolation branch: " + U(eb[4])[:80])
    ret = rest[1].value
    if not (isinstance(ret, ast.Call) and U(ret.func) == "newCollision.changeBasis"
            and len(ret.args) == 1):
        raise TranslateError("return is not newCollision.changeBasis(...)")
    facts["c_final_basis"] = _which_basis(ret.args[0], "the final changeBasis")
    return facts


# ----------------------------------------------------------------------------------
# CollisionArray.changeBasis  (label bookkeeping + the flag it passes down)

def extract_collision_change_basis(cls):
    fn = _find_method(cls, "changeBasis")
    body = _strip(fn.body)
    texts = [U(s) for s in body]
    want_head = "if self.basisType == newBasisType:\n    return self"
    if texts[0] != want_head:
        raise TranslateError("CollisionArray.changeBasis does not start with the no-op test")
    if texts[1] != "CollisionArray._checkBasis(newBasisType)":
        raise TranslateError("CollisionArray.changeBasis: missing _checkBasis")
    call = body[2]
    if not (isinstance(call, ast.Expr) and isinstance(call.value, ast.Call) and
            U(call.value.func) == "self.polynomialData.changeBasis"):
        raise TranslateError("CollisionArray.changeBasis: no polynomialData.changeBasis call")
    a = call.value.args
    if len(a) != 1 or U(a[0]) != "('Array', 'Cardinal', 'Cardinal', 'Array', newBasisType, " \
                                 "newBasisType)":
        raise TranslateError("CollisionArray.changeBasis: target bases " + U(a[0]))
    inv_t = "false"
    for k in call.value.keywords:
        if k.arg != "inverseTranspose" or not isinstance(k.value, ast.Constant):
            raise TranslateError("CollisionArray.changeBasis: keyword " + str(k.arg))
        inv_t = "true" if k.value.value is True else "false"
    if texts[3:] != ["self.basisType = newBasisType", "return self"]:
        raise TranslateError("CollisionArray.changeBasis tail: %s" % texts[3:])
    return inv_t


# ----------------------------------------------------------------------------------
# interpolateCollisionArray: array pipeline

class _Dims:
    """symbolic nat expressions over P (= len(source.particles)) and Nt (= targetGrid.N)"""

    @staticmethod
    def dim(node):
        s = U(node)
        if s == "len(source.particles)":
            return "P"
        if s == "targetGrid.N":
            return "Nt"
        if isinstance(node, ast.Constant) and isinstance(node.value, int) and node.value >= 0:
            return str(node.value)
        if isinstance(node, ast.BinOp):
            a = _Dims.dim(node.left)
            if isinstance(node.op, ast.Pow):
                if not (isinstance(node.right, ast.Constant) and node.right.value == 2):
                    raise TranslateError("power other than 2 in a shape")
                return "(%s * %s)" % (a, a)
            b = _Dims.dim(node.right)
            op = {ast.Add: "+", ast.Sub: "-", ast.Mult: "*"}.get(type(node.op))
            if op is None:
                raise TranslateError("operator in shape: " + s)
            return "(%s %s %s)" % (a, op, b)
        raise TranslateError("unrecognised size expression " + s)

    @staticmethod
    def shape(node, env):
        if isinstance(node, ast.Name) and node.id in env:
            return env[node.id]
        if isinstance(node, ast.Tuple):
            return [_Dims.dim(e) for e in node.elts]
        if isinstance(node, ast.BinOp) and isinstance(node.op, ast.Mult):
            if isinstance(node.left, ast.Constant) and isinstance(node.left.value, int):
                return node.left.value * _Dims.shape(node.right, env)
            if isinstance(node.right, ast.Constant) and isinstance(node.right.value, int):
                return node.right.value * _Dims.shape(node.left, env)
        if isinstance(node, ast.BinOp) and isinstance(node.op, ast.Add):
            return _Dims.shape(node.left, env) + _Dims.shape(node.right, env)
        raise TranslateError("unrecognised shape expression " + U(node))


def _int(node):
    if isinstance(node, ast.Constant) and isinstance(node.value, int) and node.value >= 0:
        return node.value
    raise TranslateError("expected a non-negative int literal, got " + U(node))


def _arr(node, env, shapes, leaf):
    """array expression -> Coq term over Lib.Reshape"""
    if isinstance(node, ast.Name):
        if node.id in env:
            return env[node.id]
        raise TranslateError("unknown array name " + node.id)
    if isinstance(node, ast.Call):
        f = U(node.func)
        if f in ("np.array", "np.asarray", "np.asanyarray") and len(node.args) == 1:
            return _arr(node.args[0], env, shapes, leaf)
        if f == leaf[0]:
            leaf[1].append(node)
            return "E"
        if f == "np.moveaxis" and len(node.args) == 3:
            return "(moveaxis %d %d %s)" % (_int(node.args[1]), _int(node.args[2]),
                                            _arr(node.args[0], env, shapes, leaf))
        if f == "np.swapaxes" and len(node.args) == 3:
            return "(swapaxes %d %d %s)" % (_int(node.args[1]), _int(node.args[2]),
                                            _arr(node.args[0], env, shapes, leaf))
        if f == "np.transpose" and len(node.args) == 2 and isinstance(node.args[1], ast.Tuple):
            perm = [_int(e) for e in node.args[1].elts]
            return "(transpose [%s] %s)" % ("; ".join(map(str, perm)),
                                            _arr(node.args[0], env, shapes, leaf))
        if f == "np.reshape" and len(node.args) == 2:
            return "(reshape [%s] %s)" % ("; ".join(_Dims.shape(node.args[1], shapes)),
                                          _arr(node.args[0], env, shapes, leaf))
        if isinstance(node.func, ast.Attribute):
            base, meth = node.func.value, node.func.attr
            if meth == "reshape" and len(node.args) >= 1:
                shp = node.args[0] if len(node.args) == 1 else ast.Tuple(elts=node.args)
                return "(reshape [%s] %s)" % ("; ".join(_Dims.shape(shp, shapes)),
                                              _arr(base, env, shapes, leaf))
            if meth == "swapaxes" and len(node.args) == 2:
                return "(swapaxes %d %d %s)" % (_int(node.args[0]), _int(node.args[1]),
                                                _arr(base, env, shapes, leaf))
            if meth == "transpose" and len(node.args) >= 1:
                elts = node.args[0].elts if isinstance(node.args[0], ast.Tuple) else node.args
                perm = [_int(e) for e in elts]
                return "(transpose [%s] %s)" % ("; ".join(map(str, perm)),
                                                _arr(base, env, shapes, leaf))
        raise TranslateError("unsupported array call " + U(node)[:80])
    if isinstance(node, ast.Subscript):
        sl = node.slice
        if isinstance(sl, ast.Tuple) and len(sl.elts) == 3 and \
                isinstance(sl.elts[0], ast.Constant) and sl.elts[0].value is Ellipsis and \
                all(isinstance(e, ast.Slice) and e.lower is None and e.step is None
                    and e.upper is not None for e in sl.elts[1:]):
            return "(trunc_last2 %s %s %s)" % (_Dims.dim(sl.elts[1].upper),
                                               _Dims.dim(sl.elts[2].upper),
                                               _arr(node.value, env, shapes, leaf))
        raise TranslateError("unsupported subscript " + U(node)[:80])
    raise TranslateError("unsupported array expression " + U(node)[:80])


def extract_interpolate(cls):
    fn = _find_method(cls, "interpolateCollisionArray")
    if [a.arg for a in fn.args.args] != ["srcCollision", "targetGrid"]:
        raise TranslateError("interpolateCollisionArray signature changed")
    body = _strip(fn.body)
    out = {}
    env, shapes = {}, {}
    leaf = ("source.polynomialData.evaluate", [])
    grid_points = None
    stage = 0
    data_var = None
    for st in body:
        s = U(st)
        if isinstance(st, ast.Assert):
            if U(st.test) != "targetGrid.N <= srcCollision.getBasisSize()":
                raise TranslateError("unrecognised assertion " + U(st.test))
            out["assert"] = True
            continue
        if s == "source = copy.deepcopy(srcCollision)":
            continue
        if isinstance(st, ast.Expr) and isinstance(st.value, ast.Call) and \
                U(st.value.func) == "source.changeBasis":
            a = st.value.args
            if len(a) != 1 or not isinstance(a[0], ast.Constant) or \
                    a[0].value not in ("Cardinal", "Chebyshev") or "via" in out:
                raise TranslateError("source.changeBasis argument")
            if env:
                raise TranslateError("source.changeBasis after the evaluation")
            out["via"] = a[0].value
            continue
        if isinstance(st, ast.Assign) and len(st.targets) == 1 and \
                isinstance(st.targets[0], ast.Name):
            name = st.targets[0].id
            if name == "gridPoints":
                grid_points = _grid_points(st.value)
                continue
            if name == "newShape":
                shapes[name] = _Dims.shape(st.value, shapes)
                continue
            if name == "interpolatedPolynomial":
                v = st.value
                if not (isinstance(v, ast.Call) and U(v.func) == "Polynomial" and
                        len(v.args) >= 4 and U(v.args[0]) == data_var and
                        U(v.args[1]) == "targetGrid"):
                    raise TranslateError("interpolatedPolynomial construction")
                want = "('Array', 'Cardinal', 'Cardinal', 'Array', '%s', '%s')" % (
                    out.get("via"), out.get("via"))
                if U(v.args[2]) != want:
                    raise TranslateError("interpolated polynomial labelled %s, evaluated in %s"
                                         % (U(v.args[2]), out.get("via")))
                if U(v.args[3]) not in ("('z', 'pz', 'pp', 'z', 'pz', 'pp')",
                                        "CollisionArray.AXIS_TYPES"):
                    raise TranslateError("interpolated polynomial directions " + U(v.args[3]))
                out["final_term"] = env[data_var]
                continue
            if name == "newCollision":
                if s != "newCollision = CollisionArray.newFromPolynomial(" \
                        "interpolatedPolynomial, source.particles)":
                    raise TranslateError("newCollision construction")
                continue
            # an array-valued local
            env[name] = _arr(st.value, env, shapes, leaf)
            data_var = name
            continue
        if s == "newCollision.changeBasis(srcCollision.getBasisType())":
            out["back"] = True
            continue
        if s == "return newCollision":
            continue
        raise TranslateError("unrecognised statement in interpolateCollisionArray: " + s[:80])
    if "via" not in out:
        raise TranslateError("interpolateCollisionArray does not convert the source basis")
    if "final_term" not in out or grid_points is None or len(leaf[1]) != 1:
        raise TranslateError("interpolateCollisionArray: evaluation pipeline not found")
    ev = leaf[1][0]
    if len(ev.args) != 2 or U(ev.args[0]) != "gridPoints" or \
            not isinstance(ev.args[1], ast.Tuple):
        raise TranslateError("evaluate(...) arguments " + U(ev)[:80])
    out["eval_axes"] = [_int(e) for e in ev.args[1].elts]
    out["grid_points"] = grid_points
    out.setdefault("back", False)
    out.setdefault("assert", False)
    return out


def _grid_points(node):
    """np.array(np.meshgrid(U, V, indexing=K)).reshape((2, D))"""
    if not (isinstance(node, ast.Call) and isinstance(node.func, ast.Attribute) and
            node.func.attr == "reshape" and len(node.args) == 1):
        raise TranslateError("gridPoints is not <...>.reshape(shape)")
    shp = _Dims.shape(node.args[0], {})
    inner = node.func.value
    if not (isinstance(inner, ast.Call) and U(inner.func) == "np.array" and
            len(inner.args) == 1 and isinstance(inner.args[0], ast.Call) and
            U(inner.args[0].func) == "np.meshgrid"):
        raise TranslateError("gridPoints is not np.array(np.meshgrid(...)).reshape(...)")
    mg = inner.args[0]
    names = {"targetGrid.rzValues": "rz", "targetGrid.rpValues": "rp"}
    if len(mg.args) != 2 or any(U(a) not in names for a in mg.args):
        raise TranslateError("meshgrid arguments " + U(mg)[:80])
    u, v = (names[U(a)] for a in mg.args)
    ij = "false"          # numpy default is 'xy'
    for k in mg.keywords:
        if k.arg != "indexing" or not isinstance(k.value, ast.Constant):
            raise TranslateError("meshgrid keyword " + str(k.arg))
        ij = "true" if k.value.value == "ij" else "false"
    return "(reshape [%s] (meshgrid2 %s (Nt - 1) (Nt - 1) %s %s d))" % (
        "; ".join(shp), ij, u, v)


# ----------------------------------------------------------------------------------
# BoltzmannSolver.loadCollisions

def extract_load_collisions(tree):
    cls = _find_class(tree, "BoltzmannSolver")
    fn = _find_method(cls, "loadCollisions")
    if [a.arg for a in fn.args.args] != ["self", "directoryPath"]:
        raise TranslateError("loadCollisions signature changed")
    load_call = "CollisionArray.newFromDirectory(directoryPath, self.grid, self.basisN, " \
                "self.offEqParticles)"

    def stmts(ss):
        out = []
        for st in _strip(ss):
            s = U(st)
            if s == "self.collisionArray = " + load_call:
                out.append("SLoadStore")
            elif isinstance(st, ast.Assign) and U(st.targets[0]) == "self.collisionArray" \
                    and U(st.value) == "None":
                out.append("SClear")
            elif isinstance(st, ast.AnnAssign) and U(st.target) == "self.collisionArray" \
                    and st.value is not None and U(st.value) == "None":
                out.append("SClear")
            elif isinstance(st, ast.Delete) and [U(t) for t in st.targets] == \
                    ["self.collisionArray"]:
                out.append("SClear")
            else:
                raise TranslateError("unrecognised statement in loadCollisions: " + s[:80])
        return out

    body = _strip(fn.body)
    pre, tr_body, handlers = [], [], []
    seen_try = False
    for st in body:
        if isinstance(st, ast.Try):
            if seen_try or st.orelse or st.finalbody:
                raise TranslateError("loadCollisions: unexpected try structure")
            seen_try = True
            tr_body = stmts(st.body)
            for h in st.handlers:
                if h.type is None:
                    kinds = ["CollisionLoadError", "AssertionError", "OtherError"]
                elif isinstance(h.type, ast.Name):
                    kinds = ["CollisionLoadError", "AssertionError", "OtherError"] \
                        if h.type.id in ("Exception", "BaseException") else \
                        [_kind_of_exc(h.type.id)]
                else:
                    raise TranslateError("loadCollisions: handler type " + U(h.type))
                hb = _strip(h.body)
                if len(hb) == 1 and isinstance(hb[0], ast.Raise) and hb[0].exc is None:
                    act = "HReraise"
                elif len(hb) == 1 and isinstance(hb[0], ast.Raise):
                    act = "(HRaise %s)" % _raise_kind(hb[0])
                elif all(isinstance(x, ast.Pass) for x in hb):
                    act = "HSwallow"
                else:
                    raise TranslateError("loadCollisions: handler body " + U(h)[:80])
                for k in kinds:
                    handlers.append((k, act))
        elif seen_try:
            raise TranslateError("loadCollisions: statement after the try")
        else:
            pre += stmts([st])
    if not seen_try:
        # no try at all: the statements run unprotected
        tr_body, pre = pre, []
    return dict(c_prog_pre=pre, c_prog_try=tr_body, c_handlers=handlers)


# ----------------------------------------------------------------------------------
# Polynomial.changeBasis: the matrix pipeline

def _mx(node, cur):
    if isinstance(node, ast.Name) and node.id == "tnMatrix":
        return cur
    if isinstance(node, ast.Call):
        f = U(node.func)
        if f in ("np.array", "np.asarray") and len(node.args) == 1:
            return _mx(node.args[0], cur)
        if f == "np.linalg.inv" and len(node.args) == 1:
            return "(inv %s)" % _mx(node.args[0], cur)
        if f == "np.transpose" and len(node.args) == 1:
            return "(%s)^T" % _mx(node.args[0], cur)
        if f == "self.chebyshev" and len(node.args) == 3:
            a = [U(x) for x in node.args]
            if a == ["x[:, None]", "n[None, :]", "restriction"]:
                return "T"          # rows = nodes, columns = polynomial order
            if a == ["x[None, :]", "n[:, None]", "restriction"]:
                return "T^T"
    if isinstance(node, ast.Attribute) and node.attr == "T":
        return "(%s)^T" % _mx(node.value, cur)
    raise TranslateError("unsupported matrix expression " + U(node)[:80])


def extract_poly_change_basis(tree):
    cls = _find_class(tree, "Polynomial")
    fn = _find_method(cls, "changeBasis")
    if [a.arg for a in fn.args.args] != ["self", "newBasis", "inverseTranspose"] or \
            U(fn.args.defaults[-1]) != "False":
        raise TranslateError("Polynomial.changeBasis signature changed")
    loop = [st for st in _strip(fn.body) if isinstance(st, ast.For)]
    if len(loop) != 1 or U(loop[0].iter) != "range(self.rank)" or U(loop[0].target) != "i":
        raise TranslateError("Polynomial.changeBasis: axis loop not found")
    lb = _strip(loop[0].body)
    want_test = "newBasis[i] != self.basis[i] and newBasis[i] != 'Array' and " \
                "(self.basis[i] != 'Array')"
    if len(lb) != 1 or not isinstance(lb[0], ast.If) or U(lb[0].test) != want_test:
        raise TranslateError("Polynomial.changeBasis: per-axis test is " +
                             (U(lb[0].test) if lb and isinstance(lb[0], ast.If) else "?"))
    lines = []
    cur = None
    contraction = None
    for st in _strip(lb[0].body):
        s = U(st)
        if isinstance(st, ast.Assign) and U(st.targets[0]) == "tnMatrix":
            if isinstance(st.value, ast.Call) and U(st.value.func) == "np.expand_dims":
                if s != "tnMatrix = np.expand_dims(tnMatrix, tuple(np.arange(i)) + " \
                        "tuple(np.arange(i + 2, self.rank + 1)))":
                    raise TranslateError("Polynomial.changeBasis: expand_dims pattern")
                continue
            lines.append("let tn := %s in" % _mx(st.value, "tn"))
            cur = "tn"
            continue
        if isinstance(st, ast.If) and not st.orelse and len(st.body) == 1 and \
                isinstance(st.body[0], ast.Assign) and U(st.body[0].targets[0]) == "tnMatrix":
            t = U(st.test)
            if t == "newBasis[i] == 'Chebyshev'":
                c = "toCheb"
            elif t == "newBasis[i] == 'Cardinal'":
                c = "(~~ toCheb)"
            elif t == "inverseTranspose":
                c = "invT"
            elif t == "not inverseTranspose":
                c = "(~~ invT)"
            else:
                raise TranslateError("Polynomial.changeBasis: condition " + t)
            lines.append("let tn := if %s then %s else tn in" % (c, _mx(st.body[0].value, "tn")))
            continue
        if isinstance(st, ast.Assign) and U(st.targets[0]) == "self.coefficients":
            if U(st.value) == "np.sum(tnMatrix * np.expand_dims(self.coefficients, i), " \
                              "axis=i + 1)":
                contraction = "true"      # new[r] = sum_c tn[r, c] * old[c]
            else:
                raise TranslateError("Polynomial.changeBasis: contraction " + s[:90])
            continue
        if isinstance(st, ast.Assign) or isinstance(st, ast.If):
            # selection of x, n, restriction: must not touch tnMatrix / coefficients
            names = {n.id for n in ast.walk(st) if isinstance(n, ast.Name) and
                     isinstance(n.ctx, ast.Store)}
            attrs = {U(n) for n in ast.walk(st) if isinstance(n, ast.Attribute) and
                     isinstance(n.ctx, ast.Store)}
            if names <= {"x", "n", "restriction"} and not attrs:
                continue
        raise TranslateError("Polynomial.changeBasis: statement " + s[:80])
    if cur is None or contraction is None:
        raise TranslateError("Polynomial.changeBasis: matrix pipeline not found")
    return lines, contraction


# ----------------------------------------------------------------------------------
# Polynomial.evaluate: output layout assumed by the definition `evaluated` of Props/C14.v

class _DropAssertMessages(ast.NodeTransformer):
    def visit_Assert(self, node):
        self.generic_visit(node)
        node.msg = None
        return node


# the body of Polynomial.evaluate, statement by statement (assert messages dropped)
EVALUATE_BODY = ['compactCoord = np.asarray(compactCoord)',
 'if axes is None:\n    axes = tuple(np.arange(self.rank))',
 'assert compactCoord.shape[0] == len(axes) and 1 <= len(compactCoord.shape) <= 2',
 'singlePoint = False',
 'if len(compactCoord.shape) == 1:\n'
 '    compactCoord = compactCoord.reshape((len(axes), 1))\n'
 '    singlePoint = True',
 'polynomials = np.ones((compactCoord.shape[1],) + self.coefficients.shape)',
 'for j, i in enumerate(axes):\n'
 "    assert self.basis[i] != 'Array'\n"
 '    n: np.ndarray\n'
 '    if self.endpoints[i]:\n'
 "        if self.direction[i] == 'z':\n"
 '            n = np.arange(self.grid.M + 1)\n'
 "        elif self.direction[i] == 'pz':\n"
 '            n = np.arange(self.grid.N + 1)\n'
 '        else:\n'
 '            n = np.arange(self.grid.N)\n'
 "    elif self.direction[i] == 'z':\n"
 '        n = np.arange(1, self.grid.M)\n'
 "    elif self.direction[i] == 'pz':\n"
 '        n = np.arange(1, self.grid.N)\n'
 '    else:\n'
 '        n = np.arange(self.grid.N - 1)\n'
 '    pn: np.ndarray\n'
 "    if self.basis[i] == 'Cardinal':\n"
 '        pn = np.array(self.cardinal(compactCoord[j, :, None], n[None, :], '
 'self.direction[i]))\n'
 "    elif self.basis[i] == 'Chebyshev':\n"
 '        restriction = None\n'
 '        if not self.endpoints[i]:\n'
 '            n += 1\n'
 "            if self.direction[i] == 'z':\n"
 "                restriction = 'full'\n"
 "            elif self.direction[i] == 'pz':\n"
 "                restriction = 'full'\n"
 '            else:\n'
 "                restriction = 'partial'\n"
 '        pn = np.array(self.chebyshev(compactCoord[j, :, None], n[None, :], restriction))\n'
 '    polynomials *= np.expand_dims(pn, tuple(np.arange(1, i + 1)) + tuple(np.arange(i + 2, '
 'self.rank + 1)))',
 'result = np.sum(self.coefficients[None, ...] * polynomials, axis=tuple(np.array(axes) + 1))',
 'if singlePoint:\n'
 '    return float(result[0]) if np.ndim(result[0]) == 0 else np.array(result[0])',
 'return np.array(result)']


def check_evaluate_layout(tree):
    """Polynomial.evaluate is the hand-written definition `evaluated` of Props/C14.v:
    (points, remaining axes in order), row r of the points goes with axes[r], ONE pass over all
    points.  Statement-exact, in order; anything else fails closed."""
    import copy as _copy
    cls = _find_class(tree, "Polynomial")
    fn = _find_method(cls, "evaluate")
    if [a.arg for a in fn.args.args] != ["self", "compactCoord", "axes"]:
        raise TranslateError("Polynomial.evaluate signature changed")
    have = [U(_DropAssertMessages().visit(_copy.deepcopy(st))).replace(
        "for (j, i) in", "for j, i in") for st in _strip(fn.body)]
    for k, want in enumerate(EVALUATE_BODY):
        if k >= len(have) or have[k] != want:
            raise TranslateError("Polynomial.evaluate: statement %d is not `%s` but `%s`" % (
                k, want.splitlines()[0][:70],
                have[k].splitlines()[0][:70] if k < len(have) else "<missing>"))
    if len(have) != len(EVALUATE_BODY):
        raise TranslateError("Polynomial.evaluate: extra statement `%s`" %
                             have[len(EVALUATE_BODY)].splitlines()[0][:70])


# ----------------------------------------------------------------------------------

# ----------------------------------------------------------------------------------
# identity of the names the facts are stated in

def bindings(tree, name):
    """every place in a module that binds `name` (any scope)"""
    out = []
    for n in ast.walk(tree):
        if isinstance(n, (ast.Import, ast.ImportFrom)):
            for a in n.names:
                bound = a.asname or a.name.split(".")[0]
                if bound == name:
                    if isinstance(n, ast.ImportFrom):
                        out.append("from %s%s import %s%s" % (
                            "." * n.level, n.module or "", a.name,
                            " as " + a.asname if a.asname else ""))
                    else:
                        out.append("import %s%s" % (a.name,
                                                    " as " + a.asname if a.asname else ""))
        elif isinstance(n, (ast.ClassDef, ast.FunctionDef, ast.AsyncFunctionDef)):
            if n.name == name:
                out.append("def/class " + name)
        elif isinstance(n, ast.Name) and n.id == name and \
                isinstance(n.ctx, (ast.Store, ast.Del)):
            out.append("assignment to " + name)
        elif isinstance(n, ast.arg) and n.arg == name:
            out.append("argument " + name)
        elif isinstance(n, ast.ExceptHandler) and n.name == name:
            out.append("except ... as " + name)
        elif isinstance(n, (ast.Global, ast.Nonlocal)) and name in n.names:
            out.append("global " + name)
    return out


def require_binding(tree, fname, name, want):
    b = bindings(tree, name)
    if b != [want]:
        raise TranslateError("%s: the name %s must be bound exactly once, by `%s`; found %s"
                             % (fname, name, want, b or "nothing"))


def check_exception_identity(trees):
    """the CollisionLoadError the facts talk about is THE public WallGo.CollisionLoadError"""
    ex = trees["exceptions.py"]
    defs = [n for n in ast.walk(ex) if isinstance(n, ast.ClassDef)
            and n.name == "CollisionLoadError"]
    if len(defs) != 1 or bindings(ex, "CollisionLoadError") != ["def/class CollisionLoadError"]:
        raise TranslateError("exceptions.py does not define CollisionLoadError exactly once")
    bases = [U(b) for b in defs[0].bases]
    if bases not in (["Exception"], ["WallGoError"]):
        raise TranslateError("CollisionLoadError bases are %s" % bases)
    if any(not (isinstance(x, ast.Pass) or (isinstance(x, ast.Expr) and
                                             isinstance(x.value, ast.Constant)))
           for x in defs[0].body):
        raise TranslateError("CollisionLoadError has a non-trivial body")
    for f in ("collisionArray.py", "boltzmann.py"):
        require_binding(trees[f], f, "CollisionLoadError",
                        "from .exceptions import CollisionLoadError")
    # the package exports that very class
    init = trees["__init__.py"]
    b = bindings(init, "CollisionLoadError")
    if b != ["from .exceptions import CollisionLoadError"]:
        raise TranslateError("__init__.py binds CollisionLoadError by %s" % b)
    # copy.deepcopy is the standard one where the facts rely on it
    for f in ("collisionArray.py", "equationOfMotion.py"):
        require_binding(trees[f], f, "copy", "import copy")
    # the classes the call sites name are the ones analysed here
    require_binding(trees["boltzmann.py"], "boltzmann.py", "CollisionArray",
                    "from .collisionArray import CollisionArray")
    require_binding(trees["manager.py"], "manager.py", "BoltzmannSolver",
                    "from .boltzmann import BoltzmannSolver")
    require_binding(trees["collisionArray.py"], "collisionArray.py", "Polynomial",
                    "from .polynomial import Polynomial")
    require_binding(trees["collisionArray.py"], "collisionArray.py", "Grid",
                    "from .grid import Grid")


# ----------------------------------------------------------------------------------
# EOM.getBoltzmannFiniteDifference: the only caller of CollisionArray.changeBasis on a live
# array

def extract_fd_program(tree):
    cls = _find_class(tree, "EOM")
    fn = _find_method(cls, "getBoltzmannFiniteDifference")
    if [a.arg for a in fn.args.args] != ["self"]:
        raise TranslateError("getBoltzmannFiniteDifference signature changed")
    prog = []
    var = None
    for st in _strip(fn.body):
        s = U(st)
        if isinstance(st, ast.Assert):
            continue
        if isinstance(st, ast.Assign) and len(st.targets) == 1 and \
                isinstance(st.targets[0], ast.Name):
            v = U(st.value)
            kind = {"copy.deepcopy(self.boltzmannSolver)": "CDeep",
                    "copy.copy(self.boltzmannSolver)": "CShallow",
                    "self.boltzmannSolver": "CAlias"}.get(v)
            if kind is None:
                raise TranslateError("getBoltzmannFiniteDifference: unrecognised binding " + s)
            if var is not None and st.targets[0].id != var:
                raise TranslateError("getBoltzmannFiniteDifference: second solver variable")
            var = st.targets[0].id
            prog.append("FBind %s" % kind)
            continue
        if var is None:
            raise TranslateError("getBoltzmannFiniteDifference: statement before the solver "
                                 "is bound: " + s[:80])
        if isinstance(st, ast.Assign) and len(st.targets) == 1 and \
                isinstance(st.targets[0], ast.Attribute) and U(st.targets[0].value) == var:
            attr = st.targets[0].attr
            if attr == "basisN":
                if not (isinstance(st.value, ast.Constant) and
                        st.value.value in ("Cardinal", "Chebyshev")):
                    raise TranslateError("getBoltzmannFiniteDifference: basisN = " + U(st.value))
                prog.append("FSetBasisN %s" % st.value.value)
            elif attr in ("collisionArray", "offEqParticles", "grid"):
                raise TranslateError("getBoltzmannFiniteDifference rebinds ." + attr)
            else:
                prog.append("FSetField")
            continue
        if isinstance(st, ast.Expr) and isinstance(st.value, ast.Call) and \
                U(st.value.func) == var + ".collisionArray.changeBasis":
            a = st.value.args
            if len(a) != 1 or not isinstance(a[0], ast.Constant) or \
                    a[0].value not in ("Cardinal", "Chebyshev") or st.value.keywords:
                raise TranslateError("getBoltzmannFiniteDifference: changeBasis argument")
            prog.append("FChangeBasis %s" % a[0].value)
            continue
        if s in ("return %s.getDeltas()" % var, "%s.getDeltas()" % var):
            prog.append("FGetDeltas")
            continue
        raise TranslateError("getBoltzmannFiniteDifference: unrecognised statement " + s[:80])
    return prog


# ----------------------------------------------------------------------------------
# WallGoManager.setupWallSolver: the only caller of loadCollisions

def extract_manager(tree):
    cls = _find_class(tree, "WallGoManager")
    fn = _find_method(cls, "setupWallSolver")
    call_text = "boltzmannSolver.loadCollisions(self.collisionDirectory)"
    found = []

    def walk(stmts, chain):
        for st in stmts:
            if isinstance(st, ast.Expr) and U(st.value) == call_text:
                found.append(list(chain))
            elif any(isinstance(n, ast.Call) and isinstance(n.func, ast.Attribute)
                     and n.func.attr == "loadCollisions" for n in ast.walk(st)) and \
                    not isinstance(st, (ast.If, ast.Try, ast.With, ast.For, ast.While)):
                raise TranslateError("setupWallSolver: loadCollisions used in `%s`" % U(st)[:80])
            if isinstance(st, ast.If):
                walk(st.body, chain + [("if", U(st.test))])
                walk(st.orelse, chain + [("else", U(st.test))])
            elif isinstance(st, ast.Try):
                walk(st.body, chain + [("try", st)])
                for h in st.handlers:
                    walk(h.body, chain + [("except", U(h.type) if h.type else "")])
                walk(st.orelse, chain + [("try-else", st)])
                walk(st.finalbody, chain + [("finally", st)])
            elif isinstance(st, (ast.With, ast.For, ast.While)):
                walk(st.body, chain + [("block", type(st).__name__)])

    body = _strip(fn.body)
    walk(body, [])
    if len(found) != 1:
        raise TranslateError("setupWallSolver: %d calls of %s" % (len(found), call_text))
    handlers = []
    conds = []
    for kind, x in found[0]:
        if kind == "if":
            conds.append(x)
        elif kind == "try":
            for h in x.handlers:
                if h.type is None:
                    kinds = ["CollisionLoadError", "AssertionError", "OtherError"]
                elif isinstance(h.type, ast.Name):
                    kinds = ["CollisionLoadError", "AssertionError", "OtherError"] \
                        if h.type.id in ("Exception", "BaseException", "WallGoError") else \
                        [_kind_of_exc(h.type.id)]
                elif isinstance(h.type, ast.Tuple):
                    kinds = ["CollisionLoadError", "AssertionError", "OtherError"]
                else:
                    kinds = [_kind_of_exc(U(h.type).split(".")[-1])]
                hb = _strip(h.body)
                if len(hb) == 1 and isinstance(hb[0], ast.Raise) and hb[0].exc is None:
                    act = "HReraise"
                elif hb and isinstance(hb[-1], ast.Raise) and hb[-1].exc is not None:
                    act = "(HRaise %s)" % _raise_kind(hb[-1])
                elif hb and isinstance(hb[-1], ast.Raise):
                    act = "HReraise"
                else:
                    act = "HSwallow"
                handlers += [(k, act) for k in kinds]
            if x.finalbody and any(isinstance(n, (ast.Return, ast.Break, ast.Continue))
                                   for f in x.finalbody for n in ast.walk(f)):
                handlers += [(k, "HSwallow") for k in
                             ("CollisionLoadError", "AssertionError", "OtherError")]
        else:
            raise TranslateError("setupWallSolver: loadCollisions inside a `%s` block" % kind)
    if conds != ["bShouldLoadCollisions"]:
        raise TranslateError("setupWallSolver: the load is conditional on %s" % conds)
    assigns = [U(st) for st in ast.walk(fn) if isinstance(st, (ast.Assign, ast.AugAssign,
                                                                ast.AnnAssign))
               and any(isinstance(n, ast.Name) and n.id == "bShouldLoadCollisions" and
                       isinstance(n.ctx, ast.Store) for n in ast.walk(st))]
    if assigns != ["bShouldLoadCollisions = wallSolverSettings.bIncludeOffEquilibrium"]:
        raise TranslateError("setupWallSolver: bShouldLoadCollisions is set by %s" % assigns)
    offeq = [U(st) for st in ast.walk(fn) if isinstance(st, ast.Assign) and
             U(st.targets[0]).endswith(".includeOffEq")]
    if offeq != ["eom.includeOffEq = wallSolverSettings.bIncludeOffEquilibrium"]:
        raise TranslateError("setupWallSolver: includeOffEq is set by %s" % offeq)
    text = U(fn)
    for need in ("boltzmannSolver = BoltzmannSolver(grid, basisM='Cardinal', "
                 "basisN='Chebyshev', collisionMultiplier=collisionMultiplier)",
                 "boltzmannSolver.updateParticleList(self.model.outOfEquilibriumParticles)",
                 "eom: EOM = self.buildEOM(grid, boltzmannSolver, meanFreePathScale)",
                 "return WallSolver(eom, grid, boltzmannSolver, wallThickness / Tnucl)"):
        if need not in text:
            raise TranslateError("setupWallSolver: statement not found: " + need)
    return handlers


# ----------------------------------------------------------------------------------
# every path into the loading / conversion functions is one of the reviewed ones

ALLOWED_CALLS = {
    ("boltzmann.py", "BoltzmannSolver.loadCollisions", "newFromDirectory"),
    ("manager.py", "WallGoManager.setupWallSolver", "loadCollisions"),
    ("manager.py", "WallGoManager.solveWall", "setupWallSolver"),
    ("manager.py", "WallGoManager.solveWallDetonation", "setupWallSolver"),
    ("equationOfMotion.py", "EOM.getBoltzmannFiniteDifference", "collisionArray.changeBasis"),
    ("collisionArray.py", "CollisionArray.newFromDirectory", "newFromPolynomial"),
    ("collisionArray.py", "CollisionArray.newFromDirectory", "interpolateCollisionArray"),
    ("collisionArray.py", "CollisionArray.newFromDirectory", "collision.changeBasis"),
    ("collisionArray.py", "CollisionArray.interpolateCollisionArray", "newFromPolynomial"),
    ("collisionArray.py", "CollisionArray.interpolateCollisionArray", "collision.changeBasis"),
    ("collisionArray.py", "CollisionArray.changeBasis", "polynomialData.changeBasis"),
}
ALLOWED_WRITES = {
    ("boltzmann.py", "BoltzmannSolver.__init__", "collisionArray"),
    ("boltzmann.py", "BoltzmannSolver.setCollisionArray", "collisionArray"),
    ("boltzmann.py", "BoltzmannSolver.loadCollisions", "collisionArray"),
    ("collisionArray.py", "CollisionArray.__init__", "polynomialData"),
    ("collisionArray.py", "CollisionArray.newFromPolynomial", "polynomialData"),
}


ANCHORED_FUNCTIONS = ("newFromDirectory", "loadCollisions", "interpolateCollisionArray",
                      "newFromPolynomial", "setCollisionArray", "changeBasis", "evaluate",
                      "setupWallSolver", "getBoltzmannFiniteDifference", "solveWall",
                      "solveWallDetonation", "updateParticleList", "cardinal", "chebyshev",
                      "_checkBasis", "__getitem__", "getBasisSize", "getBasisType")
MUTATING_METHODS = ("fill", "sort", "resize", "put", "itemset", "partition", "setfield",
                    "byteswap", "setflags")


def _is_collision_expr(text):
    return text.endswith(".collisionArray") or text == "collisionArray" or \
        text.endswith(".polynomialData") or \
        (text.endswith(".coefficients") and ("ollision" in text or "polynomialData" in text))


def scan_call_paths(trees):
    """-> list of unreviewed uses (file, function, what).  Within each function one level of
    alias tracking: a local bound from an expression that IS a collision array, its Polynomial
    or its coefficient array (or a view / attribute of such a local) counts as that object."""
    new = []
    for fname, tree in sorted(trees.items()):
        funcs = []

        def collect(node, qual):
            for ch in ast.iter_child_nodes(node):
                if isinstance(ch, (ast.ClassDef, ast.FunctionDef, ast.AsyncFunctionDef)):
                    q = (qual + "." if qual else "") + ch.name
                    if not isinstance(ch, ast.ClassDef):
                        funcs.append((q, ch))
                    collect(ch, q)
                else:
                    collect(ch, qual)
        collect(tree, "")
        funcs.append(("", tree))
        for qual, fn in funcs:
            # statements of this function only (not of nested defs, which are listed on their own)
            nodes = []

            def own(node):
                for ch in ast.iter_child_nodes(node):
                    if isinstance(ch, (ast.FunctionDef, ast.AsyncFunctionDef, ast.ClassDef)):
                        continue
                    nodes.append(ch)
                    own(ch)
            own(fn)
            aliases = set()
            changed = True
            while changed:          # to a fixed point (order of statements does not matter)
                changed = False
                for n in nodes:
                    tg = None
                    if isinstance(n, ast.Assign) and len(n.targets) == 1 and \
                            isinstance(n.targets[0], ast.Name):
                        tg, val = n.targets[0].id, n.value
                    elif isinstance(n, ast.AnnAssign) and isinstance(n.target, ast.Name) and \
                            n.value is not None:
                        tg, val = n.target.id, n.value
                    elif isinstance(n, ast.NamedExpr):
                        tg, val = n.target.id, n.value
                    if tg is None or tg in aliases:
                        continue
                    base = val
                    while isinstance(base, (ast.Subscript, ast.Attribute)) and not \
                            _is_collision_expr(U(base)):
                        base = base.value
                    bt = U(base)
                    if _is_collision_expr(bt) or (isinstance(base, ast.Name) and
                                                  base.id in aliases):
                        # exclude plain reads of numbers into fresh arrays
                        if isinstance(val, (ast.Name, ast.Attribute, ast.Subscript)):
                            aliases.add(tg)
                            changed = True

            def root_is_collision(node):
                """target expression lives inside a collision array (by text or alias)"""
                base = node
                while isinstance(base, (ast.Subscript, ast.Attribute)):
                    if _is_collision_expr(U(base)):
                        return True
                    base = base.value
                return isinstance(base, ast.Name) and base.id in aliases

            for ch in nodes:
                if isinstance(ch, ast.Call) and isinstance(ch.func, ast.Attribute):
                    attr = ch.func.attr
                    recv = U(ch.func.value)
                    what = None
                    if attr in ("newFromDirectory", "loadCollisions",
                                "interpolateCollisionArray", "newFromPolynomial",
                                "setCollisionArray", "setupWallSolver"):
                        what = attr
                    elif attr == "changeBasis":
                        if recv.endswith(".collisionArray") or recv == "collisionArray":
                            what = "collisionArray.changeBasis"
                        elif recv.endswith("polynomialData"):
                            what = "polynomialData.changeBasis"
                        elif isinstance(ch.func.value, ast.Name) and ch.func.value.id in aliases:
                            what = "alias.changeBasis"
                        elif fname == "collisionArray.py":
                            what = "collision.changeBasis"
                    elif attr in MUTATING_METHODS and root_is_collision(ch.func.value):
                        what = "in-place ." + attr
                    if what is not None and (fname, qual, what) not in ALLOWED_CALLS:
                        new.append((fname, qual or "<module>", "call of " + what + ": " +
                                    U(ch)[:60]))
                if isinstance(ch, ast.Call):
                    for kw in ch.keywords:
                        if kw.arg == "out" and root_is_collision(kw.value):
                            new.append((fname, qual or "<module>", "out= into " + U(kw.value)))
                    if U(ch.func) in ("setattr", "delattr") and ch.args[1:2] and \
                            isinstance(ch.args[1], ast.Constant) and ch.args[1].value in (
                                ("collisionArray", "polynomialData", "coefficients",
                                 "bIncludeOffEquilibrium") + ANCHORED_FUNCTIONS):
                        new.append((fname, qual or "<module>", U(ch)[:60]))
                if isinstance(ch, ast.Attribute) and isinstance(ch.ctx, (ast.Store, ast.Del)):
                    if ch.attr in ("collisionArray", "polynomialData") and \
                            (fname, qual, ch.attr) not in ALLOWED_WRITES:
                        new.append((fname, qual or "<module>", "write to ." + ch.attr))
                    if ch.attr in ANCHORED_FUNCTIONS:
                        new.append((fname, qual or "<module>", "rebinding of ." + ch.attr))
                    if ch.attr == "bIncludeOffEquilibrium":
                        new.append((fname, qual or "<module>",
                                    "write to .bIncludeOffEquilibrium"))
                    if ch.attr == "coefficients" and root_is_collision(ch):
                        new.append((fname, qual or "<module>", "write to " + U(ch)))
                # in-place changes of the numbers: x[...] = / x op= / x.attr op= on a collision
                # array or an alias of it
                tgts = []
                if isinstance(ch, ast.AugAssign):
                    tgts = [ch.target]
                elif isinstance(ch, ast.Assign):
                    tgts = [t for t in ch.targets if isinstance(t, ast.Subscript)]
                elif isinstance(ch, ast.Delete):
                    tgts = [t for t in ch.targets if isinstance(t, ast.Subscript)]
                for t in tgts:
                    if root_is_collision(t) and not (
                            isinstance(t, ast.Name) and not isinstance(ch, ast.AugAssign)):
                        new.append((fname, qual or "<module>", "in-place change of " +
                                    U(t)[:50]))
    # the callers of setupWallSolver: a bare statement of the method body, outside any try
    mgr = trees.get("manager.py")
    if mgr is not None:
        want = "solver: WallSolver = self.setupWallSolver(wallSolverSettings)"
        for meth in ("solveWall", "solveWallDetonation"):
            fn = _find_method(_find_class(mgr, "WallGoManager"), meth)
            if sum(1 for st in fn.body if U(st) == want) != 1:
                new.append(("manager.py", "WallGoManager." + meth,
                            "setupWallSolver is not called by the bare statement `%s`" % want))
            n_calls = sum(1 for n in ast.walk(fn) if isinstance(n, ast.Call) and
                          isinstance(n.func, ast.Attribute) and n.func.attr == "setupWallSolver")
            if n_calls != 1:
                new.append(("manager.py", "WallGoManager." + meth,
                            "%d calls of setupWallSolver" % n_calls))
    return new


# ----------------------------------------------------------------------------------
# small helpers the result depends on: the statements that matter must be there

HELPER_STATEMENTS = {
    ("collisionArray.py", "CollisionArray", "__init__"): [
        "self.size = grid.N - 1", "self.basisType = basisType", "self.particles = particles",
        "bases = ('Array', 'Cardinal', 'Cardinal', 'Array', basisType, basisType)",
        "self.polynomialData = Polynomial(data, grid, bases, CollisionArray.AXIS_TYPES, "
        "endpoints=False)"],
    ("collisionArray.py", "CollisionArray", "__getitem__"): [
        "return self.polynomialData.coefficients[key]"],
    ("collisionArray.py", "CollisionArray", "getBasisSize"): ["return self.size"],
    ("collisionArray.py", "CollisionArray", "getBasisType"): ["return self.basisType"],
    ("collisionArray.py", "CollisionArray", "newFromPolynomial"): [
        "bases = inputPolynomial.basis", "assert bases[4] == bases[5]",
        "basisType = bases[4]",
        "newCollision = CollisionArray(inputPolynomial.grid, basisType, particles)",
        "newCollision.polynomialData = inputPolynomial", "return newCollision"],
    ("collisionArray.py", "CollisionArray", "_checkBasis"): [
        "bases = ['Cardinal', 'Chebyshev']"],
    ("collisionArray.py", "CollisionArray", "interpolateCollisionArray"): [
        "source = copy.deepcopy(srcCollision)"],
    ("boltzmann.py", "BoltzmannSolver", "__init__"): [
        "self.grid = grid", "self.basisN = basisN", "self.collisionArray = None",
        "BoltzmannSolver._checkBasis(basisN)"],
    ("boltzmann.py", "BoltzmannSolver", "setCollisionArray"): [
        "self.collisionArray = collisionArray"],
    ("boltzmann.py", "BoltzmannSolver", "updateParticleList"): [
        "self.offEqParticles = offEqParticles"],
    ("polynomial.py", "Polynomial", "changeBasis"): [
        # the label of every transformed axis becomes the requested one; an 'Array' axis is
        # never transformed (either form leaves the collision array's 6 labels the same,
        # since CollisionArray.changeBasis passes 'Array' for its Array axes)
        ("self.basis = newBasis",
         "self.basis = tuple(('Array' if old == 'Array' else new for (old, new) in "
         "zip(self.basis, newBasis)))",
         "self.basis = tuple(('Array' if old == 'Array' else new for old, new in "
         "zip(self.basis, newBasis)))"),
        "x = self.grid.getCompactCoordinates(self.endpoints[i], self.direction[i])",
        "n = np.arange(2, self.grid.N + 1)", "n = np.arange(1, self.grid.N)",
        "restriction = 'full'", "restriction = 'partial'"],
    ("polynomial.py", "Polynomial", "__init__"): [
        "self.coefficients = np.asanyarray(coefficients)", "self.basis = basis",
        "self.direction = direction", "self.endpoints = endpoints", "self.grid = grid"],
}


def check_helpers(trees):
    for (fname, cname, mname), needed in HELPER_STATEMENTS.items():
        fn = _find_method(_find_class(trees[fname], cname), mname)
        have = set()
        for n in ast.walk(fn):
            if isinstance(n, ast.stmt):
                have.add(U(n))
        for line in needed:
            alts = line if isinstance(line, tuple) else (line,)
            if not any(a in have for a in alts):
                raise TranslateError("%s %s.%s: statement not found: %s" % (
                    fname, cname, mname, alts[0]))
    cls = _find_class(trees["collisionArray.py"], "CollisionArray")
    for st in cls.body:
        if isinstance(st, ast.AnnAssign) and U(st.target) == "AXIS_TYPES":
            if U(st.value) != "('Array', 'pz', 'pp', 'Array', 'pz', 'pp')":
                raise TranslateError("AXIS_TYPES = " + U(st.value))
            break
    else:
        raise TranslateError("AXIS_TYPES not found")


def _coq_list(items):
    return "[" + "; ".join(items) + "]"


NEEDED = ("collisionArray.py", "boltzmann.py", "polynomial.py", "equationOfMotion.py",
          "manager.py", "exceptions.py", "__init__.py")


def generate(sources):
    """sources: {file name under src/WallGo: text} for (at least) NEEDED, ideally every
    module of the package (the call-path scan runs over all of them)
    -> (CollisionGen.v text, BasisGen.v text, facts dict)"""
    for f in NEEDED:
        if f not in sources:
            raise TranslateError("source file %s not found" % f)
    trees = {}
    for f, text in sources.items():
        try:
            trees[f] = ast.parse(text)
        except SyntaxError as e:
            raise TranslateError("cannot parse %s: %s" % (f, e))
    src_collision, src_boltzmann, src_polynomial = (
        sources["collisionArray.py"], sources["boltzmann.py"], sources["polynomial.py"])
    check_plain_modules(trees)
    check_exception_identity(trees)
    check_helpers(trees)
    fd_prog = extract_fd_program(trees["equationOfMotion.py"])
    mgr_handlers = extract_manager(trees["manager.py"])
    new_paths = scan_call_paths(trees)
    tc = ast.parse(src_collision)
    cls = _find_class(tc, "CollisionArray")
    facts = extract_new_from_directory(cls)
    inv_t = extract_collision_change_basis(cls)
    itp = extract_interpolate(cls)
    facts["c_interp_via"] = itp["via"]
    facts["c_interp_back"] = "true" if itp["back"] else "false"
    if not itp["assert"]:
        raise TranslateError("interpolateCollisionArray lost its size assertion")
    facts.update(extract_load_collisions(ast.parse(src_boltzmann)))
    tp = ast.parse(src_polynomial)
    lines, contraction = extract_poly_change_basis(tp)
    check_evaluate_layout(tp)

    def guards(gs):
        return _coq_list("(%s, %s)" % g for g in gs)

    gen = """(* GENERATED by tools/gen_collision.py from collisionArray.py / boltzmann.py -- do not edit *)
From Coq Require Import List Arith.
From WG Require Import Lib.Reshape Model.CollisionLoad.
Import ListNotations.

Definition the_cfg : cfg := {|
  c_row_major := %(c_row_major)s;
  c_key_order := %(c_key_order)s;
  c_store_order := %(c_store_order)s;
  c_kind_missing := %(c_kind_missing)s;
  c_kind_unreadable := %(c_kind_unreadable)s;
  c_guards_every := %(every)s;
  c_guards_later := %(later)s;
  c_kind_nointerp := %(c_kind_nointerp)s;
  c_direct_label := %(c_direct_label)s;
  c_interp_label := %(c_interp_label)s;
  c_interp_size := %(c_interp_size)s;
  c_final_basis := %(c_final_basis)s;
  c_interp_via := %(c_interp_via)s;
  c_interp_back := %(c_interp_back)s;
  c_prog_pre := %(pre)s;
  c_prog_try := %(try)s;
  c_handlers := %(handlers)s
|}.

(* interpolateCollisionArray: E = np.array(source.polynomialData.evaluate(gridPoints, axes)) *)
Definition interp_layout {A} (P Nt : nat) (E : arr A) : arr A :=
  %(final_term)s.

Definition eval_axes : list nat := %(axes)s.

Definition grid_points {X} (Nt : nat) (rz rp : nat -> X) (d : X) : arr X :=
  %(grid_points)s.

(* EOM.getBoltzmannFiniteDifference *)
Definition fd_prog : list fdstmt := %(fd_prog)s.

(* handlers of the try statements around boltzmannSolver.loadCollisions(...) in
   WallGoManager.setupWallSolver *)
Definition manager_handlers : list (errkind * hact) := %(mgr)s.

(* uses of the loading / conversion functions outside the reviewed call sites *)
Definition unreviewed_call_paths : nat := %(npaths)d.
""" % dict(facts, fd_prog=_coq_list(fd_prog),
           mgr=_coq_list("(%s, %s)" % h for h in mgr_handlers), npaths=len(new_paths), every=guards(facts["c_guards_every"]), later=guards(facts["c_guards_later"]),
           pre=_coq_list(facts["c_prog_pre"]), **{"try": _coq_list(facts["c_prog_try"])},
           handlers=_coq_list("(%s, %s)" % h for h in facts["c_handlers"]),
           final_term=itp["final_term"], axes=_coq_list(map(str, itp["eval_axes"])),
           grid_points=itp["grid_points"])

    bas = """(* GENERATED by tools/gen_collision.py from polynomial.py / collisionArray.py -- do not edit *)
From mathcomp Require Import all_ssreflect all_algebra.
Set Implicit Arguments. Unset Strict Implicit. Unset Printing Implicit Defensive.
Local Open Scope ring_scope.

Section Gen.
Variable F : fieldType.
Variable n : nat.
Variable inv : 'M[F]_n -> 'M[F]_n.      (* np.linalg.inv *)

(* Polynomial.changeBasis, one axis: T[r][c] = (restricted) Chebyshev polynomial of order
   n_c at node x_r *)
Definition tn_matrix (toCheb invT : bool) (T : 'M[F]_n) : 'M[F]_n :=
  %(lines)s
  tn.
End Gen.

(* np.sum(tnMatrix * np.expand_dims(coefficients, i), axis=i+1):
   new[.., r, ..] = sum_c tn[r, c] * old[.., c, ..] *)
Definition contraction_left : bool := %(contraction)s.

(* CollisionArray.changeBasis calls Polynomial.changeBasis(..., inverseTranspose=this) on the
   two polynomial axes (4 and 5) *)
Definition collision_invT : bool := %(inv_t)s.
""" % dict(lines="\n  ".join(lines), contraction=contraction, inv_t=inv_t)
    facts["interp_term"] = itp["final_term"]
    facts["grid_points"] = itp["grid_points"]
    facts["eval_axes"] = itp["eval_axes"]
    facts["collision_invT"] = inv_t
    facts["tn_lines"] = lines
    facts["fd_prog"] = fd_prog
    facts["manager_handlers"] = mgr_handlers
    facts["new_paths"] = new_paths
    return gen, bas, facts


if __name__ == "__main__":
    import sys
    root = sys.argv[1] if len(sys.argv) > 1 else "/repo"
    import glob
    import os
    srcs = {os.path.basename(p): open(p).read()
            for p in glob.glob("%s/src/WallGo/*.py" % root)}
    g, b, f = generate(srcs)
    print(f["new_paths"])
    print(g)
    print(b)
