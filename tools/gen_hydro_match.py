"""Generated model of the wall-matching algebra of WallGo (C02, C15).

From src/WallGo/hydrodynamics.py (class Hydrodynamics), helpers.py (gammaSq) and
hydrodynamicsTemplateModel.py (class HydrodynamicsTemplateModel) the translator emits, with
pyrx, the closed-form parts that surround the scipy solvers:

  Hydrodynamics            gammaSq, vpvmAndvpovm, _mappingT, _inverseMappingT,
                           matching_given / matching_lte   (closure `matching` of
                               matchDeflagOrHyb, specialised to `vp` given / `vp is None`),
                           deflag_result_given / _lte      (what matchDeflagOrHyb returns as
                               a function of the solver's final point sol.x),
                           tmFromvpsq, deton_result        (matchDeton: residual, result as
                               a function of the bracketed root),
                           findHydroBoundaries             (function of findMatching's result)
  HydrodynamicsTemplateModel  t_init_<attr> (every float attribute computed in __init__ from
                           the equation of state), findJouguetVelocity, getVp, wFromAlpha,
                           _findTm, _eqWall, detonationVAndT, alphaFromVpVm / findMatching_result
                           (tail of findMatching as a function of the shooting root),
                           matchDeflagOrHybInitial (vp given), findHydroBoundaries.

What is NOT translated (and is a hypothesis of the theorems / validated at run time): the
scipy calls.  The rule by which code around a solver call is cut is generic ("solver
slicing"):
  * a local assigned from a call to root / root_scalar / minimize_scalar / solve_ivp is a
    *solver result*; `<res>.x` and `<res>.root` become fresh parameters `<res>_x`,
    `<res>_root` of the generated definition;
  * `if <res>.converged|success: A else: raise`  keeps A (success assumed, recorded);
    `if <cond>: raise ...` is dropped and recorded as a guard; other statements mentioning a
    solver result (self.success = ...) are dropped and recorded;
  * `try: A except: B` keeps A (recorded);
  * `x is None` / `x is not None` tests on an optional parameter are decided by the requested
    specialisation.
Anything else outside pyrx's subset raises TranslateError (fail closed).
"""
from __future__ import annotations

import ast
import copy

import pyrx
from pyrx import Pattern, TranslateError

SOLVERS = {"root", "root_scalar", "minimize_scalar", "solve_ivp", "minimize", "brentq"}
STATUS = {"converged", "success", "flag", "fun", "message", "status", "nfev"}
VALUE = {"x", "root"}


# ------------------------------------------------------------------------------------
# AST preprocessing

def _is_none_return(s):
    return isinstance(s, ast.Return) and isinstance(s.value, ast.Tuple) and s.value.elts \
        and all(isinstance(e, ast.Constant) and e.value is None for e in s.value.elts)


def _is_raise_only(body):
    """the branch only signals failure: raise, or `return (None, ..., None)`"""
    return all(_is_none_return(s) or isinstance(s, ast.Raise) or
               (isinstance(s, ast.Expr) and isinstance(s.value, ast.Call) and
                isinstance(s.value.func, ast.Attribute) and
                isinstance(s.value.func.value, ast.Name) and
                s.value.func.value.id in ("logging", "warnings")) for s in body) and \
        any(isinstance(s, ast.Raise) or _is_none_return(s) for s in body)


def _names(node, ctx=None):
    return {n.id for n in ast.walk(node) if isinstance(n, ast.Name) and
            (ctx is None or isinstance(n.ctx, ctx))}


def _stored(st):
    """names (re)defined by a statement, a[i] = v counts as a definition of a"""
    out = set()
    for n in ast.walk(st):
        if isinstance(n, ast.Name) and isinstance(n.ctx, ast.Store):
            out.add(n.id)
        if isinstance(n, ast.Subscript) and isinstance(n.ctx, ast.Store) and \
                isinstance(n.value, ast.Name):
            out.add(n.value.id)
    return out


class _Spec(ast.NodeTransformer):
    """decide `name is None` tests; fold constant tests; rewrite solver value attributes"""

    def __init__(self, none, solver_results, notes):
        self.none = none            # dict name -> True (is None) / False (is a number)
        self.res = solver_results
        self.notes = notes

    def visit_Compare(self, node):
        self.generic_visit(node)
        if len(node.ops) == 1 and isinstance(node.left, ast.Name) and \
                node.left.id in self.none and \
                isinstance(node.comparators[0], ast.Constant) and \
                node.comparators[0].value is None and \
                isinstance(node.ops[0], (ast.Is, ast.IsNot)):
            v = self.none[node.left.id]
            if isinstance(node.ops[0], ast.IsNot):
                v = not v
            return ast.copy_location(ast.Constant(value=v), node)
        return node

    def visit_BoolOp(self, node):
        self.generic_visit(node)
        vals = []
        for v in node.values:
            if isinstance(v, ast.Constant) and isinstance(v.value, bool):
                if isinstance(node.op, ast.And):
                    if not v.value:
                        return ast.copy_location(ast.Constant(value=False), node)
                    continue
                if v.value:
                    return ast.copy_location(ast.Constant(value=True), node)
                continue
            vals.append(v)
        if not vals:
            return ast.copy_location(ast.Constant(value=isinstance(node.op, ast.And)),
                                     node)
        if len(vals) == 1:
            return vals[0]
        node.values = vals
        return node

    def visit_Attribute(self, node):
        self.generic_visit(node)
        if isinstance(node.value, ast.Name) and node.value.id in self.res and \
                node.attr in VALUE:
            return ast.copy_location(ast.Name(id="%s_%s" % (node.value.id, node.attr),
                                              ctx=ast.Load()), node)
        return node


def solver_results(fn):
    res = set()
    for n in ast.walk(fn):
        if isinstance(n, ast.Assign) and isinstance(n.value, ast.Call):
            f = n.value.func
            nm = f.id if isinstance(f, ast.Name) else (
                f.attr if isinstance(f, ast.Attribute) else None)
            if nm in SOLVERS:
                for t in n.targets:
                    if isinstance(t, ast.Name):
                        res.add(t.id)
    return res


def preprocess(stmts, none, res, notes):
    """statement list -> statement list in pyrx's subset (see module docstring)"""
    out = []
    for st in stmts:
        if isinstance(st, ast.Try):
            notes.append("line %d: try-body kept, handlers dropped (no exception assumed)"
                         % st.lineno)
            out += preprocess(st.body, none, res, notes)
            continue
        if isinstance(st, ast.Assign) and isinstance(st.value, ast.Call):
            f = st.value.func
            nm = f.id if isinstance(f, ast.Name) else (
                f.attr if isinstance(f, ast.Attribute) else None)
            if nm in SOLVERS:
                notes.append("line %d: solver call %s cut" % (st.lineno, nm))
                continue
        if isinstance(st, ast.If):
            st = copy.copy(st)
            st.test = _Spec(none, res, notes).visit(copy.deepcopy(st.test))
            # solver status tests: assume success
            status = [n for n in ast.walk(st.test) if isinstance(n, ast.Attribute) and
                      isinstance(n.value, ast.Name) and n.value.id in res and
                      n.attr in STATUS]
            if status:
                if _is_raise_only(st.body) and not st.orelse:
                    notes.append("line %d: guard on solver status dropped: %s" % (
                        st.lineno, ast.unparse(st.test)))
                    continue
                if st.orelse and _is_raise_only(st.orelse):
                    notes.append("line %d: solver success assumed: %s" % (
                        st.lineno, ast.unparse(st.test)))
                    out += preprocess(st.body, none, res, notes)
                    continue
                raise TranslateError("solver status used in a branch that is not a raise "
                                     "guard (line %d)" % st.lineno)
            if isinstance(st.test, ast.Constant) and isinstance(st.test.value, bool):
                out += preprocess(st.body if st.test.value else st.orelse, none, res,
                                  notes)
                continue
            if _is_raise_only(st.body) and not st.orelse:
                notes.append("line %d: raise guard dropped: not (%s) assumed" % (
                    st.lineno, ast.unparse(st.test)[:80]))
                continue
            st.body = preprocess(st.body, none, res, notes) or [ast.Pass()]
            st.orelse = preprocess(st.orelse, none, res, notes)
            out.append(st)
            continue
        if isinstance(st, ast.FunctionDef):
            st = copy.copy(st)
            st.body = preprocess(st.body, none, res, notes)
            out.append(st)
            continue
        st2 = _Spec(none, res, notes).visit(copy.deepcopy(st))
        if any(isinstance(n, ast.Name) and n.id in res for n in ast.walk(st2)):
            notes.append("line %d: statement on solver status dropped: %s" % (
                st.lineno, ast.unparse(st)[:60].replace("\n", " ")))
            continue
        # [a, b] = e  ->  a, b = e
        out.append(st2)
    return out


def backward_slice(stmts, opaque, allowed_defs=None):
    """statements needed by the final `return`; definitions of `opaque` names are cut.
    `allowed_defs` (list of source texts): when given, a statement that (re)defines an
    opaque name must be one of them -- anything else is outside the subset (fail closed)"""
    if not stmts or not isinstance(stmts[-1], ast.Return):
        raise TranslateError("slice: body does not end in a return")
    need = _names(stmts[-1], ast.Load)
    keep = [stmts[-1]]
    for st in reversed(stmts[:-1]):
        if isinstance(st, ast.Expr) or isinstance(st, ast.FunctionDef):
            continue
        if isinstance(st, ast.If) and any(isinstance(n, ast.Return) for n in ast.walk(st)):
            keep.append(st)           # early return: always relevant
            need |= _names(st, ast.Load)
            continue
        defs = _stored(st)
        if allowed_defs is not None and defs & set(opaque) and \
                ast.unparse(st) not in allowed_defs:
            raise TranslateError("slice: unexpected (re)definition of %s: %s (line %d)" % (
                sorted(defs & set(opaque)), ast.unparse(st)[:70], st.lineno))
        if not (defs & need):
            continue
        if defs & set(opaque):
            if allowed_defs is not None and ast.unparse(st) not in allowed_defs:
                raise TranslateError(
                    "slice: unexpected (re)definition of %s: %s (line %d)" % (
                        sorted(defs & set(opaque)), ast.unparse(st)[:70], st.lineno))
            if defs - set(opaque) and (defs - set(opaque)) & need:
                raise TranslateError("slice: statement defines opaque and needed names "
                                     "(line %d)" % st.lineno)
            continue
        keep.append(st)
        need |= _names(st, ast.Load)
    keep.reverse()
    return keep


def synth(fn, name, params, none=None, opaque=(), notes=None, upto_return=True,
          allowed_defs=None):
    """FunctionDef `name(self, *params)` = preprocessed backward slice of fn's body"""
    notes = notes if notes is not None else []
    res = solver_results(fn)
    body = preprocess(fn.body, none or {}, res, notes)
    body = [s for s in body if not (isinstance(s, ast.Expr) and
                                    isinstance(s.value, ast.Constant))]
    body = backward_slice(body, opaque, allowed_defs)
    new = ast.FunctionDef(
        name=name,
        args=ast.arguments(posonlyargs=[], args=[ast.arg(arg="self")] +
                           [ast.arg(arg=p) for p in params], kwonlyargs=[],
                           kw_defaults=[], defaults=[]),
        body=body, decorator_list=[], lineno=fn.lineno, end_lineno=fn.end_lineno,
        col_offset=0, end_col_offset=0)
    return ast.fix_missing_locations(new)


def specialise(fn, name, none, notes):
    """copy of fn with `x is None` decided and solver plumbing cut, closures kept"""
    res = solver_results(fn)
    new = copy.copy(fn)
    new.name = name
    new.body = preprocess(fn.body, none, res, notes)
    return new


# ------------------------------------------------------------------------------------
# translator with module-level helper functions and tuple-valued opaque locals

class Translator(pyrx.ClassTranslator):
    def __init__(self, *a, helpers_src=None, helper_names=(), tuple_arity=None, **k):
        super().__init__(*a, **k)
        self.helper_defs = {}
        self.tuple_arity = dict(tuple_arity or {})
        if helpers_src is not None:
            t = ast.parse(helpers_src)
            for n in t.body:
                if isinstance(n, ast.FunctionDef) and n.name in helper_names:
                    self.helper_defs[n.name] = n
            for h in helper_names:
                if h not in self.helper_defs:
                    raise TranslateError("helper %s not found" % h)

    def helper(self, name):
        """module-level pure function -> Definition name (args : R) : R"""
        fn = self.helper_defs[name]
        env = pyrx.Env()
        ps = [a.arg for a in fn.args.args]
        for p in ps:
            env.v[p] = p
        body = self.block(fn.body, env, lambda e: pyrx._fail("helper falls off its end"))
        self.spans[name] = (fn.lineno, fn.end_lineno, pyrx._sha(ast.unparse(fn)))
        return "Definition %s %s : R :=\n  %s." % (
            name, " ".join("(%s : R)" % p for p in ps), body)

    def call(self, node, env):
        f = node.func
        if isinstance(f, ast.Name) and f.id in self.helper_defs and not node.keywords:
            return "(%s %s)" % (f.id, " ".join(self.expr(a, env) for a in node.args))
        return super().call(node, env)

    def subscript(self, node, env):
        if isinstance(node.value, ast.Name) and node.value.id in self.tuple_arity and \
                (node.value.id, "tuple") not in env.v and \
                (node.value.id, "arity") not in env.v:
            c = pyrx.const_value(node.slice)
            if c is None or c.denominator != 1:
                raise TranslateError("non-literal subscript (line %d)" % node.lineno)
            ar = self.tuple_arity[node.value.id]
            return pyrx.proj(self.expr(node.value, env), int(c) % ar, ar)
        return super().subscript(node, env)

    def block(self, stmts, env, k):
        # `[a, b] = e` and `a, b = e` are the same thing; `x[i] = v` is outside the subset
        return super().block(stmts, env, k)


def thermo_patterns(names, prefix=""):
    return [Pattern("self.thermodynamics.%s(_0)" % f, prefix + f, "R -> R") for f in names]


THERMO = thermo_patterns(["pHighT", "pLowT", "eHighT", "eLowT", "wHighT", "wLowT",
                          "csqHighT", "csqLowT"])

H_ATTRS = ["Tnucl", "TMaxHydro", "TMinHydro", "vMin", "vJ"]
H_METHODS = ["vpvmAndvpovm", "_mappingT", "_inverseMappingT"]

T_ATTRS = ["cb2", "cs2", "alN", "psiN", "cb", "cs", "wN", "pN", "Tnucl", "nu", "mu",
           "vJ", "vMin", "epsilon"]
T_INIT = ["cb2", "cs2", "alN", "psiN", "cb", "cs", "wN", "pN", "Tnucl", "nu", "mu",
          "epsilon"]
T_METHODS = ["getVp", "wFromAlpha", "_findTm", "_eqWall", "findJouguetVelocity",
             "detonationVAndT"]


def _method(tr, cls_fn, name):
    if name not in cls_fn:
        raise TranslateError("method %s not found" % name)
    return cls_fn[name]


def gen_hydrodynamics(src, helpers_src, notes):
    tr = Translator(src, "Hydrodynamics", H_ATTRS, THERMO, H_METHODS,
                    helpers_src=helpers_src, helper_names=["gammaSq"],
                    tuple_arity={"Tpm0": 2, "mappedTpTm": 2, "TpTm": 2, "sol_x": 2})
    tr.ret_arity = {"vpvmAndvpovm": 2, "_mappingT": 2, "_inverseMappingT": 2}
    fn = tr.fn
    defs = [tr.helper("gammaSq")]
    defs.append(tr.method("vpvmAndvpovm"))
    defs.append(tr.method("_mappingT", types={"TpTm": "R * R"}))
    defs.append(tr.method("_inverseMappingT", types={"mappedTpTm": "R * R"}))
    mdh = _method(tr, fn, "matchDeflagOrHyb")
    # closure `matching`, both modes of the optional vp
    for mode, none in (("given", False), ("lte", True)):
        nm = "matchDeflagOrHyb_" + mode
        fn[nm] = specialise(mdh, nm, {"vp": none}, notes)
        d, _ = tr.closure(nm, "matching", "matching_" + mode, opaque=["Tpm0"],
                          types={"Tpm0": "R * R", "mappedTpTm": "R * R"})
        defs.append(d)
        # what the method returns, as a function of the solver's final point
        fn["deflag_result_" + mode] = synth(
            mdh, "deflag_result_" + mode, ["vw"] + ([] if none else ["vp"]) + ["sol_x"],
            none={"vp": none}, opaque=["sol_x", "Tpm0"], notes=notes)
        defs.append(tr.method("deflag_result_" + mode, types={"sol_x": "R * R"}))
    # detonation
    mdt = _method(tr, fn, "matchDeton")
    fn["matchDeton_s"] = specialise(mdt, "matchDeton_s", {}, notes)
    d, _ = tr.closure("matchDeton_s", "tmFromvpsq", "tmFromvpsq")
    defs.append(d)
    fn["deton_result"] = synth(mdt, "deton_result", ["vw", "rootResult_root"],
                               opaque=["rootResult_root"], notes=notes)
    defs.append(tr.method("deton_result"))
    # boundary constants as a function of findMatching's result
    fhb = _method(tr, fn, "findHydroBoundaries")
    fn["findHydroBoundaries_r"] = synth(
        fhb, "findHydroBoundaries_r", ["vwTry", "vp", "vm", "Tp", "Tm"],
        none={"vp": False}, opaque=["vp", "vm", "Tp", "Tm"], notes=notes,
        allowed_defs=["vp, vm, Tp, Tm = self.findMatching(vwTry)"])
    defs.append(tr.method("findHydroBoundaries_r", coq_name="findHydroBoundaries"))
    return tr, defs


class _ThermoSelf(ast.NodeTransformer):
    """in __init__ the collaborator is the parameter `thermodynamics`"""

    def visit_Name(self, node):
        if node.id == "thermodynamics" and isinstance(node.ctx, ast.Load):
            return ast.copy_location(ast.Attribute(
                value=ast.Name(id="self", ctx=ast.Load()), attr="thermodynamics",
                ctx=ast.Load()), node)
        return node


def init_attr_fn(init, attr, notes):
    """FunctionDef t_init_<attr>(self): the value stored into self.<attr> by __init__, as a
    function of the collaborators and of the attributes stored before it"""
    res = solver_results(init)
    body = preprocess(init.body, {}, res, notes)
    out, found = [], False
    for st in body:
        if isinstance(st, ast.Assign) and len(st.targets) == 1:
            tg = st.targets[0]
            if isinstance(tg, ast.Attribute) and isinstance(tg.value, ast.Name) and \
                    tg.value.id == "self":
                if tg.attr == attr:
                    out.append(ast.copy_location(ast.Return(value=st.value), st))
                    found = True
                    break
                continue
            if isinstance(tg, ast.Tuple) and all(
                    isinstance(e, ast.Attribute) for e in tg.elts):
                hit = [i for i, e in enumerate(tg.elts) if e.attr == attr]
                if hit and isinstance(st.value, ast.Tuple):
                    out.append(ast.copy_location(
                        ast.Return(value=st.value.elts[hit[0]]), st))
                    found = True
                    break
                continue
        out.append(st)
    if not found:
        raise TranslateError("__init__ does not store self.%s" % attr)
    out = [_ThermoSelf().visit(copy.deepcopy(s)) for s in out]
    out = [s for s in out if not (isinstance(s, ast.Expr))]
    out = backward_slice(out, [])
    new = ast.FunctionDef(
        name="init_" + attr,
        args=ast.arguments(posonlyargs=[], args=[ast.arg(arg="self")], kwonlyargs=[],
                           kw_defaults=[], defaults=[]),
        body=out, decorator_list=[], lineno=init.lineno, end_lineno=init.end_lineno,
        col_offset=0, end_col_offset=0)
    return ast.fix_missing_locations(new)


def gen_template(src, helpers_src, notes):
    ext = thermo_patterns(["pHighT", "pLowT", "wHighT", "wLowT", "csqHighT", "csqLowT"],
                          "th_") + [Pattern("self.thermodynamics.Tnucl", "th_Tnucl", "R")]
    tr = Translator(src, "HydrodynamicsTemplateModel", T_ATTRS, ext, T_METHODS,
                    prefix="t_", helpers_src=helpers_src, helper_names=["gammaSq"])
    tr.ret_arity = {"detonationVAndT": 4}
    fn = tr.fn
    defs = []
    init = _method(tr, fn, "__init__")
    for a in T_INIT:
        fn["init_" + a] = init_attr_fn(init, a, notes)
        defs.append(tr.method("init_" + a))
    fj = _method(tr, fn, "findJouguetVelocity")
    fn["findJouguetVelocity_a"] = specialise(fj, "findJouguetVelocity_a", {"alN": False},
                                             notes)
    defs.append(tr.method("findJouguetVelocity_a"))
    fn["findJouguetVelocity_0"] = synth(fj, "findJouguetVelocity_0", [],
                                        none={"alN": True}, notes=notes)
    defs.append(tr.method("findJouguetVelocity_0", coq_name="t_findJouguetVelocity"))
    defs.append(tr.method("getVp"))
    defs.append(tr.method("wFromAlpha"))
    fn["_findTm"] = specialise(_method(tr, fn, "_findTm"), "_findTm", {}, notes)
    defs.append(tr.method("_findTm"))
    defs.append(tr.method("_eqWall"))
    defs.append(tr.method("detonationVAndT"))
    fm = _method(tr, fn, "findMatching")
    fn["findMatching_result"] = synth(fm, "findMatching_result", ["vw", "sol_root"],
                                      opaque=["sol_root", "vpMax", "vpMin"], notes=notes)
    tr.methods.append("findMatching_result")
    defs.append(tr.method("findMatching_result"))
    mi = _method(tr, fn, "matchDeflagOrHybInitial")
    fn["matchDeflagOrHybInitial_given"] = specialise(
        mi, "matchDeflagOrHybInitial_given", {"vp": False}, notes)
    defs.append(tr.method("matchDeflagOrHybInitial_given"))
    fhb = _method(tr, fn, "findHydroBoundaries")
    fn["findHydroBoundaries_r"] = synth(
        fhb, "findHydroBoundaries_r", ["vwTry", "vp", "vm", "Tp", "Tm"],
        none={"vp": False, "vm": False, "Tp": False, "Tm": False},
        opaque=["vp", "vm", "Tp", "Tm"], notes=notes,
        allowed_defs=["vp, vm, Tp, Tm = self.findMatching(vwTry)",
                      "(vp, vm, Tp, Tm) = (float(vp), float(vm), float(Tp), float(Tm))",
                      "vp, vm, Tp, Tm = (float(vp), float(vm), float(Tp), float(Tm))"])
    defs.append(tr.method("findHydroBoundaries_r", coq_name="t_findHydroBoundaries"))
    return tr, defs


class _Notes(list):
    def append(self, x):
        if x not in self:
            super().append(x)


def tolerance_facts(src, cls):
    """every call root_scalar(...) / root(...) inside class `cls`: which expression is handed
    over as xtol and as rtol -> list of (line, kind, xtol_src, rtol_src)"""
    tree = ast.parse(src)
    node = [n for n in tree.body if isinstance(n, ast.ClassDef) and n.name == cls]
    if not node:
        raise TranslateError("class %s not found" % cls)

    def classify(e):
        if e is None:
            return "TNone"
        if isinstance(e, ast.Attribute) and isinstance(e.value, ast.Name) and \
                e.value.id == "self" and e.attr in ("atol", "rtol"):
            return "TAtol" if e.attr == "atol" else "TRtol"
        return "TOther"
    out = []
    for c in ast.walk(node[0]):
        if not isinstance(c, ast.Call):
            continue
        nm = c.func.id if isinstance(c.func, ast.Name) else (
            c.func.attr if isinstance(c.func, ast.Attribute) else None)
        if nm not in ("root_scalar", "root", "brentq"):
            continue
        kw = {k.arg: k.value for k in c.keywords if k.arg}
        plain = all(k.arg for k in c.keywords)            # no **kwargs

        def const(e):
            return e.value if isinstance(e, ast.Constant) else object()
        if nm == "root":
            opt = kw.get("options")
            x = None
            if isinstance(opt, ast.Dict):
                for k, v in zip(opt.keys, opt.values):
                    if isinstance(k, ast.Constant) and k.value == "xtol":
                        x = v
                plain = plain and [const(k) for k in opt.keys] == ["xtol"]
            else:
                plain = False
            plain = plain and set(kw) == {"method", "options"} and \
                const(kw["method"]) == "hybr" and len(c.args) == 2
            out.append((c.lineno, "RootHybr", classify(x), classify(kw.get("tol")), plain))
        else:
            plain = plain and set(kw) <= {"bracket", "method", "xtol", "rtol", "x0", "x1",
                                          "args"} and (
                "method" not in kw or const(kw["method"]) in ("brentq", "secant")) and \
                len(c.args) <= 2
            out.append((c.lineno, "RootScalar", classify(kw.get("xtol")),
                        classify(kw.get("rtol")), plain))
    return sorted(out)


EOM_SHAPES = {
    "(c1, c2, Tplus, Tminus, velocityMid) = self.hydrodynamics.findHydroBoundaries("
    "wallVelocity)": "KAssignBoundaries",
    "c1, c2, Tplus, Tminus, velocityMid = self.hydrodynamics.findHydroBoundaries("
    "wallVelocity)": "KAssignBoundaries",
}
HANDOVER = {"c1", "c2", "Tplus", "Tminus", "velocityMid", "wallVelocity"}

PATH_SHAPES = {
    "vp, vm, Tp, Tm = self.matchDeton(vwTry)": "KAssignDeton",
    "vp, vm, Tp, Tm = self.matchDeflagOrHyb(vwTry, sol.root)": "KAssignDeflag",
    "vp, vm, Tp, Tm = self.findMatching(vwTry)": "KAssignFindMatching",
    "return self.template.findMatching(vwTemplate)": "KRetTemplate",
    "return (vp, vm, Tp, Tm)": "KRetNames",
    "return (0, 0, 0, 0, 0)": "KRetZeros",
    "return (vp, vm, Tp, Tm, None)": "KRetNone",
    "return (c1, c2, Tp, Tm, velocityMid)": "KRetBoundaries",
}


def handover_facts(eom_src):
    """EOM.wallPressure: the constants handed to the wall equations are those returned by
    self.hydrodynamics.findHydroBoundaries(wallVelocity), unmodified: the single definition
    of (c1, c2, Tplus, Tminus, velocityMid), no other store to them or to wallVelocity, and
    the call of _intermediatePressureResults passes these very names"""
    tree = ast.parse(eom_src)
    node = [n for n in tree.body if isinstance(n, ast.ClassDef) and n.name == "EOM"]
    if not node:
        raise TranslateError("class EOM not found")
    fns = {f.name: f for f in node[0].body if isinstance(f, ast.FunctionDef)}
    if "wallPressure" not in fns:
        raise TranslateError("method EOM.wallPressure not found")
    fn = fns["wallPressure"]
    out = []
    for st in ast.walk(fn):
        if isinstance(st, (ast.Assign, ast.AugAssign, ast.AnnAssign, ast.For, ast.With,
                           ast.NamedExpr)) and _stored(st) & HANDOVER:
            if isinstance(st, (ast.For, ast.With)):
                continue              # their inner assignments are visited themselves
            out.append(("MWallPressure", st.lineno,
                        EOM_SHAPES.get(ast.unparse(st), "KOther")))
        if isinstance(st, ast.Call) and isinstance(st.func, ast.Attribute) and \
                st.func.attr == "_intermediatePressureResults":
            names = [a.id if isinstance(a, ast.Name) else None for a in st.args]
            ok = not any(k.arg is None or k.arg in ("c1", "c2", "velocityMid", "Tplus",
                                                     "Tminus") for k in st.keywords) and \
                len(names) >= 9 and names[3:6] == [
                "c1", "c2", "velocityMid"] and names[7:9] == ["Tplus", "Tminus"]
            out.append(("MWallPressure", st.lineno, "KPassBoundaries" if ok else "KOther"))
    return sorted(out, key=lambda f: f[1])


def path_facts(src, cls, methods):
    """every `return`, every (re)definition of vp/vm/Tp/Tm, every store to a PARAMETER and
    every attribute / subscript store in the given methods (nested closures excluded),
    classified by its exact shape; anything else is KOther"""
    tree = ast.parse(src)
    node = [n for n in tree.body if isinstance(n, ast.ClassDef) and n.name == cls]
    if not node:
        raise TranslateError("class %s not found" % cls)
    fns = {f.name: f for f in node[0].body if isinstance(f, ast.FunctionDef)}
    out = []

    def walk(st, m):
        if isinstance(st, (ast.FunctionDef, ast.Lambda, ast.ClassDef)):
            return
        if isinstance(st, ast.Return):
            out.append((m, st.lineno, PATH_SHAPES.get(ast.unparse(st), "KOther")))
        elif isinstance(st, (ast.Assign, ast.AugAssign, ast.AnnAssign)):
            if _stored(st) & ({"vp", "vm", "Tp", "Tm"} | params[m]):
                out.append((m, st.lineno, PATH_SHAPES.get(ast.unparse(st), "KOther")))
            elif any(isinstance(n, (ast.Attribute, ast.Subscript)) and
                     isinstance(n.ctx, ast.Store) for n in ast.walk(st)):
                out.append((m, st.lineno, "KOther"))     # sol.root = ..., self.x = ...
        elif isinstance(st, (ast.For, ast.While, ast.With)) and \
                _stored(st) & {"vp", "vm", "Tp", "Tm"} and not any(
                    isinstance(c, (ast.Assign, ast.AugAssign)) for c in ast.walk(st)):
            out.append((m, st.lineno, "KOther"))
        for c in ast.iter_child_nodes(st):
            if isinstance(c, ast.stmt):
                walk(c, m)
            elif isinstance(c, ast.ExceptHandler):
                for cc in c.body:
                    walk(cc, m)
    params = {}
    for name, tag in methods:
        if name not in fns:
            raise TranslateError("method %s not found" % name)
        params[tag] = {a.arg for a in fns[name].args.args} - {"self"}
        if fns[name].decorator_list:
            out.append((tag, fns[name].lineno, "KOther"))
        for st in fns[name].body:
            walk(st, tag)
        for n in ast.walk(fns[name]):
            if isinstance(n, ast.NamedExpr) and isinstance(n.target, ast.Name) and \
                    n.target.id in ({"vp", "vm", "Tp", "Tm"} | params[tag]):
                out.append((tag, n.lineno, "KOther"))
    return out


def generate(hydro_src, template_src, helpers_src, eom_src=None):
    """-> (coq text, spans, notes)"""
    notes = _Notes()
    trh, dh = gen_hydrodynamics(hydro_src, helpers_src, notes)
    trt, dt = gen_template(template_src, helpers_src, notes)
    facts = [(l, k, x, r, "true" if pl else "false", "hydrodynamics.py")
             for l, k, x, r, pl in tolerance_facts(hydro_src, "Hydrodynamics")] + \
            [(l, k, x, r, "true" if pl else "false", "hydrodynamicsTemplateModel.py")
             for l, k, x, r, pl in tolerance_facts(template_src,
                                                   "HydrodynamicsTemplateModel")]
    if not facts:
        raise TranslateError("no root finder calls found")
    facts_coq = "(* tolerance keywords of every root_scalar / root call, by source line *)\n" \
        "Definition tol_facts : list tolfact :=\n  (" + "\n   :: ".join(
            "mk_tolfact %d %s %s %s %s (* %s *)" % f for f in facts) + "\n   :: nil)%list."
    pfacts = path_facts(hydro_src, "Hydrodynamics", [("findMatching", "MFindMatching"), (
        "findHydroBoundaries", "MFindHydroBoundaries")])
    if eom_src is None:
        import vlib
        eom_src = vlib.read_src("equationOfMotion.py")
    pfacts += handover_facts(eom_src)
    facts_coq += "\n(* return paths / definitions of vp,vm,Tp,Tm in findMatching and " \
        "findHydroBoundaries *)\nDefinition path_facts : list pathfact :=\n  (" + \
        "\n   :: ".join("mk_pathfact %s %d %s" % f for f in pfacts) + "\n   :: nil)%list."
    out = [pyrx.COQ_PRELUDE + "From Coq Require Import List.\n"
           "From WG Require Import Lib.HydroMatch.\n",
           "(* generated from src/WallGo/hydrodynamics.py, helpers.py, "
           "hydrodynamicsTemplateModel.py *)",
           "(* cuts made by the solver-slicing rule:\n" +
           "\n".join("   " + n.replace("*)", "* )") for n in notes) + " *)",
           trh.header()] + dh + \
          ["(* ---- HydrodynamicsTemplateModel ---- *)", trt.header()] + dt + [facts_coq]
    spans = {"hydrodynamics.py": trh.spans, "hydrodynamicsTemplateModel.py": trt.spans}
    return "\n".join(out) + "\n", spans, notes, (trh, trt)


if __name__ == "__main__":
    import sys
    import vlib
    text, spans, notes, _ = generate(vlib.read_src("hydrodynamics.py"),
                                     vlib.read_src("hydrodynamicsTemplateModel.py"),
                                     vlib.read_src("helpers.py"))
    sys.stdout.write(text)
