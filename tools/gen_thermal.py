"""Generators for C20 (thermal integrals, shipped tables, one-loop thermal sum).

Three fail-closed translators, all driven by the CURRENT source text / data files:

  * `integrals(src)`  -- PotentialTools/integrals.py: the six piecewise integrands of JbIntegral
    and JfIntegral (pyrx, subclassed for classmethods and the class constant SMALL_NUMBER) and
    the `wrapper` closures of `_functionImplementation` (which integrand is integrated over
    which interval; scipy's quad is the external collaborator `quad` / `quad_inf`);
  * `thermal_sum(src)` -- PotentialTools/effectivePotentialNoResum.py: `potentialOneLoopThermal`
    for a scalar temperature and list-valued particle content, by a small vector-aware symbolic
    executor (lists of reals, np.sum, np.abs, np.any, enum comparisons, raise -> None), and the
    Enum EImaginaryOption as an Inductive;
  * `table(text, name)` -- a shipped data file: every decimal token as an exact (mantissa,
    exponent) pair of primitive integers, plus a verbatim sample of lines that Coq's own parser
    (Lib/ThermalTables.v) must read to the same rows.
"""
import ast
from fractions import Fraction

import pyrx
from pyrx import TranslateError


# --------------------------------------------------------------------------------------------
# 1. integrals.py

INTEGRANDS = ["_integrandPositiveReal", "_integrandNegativeReal", "_integrandNegativeImaginary"]
SHORT = {"_integrandPositiveReal": "PosReal", "_integrandNegativeReal": "NegReal",
         "_integrandNegativeImaginary": "NegImag"}


class IntegralTranslator(pyrx.ClassTranslator):
    """pyrx for the JbIntegral/JfIntegral classes: classmethods (`cls`), class-level numeric
    constants (`cls.SMALL_NUMBER`), calls `JbIntegral._integrandX(a, b)` to translated
    integrands, `_integrator(lambda y: ..., a, b)` and `complex(re + 1j * im)`."""

    def __init__(self, src, cls, tag):
        super().__init__(src, cls, [], [], [], state=False)
        self.clsname = cls
        self.tag = tag                       # "Jb" / "Jf"
        self.consts = {}
        for st in self.cls.body:
            tgt = val = None
            if isinstance(st, ast.AnnAssign) and isinstance(st.target, ast.Name):
                tgt, val = st.target.id, st.value
            elif isinstance(st, ast.Assign) and len(st.targets) == 1 and \
                    isinstance(st.targets[0], ast.Name):
                tgt, val = st.targets[0].id, st.value
            if tgt and val is not None and pyrx.const_value(val) is not None:
                self.consts[tgt] = pyrx.const_value(val)
        self.known = {}                      # python method name -> coq name

    def params(self, fn, types=None):
        return [p for p in super().params(fn, types) if p[0] != "cls"]

    def expr(self, node, env):
        if isinstance(node, ast.Attribute) and isinstance(node.value, ast.Name) and \
                node.value.id in ("cls", "self", self.clsname) and node.attr in self.consts:
            return pyrx.rlit(self.consts[node.attr])
        if isinstance(node, ast.Constant) and isinstance(node.value, float) and \
                node.value == float("inf"):
            raise TranslateError("infinity in arithmetic (line %d)" % node.lineno)
        return super().expr(node, env)

    def _is_inf(self, node):
        return isinstance(node, ast.Attribute) and isinstance(node.value, ast.Name) and \
            node.value.id in ("np", "numpy", "math") and node.attr == "inf"

    def call(self, node, env):
        f = node.func
        if isinstance(f, ast.Attribute) and isinstance(f.value, ast.Name) and \
                f.value.id in (self.clsname, "cls", "self") and f.attr in self.known and \
                not node.keywords:
            return "(%s e %s)" % (self.known[f.attr],
                                  " ".join(self.expr(a, env) for a in node.args))
        if isinstance(f, ast.Name) and f.id == "_integrator" and not node.keywords and \
                len(node.args) == 3 and isinstance(node.args[0], ast.Lambda):
            lam = node.args[0]
            if len(lam.args.args) != 1 or lam.args.defaults or lam.args.kwonlyargs:
                raise TranslateError("lambda shape (line %d)" % node.lineno)
            v = lam.args.args[0].arg
            env2 = env.copy()
            nm = self.newname(v)
            env2.v[v] = nm
            body = self.expr(lam.body, env2)
            a = self.expr(node.args[1], env)
            if self._is_inf(node.args[2]):
                return "(quad_inf e (fun %s : R => %s) %s)" % (nm, body, a)
            return "(quad e (fun %s : R => %s) %s %s)" % (nm, body, a,
                                                         self.expr(node.args[2], env))
        if isinstance(f, ast.Name) and f.id == "complex" and len(node.args) == 1 and \
                not node.keywords:
            a = node.args[0]
            if isinstance(a, ast.BinOp) and isinstance(a.op, ast.Add) and \
                    isinstance(a.right, ast.BinOp) and isinstance(a.right.op, ast.Mult) and \
                    isinstance(a.right.left, ast.Constant) and a.right.left.value == 1j:
                return "(%s, %s)" % (self.expr(a.left, env), self.expr(a.right.right, env))
            raise TranslateError("complex(...) shape (line %d)" % node.lineno)
        return super().call(node, env)


def _no_decorators(fn, what):
    if fn.decorator_list:
        raise TranslateError("%s is decorated (%s)" % (
            what, ", ".join(ast.unparse(d) for d in fn.decorator_list)))
    a = fn.args
    if a.defaults or a.kw_defaults or a.vararg or a.kwarg or a.kwonlyargs:
        if what.endswith("wrapper") or what.endswith("_integrator"):
            raise TranslateError("%s has default / variadic parameters" % what)


def _is_doc(st):
    return isinstance(st, ast.Expr) and isinstance(st.value, ast.Constant) and \
        isinstance(st.value.value, str)


def check_integrals_module(tree):
    """integrals.py may contain nothing but: docstring, imports, `_integrator`, and the classes
    JbIntegral, JfIntegral, Integrals -- in particular no module-level statement that rebinds one
    of these names or patches a class after its definition.  The two integral classes may contain
    nothing but: docstring, SMALL_NUMBER, __init__, the three integrands, _functionImplementation
    (any further member, e.g. an `evaluate` / `__call__` override, changes what Jb(x) returns
    without touching the translated bodies)."""
    allowed_defs = {"_integrator": ast.FunctionDef, "JbIntegral": ast.ClassDef,
                    "JfIntegral": ast.ClassDef, "Integrals": ast.ClassDef}
    seen = set()
    for st in tree.body:
        if _is_doc(st) or isinstance(st, (ast.Import, ast.ImportFrom)):
            continue
        nm = getattr(st, "name", None)
        if nm in allowed_defs and isinstance(st, allowed_defs[nm]) and nm not in seen:
            seen.add(nm)
            continue
        raise TranslateError("integrals.py: unexpected module-level statement `%s` (line %d)" % (
            ast.unparse(st).splitlines()[0][:60], st.lineno))
    if seen != set(allowed_defs):
        raise TranslateError("integrals.py: missing %s" % sorted(set(allowed_defs) - seen))
    members = ["SMALL_NUMBER", "__init__"] + INTEGRANDS + ["_functionImplementation"]
    for node in tree.body:
        if not (isinstance(node, ast.ClassDef) and node.name in ("JbIntegral", "JfIntegral")):
            continue
        pyrx.check_plain_class(node)
        got = []
        for st in node.body:
            if _is_doc(st):
                continue
            if isinstance(st, ast.FunctionDef):
                got.append(st.name)
            elif isinstance(st, ast.AnnAssign) and isinstance(st.target, ast.Name):
                got.append(st.target.id)
            elif isinstance(st, ast.Assign) and len(st.targets) == 1 and \
                    isinstance(st.targets[0], ast.Name):
                got.append(st.targets[0].id)
            else:
                raise TranslateError("%s: unexpected class-level statement (line %d)" % (
                    node.name, st.lineno))
        if sorted(got) != sorted(members):
            raise TranslateError("%s: members %s, expected exactly %s" % (
                node.name, sorted(got), sorted(members)))
        for st in node.body:
            if isinstance(st, ast.FunctionDef) and st.name == "_functionImplementation":
                _no_decorators(st, node.name + "._functionImplementation")
                for sub in st.body:
                    if isinstance(sub, ast.FunctionDef):
                        _no_decorators(sub, node.name + ".wrapper")
    # Integrals: two attributes, built with adaptive interpolation switched off
    for node in tree.body:
        if isinstance(node, ast.ClassDef) and node.name == "Integrals":
            pyrx.check_plain_class(node)
            if node.bases or node.keywords:
                raise TranslateError("Integrals has base classes")
            fns = [st for st in node.body if isinstance(st, ast.FunctionDef)]
            other = [st for st in node.body if not (
                _is_doc(st) or isinstance(st, ast.FunctionDef) or
                (isinstance(st, ast.AnnAssign) and st.value is None))]
            if other or [f.name for f in fns] != ["__init__"]:
                raise TranslateError("Integrals: members changed")
            init = fns[0]
            _no_decorators(init, "Integrals.__init__")
            if [a.arg for a in init.args.args] != ["self"]:
                raise TranslateError("Integrals.__init__ takes parameters")
            body = [ast.unparse(st) for st in init.body if not _is_doc(st)]
            if body != ["self.Jb = JbIntegral(bUseAdaptiveInterpolation=False)",
                        "self.Jf = JfIntegral(bUseAdaptiveInterpolation=False)"]:
                raise TranslateError("Integrals.__init__ body changed: %s" % body)


def check_spline_fact(src_base):
    """InterpolatableFunction._interpolate builds the spline with scipy's default end condition
    (not-a-knot), independent of the object's settings; setExtrapolationType rebuilds through
    newInterpolationTableFromValues.  (The class itself belongs to C18; these two facts are what
    makes the shipped copy of the tables equal to the global tables inside the range.)"""
    cls = None
    for n in ast.parse(src_base).body:
        if isinstance(n, ast.ClassDef) and n.name == "InterpolatableFunction":
            cls = n
    if cls is None:
        raise TranslateError("InterpolatableFunction not found")
    fns = {f.name: f for f in cls.body if isinstance(f, ast.FunctionDef)}
    it = fns.get("_interpolate")
    if it is None:
        raise TranslateError("InterpolatableFunction._interpolate not found")
    calls = [c for c in ast.walk(it) if isinstance(c, ast.Call) and
             ast.unparse(c.func) == "CubicSpline"]
    if len(calls) != 1 or ast.unparse(calls[0]) != \
            "CubicSpline(xFiltered, fxFiltered, extrapolate=bShouldExtrapolate, axis=0)":
        raise TranslateError("_interpolate: CubicSpline call changed: %s" % [
            ast.unparse(c) for c in calls])
    st = fns.get("setExtrapolationType")
    if st is None or "self.newInterpolationTableFromValues(self._interpolationPoints, " \
                     "self._interpolationValues)" not in ast.unparse(st):
        raise TranslateError("setExtrapolationType no longer rebuilds the table from its nodes")
    return "Definition SplineEndCondition_not_a_knot : bool := true."


def check_integrator(tree):
    """`_integrator(func, a, b)` must be `float(scipy.integrate.quad(func, a, b, limit=N)[0])`;
    returns N (recorded)."""
    fn = None
    for st in tree.body:
        if isinstance(st, ast.FunctionDef) and st.name == "_integrator":
            fn = st
    if fn is None:
        raise TranslateError("_integrator not found")
    _no_decorators(fn, "_integrator")
    if [a.arg for a in fn.args.args] != ["func", "a", "b"]:
        raise TranslateError("_integrator signature changed")
    body = [s for s in fn.body if not (isinstance(s, ast.Expr) and
                                       isinstance(s.value, ast.Constant))]
    if len(body) != 2 or not isinstance(body[0], ast.Assign) or \
            not isinstance(body[1], ast.Return):
        raise TranslateError("_integrator body changed")
    call = body[0].value
    if not (isinstance(call, ast.Call) and ast.unparse(call.func) == "scipy.integrate.quad"
            and [ast.unparse(a) for a in call.args] == ["func", "a", "b"]):
        raise TranslateError("_integrator no longer calls scipy.integrate.quad(func, a, b)")
    kws = {k.arg: ast.unparse(k.value) for k in call.keywords}
    # pinned: scipy's default tolerances (epsabs = epsrel = 1.49e-8) and at least 100 subdivisions;
    # the known finding quad-unresolved-kink was recorded for exactly this rule
    if set(kws) != {"limit"}:
        raise TranslateError("_integrator: quad options %s (expected only limit=...)" %
                             sorted(kws))
    lim = pyrx.const_value(call.keywords[0].value)
    if lim is None or lim.denominator != 1 or lim < 100:
        raise TranslateError("_integrator: limit=%s (expected an integer literal >= 100)" %
                             kws["limit"])
    res = ast.unparse(body[0].targets[0])
    if ast.unparse(body[1].value) != "float(%s[0])" % res:
        raise TranslateError("_integrator no longer returns float(res[0])")
    return kws


class _IndexToScalar(ast.NodeTransformer):
    """x[i] -> x"""

    def __init__(self, arr, idx):
        self.arr, self.idx = arr, idx

    def visit_Subscript(self, node):
        if isinstance(node.value, ast.Name) and node.value.id == self.arr and \
                isinstance(node.slice, ast.Name) and node.slice.id == self.idx:
            return ast.Name(id=self.arr, ctx=ast.Load())
        return self.generic_visit(node)


def dispatcher(tr, cls, tag):
    """The part of `_functionImplementation` around the nested `wrapper` (scalar / array
    dispatch).  Fail closed unless it is

        def wrapper(xWrapper): ...
        if np.isscalar(x):
            res = wrapper(ARG(x));  return np.asarray([res.real, res.imag])      (or [[..]])
        results = np.empty(np.asarray(x).shape + (2,), dtype=float)
        for i in np.ndindex(np.asarray(x).shape):
            res = wrapper(ARG(x[i]));  results[i] = np.asarray([res.real, res.imag])
        return results

    with the SAME argument expression ARG in both branches; ARG is translated (so anything but
    float(x) has to be in the pyrx subset and shows up in the model `<Tag>Eval`)."""
    fn = tr.fn.get("_functionImplementation")
    what = "%s._functionImplementation" % cls
    if fn is None or [a.arg for a in fn.args.args] != ["self", "x"]:
        raise TranslateError("%s: signature" % what)
    body = [st for st in fn.body if not (isinstance(st, ast.Expr) and
                                         isinstance(st.value, ast.Constant))]
    if len(body) != 5 or not isinstance(body[0], ast.FunctionDef) or \
            body[0].name != "wrapper" or not isinstance(body[1], ast.If) or \
            not isinstance(body[2], ast.Assign) or not isinstance(body[3], ast.For) or \
            not isinstance(body[4], ast.Return):
        raise TranslateError("%s: statements around `wrapper` changed" % what)
    iff, alloc, loop, ret = body[1:]

    def wrapper_arg(st, res_name):
        if not (isinstance(st, ast.Assign) and len(st.targets) == 1 and
                isinstance(st.targets[0], ast.Name) and st.targets[0].id == res_name and
                isinstance(st.value, ast.Call) and isinstance(st.value.func, ast.Name) and
                st.value.func.id == "wrapper" and len(st.value.args) == 1 and
                not st.value.keywords):
            raise TranslateError("%s: `res = wrapper(...)` expected (line %d)" % (what,
                                                                                   st.lineno))
        return st.value.args[0]
    pair = "np.asarray([res.real, res.imag])"
    if ast.unparse(iff.test) != "np.isscalar(x)" or iff.orelse or len(iff.body) != 2 or \
            not isinstance(iff.body[1], ast.Return) or \
            ast.unparse(iff.body[1].value) not in (pair, "np.asarray([[res.real, res.imag]])"):
        raise TranslateError("%s: scalar branch changed" % what)
    arg_s = wrapper_arg(iff.body[0], "res")
    if ast.unparse(alloc) != "results = np.empty(np.asarray(x).shape + (2,), dtype=float)":
        raise TranslateError("%s: allocation of the result changed" % what)
    if not (isinstance(loop.target, ast.Name) and not loop.orelse and
            ast.unparse(loop.iter) == "np.ndindex(np.asarray(x).shape)" and
            len(loop.body) == 2 and
            ast.unparse(loop.body[1]) == "results[%s] = %s" % (loop.target.id, pair)):
        raise TranslateError("%s: array loop changed" % what)
    arg_a = wrapper_arg(loop.body[0], "res")
    arg_a2 = _IndexToScalar("x", loop.target.id).visit(
        ast.parse(ast.unparse(arg_a), mode="eval").body)
    if ast.dump(arg_a2) != ast.dump(ast.parse(ast.unparse(arg_s), mode="eval").body):
        raise TranslateError("%s: scalar and array branches pass different arguments to "
                             "wrapper: %s / %s" % (what, ast.unparse(arg_s),
                                                   ast.unparse(arg_a)))
    if ast.unparse(ret.value) != "results":
        raise TranslateError("%s: return value changed" % what)
    env = pyrx.Env()
    env.v["x"] = "x"
    arg = tr.expr(arg_s, env)
    tr.spans[tag + "Eval"] = (fn.lineno, fn.end_lineno, pyrx._sha(ast.unparse(fn)))
    return ("(* scalar branch of _functionImplementation; the array branch applies the same to "
            "every element *)\n"
            "Definition %sEval (e : env) (x : R) : R * R :=\n"
            "  let res := %sWrapper e %s in (fst res, snd res)." % (tag, tag, arg))


def integrals(src):
    tree = ast.parse(src)
    check_integrals_module(tree)
    quad_opts = check_integrator(tree)
    out = [pyrx.COQ_PRELUDE,
           "(* generated from src/WallGo/PotentialTools/integrals.py; quad options: %s *)" %
           quad_opts,
           "(* external collaborator: scipy.integrate.quad on a finite interval and on "
           "[a, inf) *)",
           "Record env := mk_env { quad : (R -> R) -> R -> R -> R;\n"
           "  quad_inf : (R -> R) -> R -> R }."]
    spans = {}
    trs = []
    for cls, tag in (("JbIntegral", "Jb"), ("JfIntegral", "Jf")):
        tr = IntegralTranslator(src, cls, tag)
        if "SMALL_NUMBER" not in tr.consts:
            raise TranslateError("%s.SMALL_NUMBER is not a numeric class constant" % cls)
        out.append("Definition %s_SMALL_NUMBER : R := %s." % (tag, pyrx.rlit(
            tr.consts["SMALL_NUMBER"])))
        for m in INTEGRANDS:
            fn = tr.fn.get(m)
            if fn is None:
                raise TranslateError("%s.%s not found" % (cls, m))
            if [a.arg for a in fn.args.args] != ["cls", "x", "y"]:
                raise TranslateError("%s.%s: parameters are not (cls, x, y)" % (cls, m))
            name = tag + SHORT[m]
            out.append(tr.method(m, coq_name=name))
            tr.known[m] = name
        text, used = tr.closure("_functionImplementation", "wrapper", tag + "Wrapper")
        if used != ["xWrapper"]:
            raise TranslateError("%s wrapper depends on %s" % (cls, used))
        out.append(text)
        out.append(dispatcher(tr, cls, tag))
        spans.update(tr.spans)
        trs.append(tr)
    return "\n".join(out) + "\n", spans, trs


def _ctor_signature(cls_node, what):
    fn = None
    for st in cls_node.body:
        if isinstance(st, ast.FunctionDef) and st.name == "__init__":
            fn = st
    if fn is None:
        raise TranslateError("%s.__init__ not found" % what)
    a = fn.args
    if a.vararg or a.kwarg or a.kwonlyargs or a.posonlyargs:
        raise TranslateError("%s.__init__: unsupported parameter kinds" % what)
    names = [x.arg for x in a.args]
    if not names or names[0] != "self":
        raise TranslateError("%s.__init__: no self" % what)
    return fn, names[1:]


def constructors(src_integrals, src_base, src_pot=None):
    """AST fact: how JbIntegral/JfIntegral.__init__ pass their parameters on to
    InterpolatableFunction.__init__.  For every parameter j of the base constructor the Coq list
    `<Tag>Forward` holds Some i when the argument is exactly the i-th parameter of the subclass
    constructor (by position or by keyword), None when it is omitted or anything else."""
    base = None
    for n in ast.parse(src_base).body:
        if isinstance(n, ast.ClassDef) and n.name == "InterpolatableFunction":
            base = n
    if base is None:
        raise TranslateError("InterpolatableFunction not found")
    _, bparams = _ctor_signature(base, "InterpolatableFunction")

    def sl(l):
        return "[%s]" % "; ".join('"%s"' % x for x in l)
    out = ["From Coq Require Import List String.", "Import ListNotations.",
           "Local Open Scope string_scope.",
           "(* generated from interpolatableFunction.py and PotentialTools/integrals.py *)",
           "Definition BaseCtorParams : list string := %s." % sl(bparams)]
    tree = ast.parse(src_integrals)
    for cls, tag in (("JbIntegral", "Jb"), ("JfIntegral", "Jf")):
        node = None
        for n in tree.body:
            if isinstance(n, ast.ClassDef) and n.name == cls:
                node = n
        if node is None:
            raise TranslateError("class %s not found" % cls)
        if [ast.unparse(b) for b in node.bases] != ["InterpolatableFunction"]:
            raise TranslateError("%s no longer derives from InterpolatableFunction" % cls)
        fn, cparams = _ctor_signature(node, cls)
        if fn.decorator_list:
            raise TranslateError("%s.__init__ is decorated" % cls)
        body = [st for st in fn.body if not (isinstance(st, ast.Expr) and
                                             isinstance(st.value, ast.Constant))]
        if len(body) != 1 or not (isinstance(body[0], ast.Expr) and
                                  isinstance(body[0].value, ast.Call) and
                                  ast.unparse(body[0].value.func) == "super().__init__"):
            raise TranslateError("%s.__init__ is not a single super().__init__(...) call" % cls)
        call = body[0].value
        given = {}
        for j, a in enumerate(call.args):
            if isinstance(a, ast.Starred) or j >= len(bparams):
                raise TranslateError("%s.__init__: positional arguments" % cls)
            given[bparams[j]] = a
        for kw in call.keywords:
            if kw.arg is None or kw.arg not in bparams or kw.arg in given:
                raise TranslateError("%s.__init__: keyword %r" % (cls, kw.arg))
            given[kw.arg] = kw.value
        fw = []
        for bp in bparams:
            a = given.get(bp)
            if isinstance(a, ast.Name) and a.id in cparams:
                fw.append("Some %d" % cparams.index(a.id))
            else:
                fw.append("None")
        out.append("Definition %sCtorParams : list string := %s." % (tag, sl(cparams)))
        out.append("Definition %sForward : list (option nat) := [%s]%%list." % (
            tag, "; ".join(fw)))
    if src_pot is not None:
        out += potential_init(src_pot, src_base)
        out.append(check_spline_fact(src_base))
    return "\n".join(out) + "\n"


def potential_init(src_pot, src_base):
    """AST facts about EffectivePotentialNoResum.__init__ (fail closed on any other shape):
        self.imaginaryOption = imaginaryOption
        if integrals: self.integrals = integrals
        else:
            self.integrals = Integrals()
            if useDefaultInterpolation:
                from WallGo import PotentialTools
                self.integrals = PotentialTools.defaultIntegrals | copy.deepcopy(<the same>)
                self.integrals.Jb.disableAdaptiveInterpolation(); ...Jf...
                self.integrals.Jb.setExtrapolationType(extrapolationTypeLower=E, ...Upper=E)
                self.integrals.Jf.setExtrapolationType(...)
    Emitted: the enum EExtrapolationType, the four extrapolation types chosen for the shipped
    tables, and whether the module-level defaultIntegrals object itself is re-configured."""
    enum = None
    for n in ast.parse(src_base).body:
        if isinstance(n, ast.ClassDef) and n.name == "EExtrapolationType":
            enum = n
    if enum is None or [ast.unparse(b) for b in enum.bases] != ["Enum"]:
        raise TranslateError("EExtrapolationType (Enum) not found")
    members = []
    for st in enum.body:
        if isinstance(st, ast.Assign) and len(st.targets) == 1 and \
                isinstance(st.targets[0], ast.Name):
            members.append(st.targets[0].id)
        elif not (isinstance(st, ast.Expr) and isinstance(st.value, ast.Constant)):
            raise TranslateError("EExtrapolationType body (line %d)" % st.lineno)
    cls = None
    for n in ast.parse(src_pot).body:
        if isinstance(n, ast.ClassDef) and n.name == "EffectivePotentialNoResum":
            cls = n
    if cls is None:
        raise TranslateError("EffectivePotentialNoResum not found")
    fn, params = _ctor_signature(cls, "EffectivePotentialNoResum")
    if fn.decorator_list:
        raise TranslateError("EffectivePotentialNoResum.__init__ is decorated")
    if params != ["integrals", "useDefaultInterpolation", "imaginaryOption"]:
        raise TranslateError("EffectivePotentialNoResum.__init__ parameters: %s" % params)
    defaults = [ast.unparse(d) for d in fn.args.defaults]
    if defaults != ["None", "False", "EImaginaryOption.ERROR"]:
        raise TranslateError("EffectivePotentialNoResum.__init__ defaults: %s" % defaults)

    def strip(body):
        return [st for st in body if not (isinstance(st, ast.Expr) and
                                          isinstance(st.value, ast.Constant))]
    body = strip(fn.body)
    what = "EffectivePotentialNoResum.__init__"
    if len(body) != 2 or ast.unparse(body[0]) != "self.imaginaryOption = imaginaryOption" or \
            not isinstance(body[1], ast.If) or ast.unparse(body[1].test) != "integrals":
        raise TranslateError("%s: top-level statements changed" % what)
    top = body[1]
    if [ast.unparse(x) for x in strip(top.body)] != ["self.integrals = integrals"]:
        raise TranslateError("%s: `if integrals` branch changed" % what)
    els = strip(top.orelse)
    if len(els) != 2 or ast.unparse(els[0]) != "self.integrals = Integrals()" or \
            not isinstance(els[1], ast.If) or \
            ast.unparse(els[1].test) != "useDefaultInterpolation" or els[1].orelse:
        raise TranslateError("%s: default-integrals branch changed" % what)
    d = strip(els[1].body)
    if len(d) != 6 or not isinstance(d[0], ast.ImportFrom) or \
            ast.unparse(d[0]) != "from WallGo import PotentialTools":
        raise TranslateError("%s: useDefaultInterpolation branch changed" % what)
    src_obj = ast.unparse(d[1])
    if src_obj == "self.integrals = PotentialTools.defaultIntegrals":
        alias = "true"
    elif src_obj == "self.integrals = copy.deepcopy(PotentialTools.defaultIntegrals)":
        alias = "false"
    else:
        raise TranslateError("%s: %s" % (what, src_obj))
    if [ast.unparse(x) for x in d[2:4]] != [
            "self.integrals.Jb.disableAdaptiveInterpolation()",
            "self.integrals.Jf.disableAdaptiveInterpolation()"]:
        raise TranslateError("%s: adaptive interpolation is not switched off for both "
                             "tables" % what)
    out = ["(* generated from interpolatableFunction.py (enum) and "
           "effectivePotentialNoResum.py (__init__, useDefaultInterpolation=True branch) *)",
           "Inductive EExtrapolationType := %s." % " | ".join("X" + m for m in members),
           "Definition DefaultInterpAliasesGlobal : bool := %s." % alias]
    for st, tag in zip(d[4:6], ("Jb", "Jf")):
        c = st.value if isinstance(st, ast.Expr) else None
        if not (isinstance(c, ast.Call) and
                ast.unparse(c.func) == "self.integrals.%s.setExtrapolationType" % tag and
                not c.args and sorted(k.arg for k in c.keywords) == [
                    "extrapolationTypeLower", "extrapolationTypeUpper"]):
            raise TranslateError("%s: setExtrapolationType call for %s changed" % (what, tag))
        for k in c.keywords:
            v = k.value
            if not (isinstance(v, ast.Attribute) and isinstance(v.value, ast.Name) and
                    v.value.id == "EExtrapolationType" and v.attr in members):
                raise TranslateError("%s: extrapolation type %s" % (what, ast.unparse(v)))
            out.append("Definition DefaultInterp_%s_%s : EExtrapolationType := X%s." % (
                tag, "lower" if k.arg.endswith("Lower") else "upper", v.attr))
    return out


# --------------------------------------------------------------------------------------------
# 2. effectivePotentialNoResum.py: potentialOneLoopThermal

class Val:
    """symbolic value: kind in R (real), V (list R over the particle index), VP (list (R*R)), B
    (bool), T (python tuple of Vals), E (enum member), N (None/ignored); for an ARRAY of
    temperatures additionally VT (list R over the temperatures), C (the same as a column, shape
    (nT, 1)), M / MP (list of rows, one per temperature, of R / R*R over the particle index)"""

    def __init__(self, kind, term, items=None):
        self.kind, self.term, self.items = kind, term, items


class ThermalSum:
    def __init__(self, src):
        self.tree = ast.parse(src)
        self.cls = self.enum = None
        for n in self.tree.body:
            if isinstance(n, ast.ClassDef) and n.name == "EffectivePotentialNoResum":
                self.cls = n
            if isinstance(n, ast.ClassDef) and n.name == "EImaginaryOption":
                self.enum = n
        if self.cls is None or self.enum is None:
            raise TranslateError("EffectivePotentialNoResum / EImaginaryOption not found")
        for st in self.tree.body:
            if _is_doc(st) or isinstance(st, (ast.Import, ast.ImportFrom)) or \
                    (isinstance(st, ast.ClassDef) and
                     st.name in ("EImaginaryOption", "EffectivePotentialNoResum")):
                continue
            raise TranslateError("effectivePotentialNoResum.py: unexpected module-level "
                                 "statement `%s` (line %d)" % (
                                     ast.unparse(st).splitlines()[0][:60], st.lineno))
        if [ast.unparse(b) for b in self.enum.bases] != ["Enum"]:
            raise TranslateError("EImaginaryOption is not an Enum")
        self.members = []
        for st in self.enum.body:
            if isinstance(st, ast.Assign) and len(st.targets) == 1 and \
                    isinstance(st.targets[0], ast.Name):
                self.members.append(st.targets[0].id)
            elif isinstance(st, ast.Expr) and isinstance(st.value, ast.Constant):
                continue
            else:
                raise TranslateError("EImaginaryOption body (line %d)" % st.lineno)
        self.consts = {}
        for st in self.cls.body:
            if isinstance(st, ast.AnnAssign) and isinstance(st.target, ast.Name) and \
                    st.value is not None and pyrx.const_value(st.value) is not None:
                self.consts[st.target.id] = pyrx.const_value(st.value)
        self.fn = {f.name: f for f in self.cls.body if isinstance(f, ast.FunctionDef)}
        self.fresh = 0
        self.used_consts = set()

    def new(self, base):
        self.fresh += 1
        return "%s_%d" % (base, self.fresh)

    # -- expressions
    def ex(self, node, env):
        c = pyrx.const_value(node)
        if c is not None:
            return Val("R", pyrx.rlit(c))
        if isinstance(node, ast.Name):
            if node.id in env:
                return env[node.id]
            raise TranslateError("unbound name %s (line %d)" % (node.id, node.lineno))
        if isinstance(node, ast.Attribute):
            s = ast.unparse(node)
            if s in ("np.pi", "numpy.pi", "math.pi"):
                return Val("R", "PI")
            if isinstance(node.value, ast.Name) and node.value.id == "self":
                if node.attr in self.consts:
                    self.used_consts.add(node.attr)
                    return Val("R", node.attr)
                if node.attr == "imaginaryOption":
                    return Val("E", "opt")
            if isinstance(node.value, ast.Name) and node.value.id == "EImaginaryOption" and \
                    node.attr in self.members:
                return Val("E", node.attr)
            raise TranslateError("attribute %s (line %d)" % (s, node.lineno))
        if isinstance(node, ast.UnaryOp) and isinstance(node.op, ast.USub):
            a = self.ex(node.operand, env)
            if a.kind == "R":
                return Val("R", "(- %s)" % a.term)
            raise TranslateError("negation of %s (line %d)" % (a.kind, node.lineno))
        if isinstance(node, ast.BinOp):
            return self.binop(node, env)
        if isinstance(node, ast.Subscript):
            v = self.ex(node.value, env)
            sl = node.slice
            if v.kind == "VP" and isinstance(sl, ast.Tuple) and len(sl.elts) == 2 and \
                    isinstance(sl.elts[0], ast.Constant) and sl.elts[0].value is Ellipsis and \
                    pyrx.const_value(sl.elts[1]) in (0, 1):
                return Val("V", "(map %s %s)" % ("fst" if pyrx.const_value(sl.elts[1]) == 0
                                                  else "snd", v.term))
            if v.kind == "MP" and isinstance(sl, ast.Tuple) and len(sl.elts) == 2 and \
                    isinstance(sl.elts[0], ast.Constant) and sl.elts[0].value is Ellipsis and \
                    pyrx.const_value(sl.elts[1]) in (0, 1):
                return Val("M", "(map (map %s) %s)" % (
                    "fst" if pyrx.const_value(sl.elts[1]) == 0 else "snd", v.term))
            if v.kind == "VT" and ast.unparse(sl) in ("(slice(None, None, None), np.newaxis)",
                                                      "(:, np.newaxis)", ":, np.newaxis"):
                return Val("C", v.term)
            raise TranslateError("subscript %s (line %d)" % (ast.unparse(node), node.lineno))
        if isinstance(node, ast.Call):
            return self.call(node, env)
        if isinstance(node, ast.Compare) or isinstance(node, ast.BoolOp):
            return self.test(node, env)
        raise TranslateError("expression %s (line %d)" % (type(node).__name__,
                                                          getattr(node, "lineno", 0)))

    def binop(self, node, env):
        if isinstance(node.op, ast.Pow):
            a = self.ex(node.left, env)
            n = pyrx.const_value(node.right)
            if a.kind == "R" and n is not None and n.denominator == 1 and n >= 0:
                return Val("R", "(%s ^ %d)" % (a.term, int(n)))
            if a.kind == "VT" and n is not None and n.denominator == 1 and n >= 0:
                x = self.new("t")
                return Val("VT", "(map (fun %s : R => %s ^ %d) %s)" % (x, x, int(n), a.term))
            raise TranslateError("power (line %d)" % node.lineno)
        a, b = self.ex(node.left, env), self.ex(node.right, env)
        op = {ast.Add: "+", ast.Sub: "-", ast.Mult: "*", ast.Div: "/"}.get(type(node.op))
        if op is None:
            raise TranslateError("operator (line %d)" % node.lineno)
        if a.kind == "R" and b.kind == "R":
            return Val("R", "(%s %s %s)" % (a.term, op, b.term))
        if a.kind == "V" and b.kind == "R":
            x = self.new("m")
            return Val("V", "(map (fun %s : R => %s %s %s) %s)" % (x, x, op, b.term, a.term))
        if a.kind == "R" and b.kind == "V":
            x = self.new("m")
            return Val("V", "(map (fun %s : R => %s %s %s) %s)" % (x, a.term, op, x, b.term))
        if a.kind == "V" and b.kind == "V":
            # numpy elementwise on equal shapes (broadcasting of unequal shapes is not modelled:
            # zipR truncates, theorems assume equal lengths)
            return Val("V", "(zipR (fun a_ b_ : R => a_ %s b_) %s %s)" % (op, a.term, b.term))
        # array of temperatures
        if a.kind == "VT" and b.kind == "R":
            x = self.new("t")
            return Val("VT", "(map (fun %s : R => %s %s %s) %s)" % (x, x, op, b.term, a.term))
        if a.kind == "VT" and b.kind == "VT":
            return Val("VT", "(zipR (fun a_ b_ : R => a_ %s b_) %s %s)" % (op, a.term, b.term))
        if a.kind == "V" and b.kind == "C":
            # (k,) op (nT, 1) -> (nT, k)
            x, t = self.new("m"), self.new("t")
            return Val("M", "(map (fun %s : R => map (fun %s : R => %s %s %s) %s) %s)" % (
                t, x, x, op, t, a.term, b.term))
        if a.kind == "V" and b.kind == "M":
            # (k,) op (nT, k): broadcast along the temperatures
            return Val("M", "(map (zipR (fun a_ b_ : R => a_ %s b_) %s) %s)" % (
                op, a.term, b.term))
        raise TranslateError("operands %s %s %s (line %d)" % (a.kind, op, b.kind, node.lineno))

    def call(self, node, env):
        f = ast.unparse(node.func)
        kw = {k.arg: ast.unparse(k.value) for k in node.keywords}
        args = node.args
        if f in ("np.asanyarray", "np.asarray", "np.real", "float") and len(args) == 1 \
                and (not kw or (f in ("np.asanyarray", "np.asarray") and
                                kw == {"dtype": "float"})):
            # a conversion to float is the identity of the real-number model
            return self.ex(args[0], env)
        if f in ("np.abs", "abs") and len(args) == 1 and not kw:
            a = self.ex(args[0], env)
            if a.kind == "R":
                return Val("R", "(Rabs %s)" % a.term)
            if a.kind in ("V", "VT"):
                return Val(a.kind, "(map Rabs %s)" % a.term)
            raise TranslateError("abs of %s (line %d)" % (a.kind, node.lineno))
        if f == "np.sum" and len(args) == 1 and kw == {"axis": "-1"}:
            # axis=-1 is REQUIRED: for an array of temperatures the operand is (nT, k) and a
            # sum without axis would mix the temperatures
            a = self.ex(args[0], env)
            if a.kind == "V":
                return Val("R", "(sumR %s)" % a.term)
            if a.kind == "M":
                return Val("VT", "(map sumR %s)" % a.term)
            raise TranslateError("np.sum of %s (line %d)" % (a.kind, node.lineno))
        if f == "np.any" and len(args) == 1 and not kw:
            t = args[0]
            if isinstance(t, ast.Compare) and len(t.ops) == 1 and \
                    isinstance(t.ops[0], ast.Lt):
                a = self.ex(t.left, env)
                b = self.ex(t.comparators[0], env)
                if a.kind == "V" and b.kind == "R":
                    x = self.new("m")
                    return Val("B", "(existsb (fun %s : R => if Rlt_dec %s %s then true else "
                                    "false) %s)" % (x, x, b.term, a.term))
            raise TranslateError("np.any(...) shape (line %d)" % node.lineno)
        if f in ("self.integrals.Jb", "self.integrals.Jf") and len(args) == 1 and not kw:
            a = self.ex(args[0], env)
            if a.kind == "V":
                return Val("VP", "(map (%s e) %s)" % (f.split(".")[-1], a.term))
            if a.kind == "M":
                return Val("MP", "(map (map (%s e)) %s)" % (f.split(".")[-1], a.term))
            raise TranslateError("%s of %s (line %d)" % (f, a.kind, node.lineno))
        raise TranslateError("call %s (line %d)" % (ast.unparse(node)[:60], node.lineno))

    def test(self, node, env):
        if isinstance(node, ast.BoolOp):
            parts = [self.test(v, env).term for v in node.values]
            op = " || " if isinstance(node.op, ast.Or) else " && "
            return Val("B", "(" + op.join(parts) + ")")
        if isinstance(node, ast.Compare) and len(node.ops) == 1:
            a = self.ex(node.left, env)
            b = self.ex(node.comparators[0], env)
            if a.kind == "E" and b.kind == "E" and isinstance(node.ops[0], ast.Eq):
                return Val("B", "(if EImaginaryOption_eq_dec %s %s then true else false)" % (
                    a.term, b.term))
        if isinstance(node, ast.Call):
            v = self.call(node, env)
            if v.kind == "B":
                return v
        raise TranslateError("test %s (line %d)" % (ast.unparse(node)[:60], node.lineno))

    def static_test(self, node, env):
        """tests decided at translation time for a scalar temperature: X.ndim > 0 is False;
        np.isscalar(X) is undetermined (both branches must agree)"""
        if isinstance(node, ast.Compare) and len(node.ops) == 1 and \
                isinstance(node.ops[0], ast.Gt) and isinstance(node.left, ast.Attribute) and \
                node.left.attr == "ndim" and pyrx.const_value(node.comparators[0]) == 0:
            v = self.ex(node.left.value, env)
            if v.kind == "R":
                return False
            if v.kind == "VT":
                return True
            raise TranslateError(".ndim of %s" % v.kind)
        if isinstance(node, ast.Call) and ast.unparse(node.func) == "np.isscalar":
            return "either"
        return None

    # -- statements (continuation style, result type option R)
    def block(self, stmts, env):
        if not stmts:
            raise TranslateError("potentialOneLoopThermal can fall off its end")
        st, rest = stmts[0], stmts[1:]
        if isinstance(st, ast.Expr) and isinstance(st.value, ast.Constant):
            return self.block(rest, env)
        if isinstance(st, ast.AugAssign):
            st = ast.Assign(targets=[st.target], value=ast.BinOp(
                left=ast.Name(id=st.target.id, ctx=ast.Load(), lineno=st.lineno), op=st.op,
                right=st.value, lineno=st.lineno), lineno=st.lineno)
        if isinstance(st, ast.Assign) and len(st.targets) == 1:
            tg = st.targets[0]
            if isinstance(tg, ast.Name):
                v = self.ex(st.value, env)
                nm = self.new(tg.id)
                env2 = dict(env)
                env2[tg.id] = Val(v.kind, nm)
                return "let %s := %s in\n  %s" % (nm, v.term, self.block(rest, env2))
            if isinstance(tg, ast.Tuple) and isinstance(st.value, ast.Name):
                v = env.get(st.value.id)
                if v is None or v.kind != "T" or len(v.items) != len(tg.elts):
                    raise TranslateError("unpacking (line %d)" % st.lineno)
                env2 = dict(env)
                for e, item in zip(tg.elts, v.items):
                    if not isinstance(e, ast.Name):
                        raise TranslateError("unpack target (line %d)" % st.lineno)
                    if e.id != "_":
                        env2[e.id] = item
                return self.block(rest, env2)
            raise TranslateError("assignment (line %d)" % st.lineno)
        if isinstance(st, ast.If):
            s = self.static_test(st.test, env)
            if s is False:
                return self.block(st.orelse + rest, env)
            if s is True:
                return self.block(st.body + rest, env)
            if s == "either":
                a = self.block(st.body + rest, dict(env))
                b = self.block(st.orelse + rest, dict(env))
                if a != b:
                    raise TranslateError("branches of `if %s` differ (line %d)" % (
                        ast.unparse(st.test), st.lineno))
                return a
            t = self.test(st.test, env)
            a = "None" if self.only_raises(st.body) else self.block(st.body + rest, dict(env))
            b = "None" if self.only_raises(st.orelse) else \
                self.block(st.orelse + rest, dict(env))
            return "if %s\n  then (%s)\n  else (%s)" % (t.term, a, b)
        if isinstance(st, ast.Raise):
            return "None"
        if isinstance(st, ast.Return):
            v = self.ex(st.value, env)
            if v.kind != self.ret_kind:
                raise TranslateError("return of %s (line %d)" % (v.kind, st.lineno))
            return "Some %s" % v.term
        raise TranslateError("statement %s (line %d)" % (type(st).__name__, st.lineno))

    @staticmethod
    def only_raises(body):
        """a branch that ends in `raise` after plain local assignments (values that only feed
        the exception message)"""
        return bool(body) and isinstance(body[-1], ast.Raise) and all(
            isinstance(s, ast.Assign) and len(s.targets) == 1 and
            isinstance(s.targets[0], ast.Name) for s in body[:-1])

    def generate(self):
        fn = self.fn.get("potentialOneLoopThermal")
        if fn is None:
            raise TranslateError("potentialOneLoopThermal not found")
        if [a.arg for a in fn.args.args] != ["self", "bosons", "fermions", "temperature"]:
            raise TranslateError("potentialOneLoopThermal signature changed")
        if fn.decorator_list or fn.args.defaults or fn.args.vararg or fn.args.kwarg or \
                fn.args.kwonlyargs:
            raise TranslateError("potentialOneLoopThermal is decorated / has default parameters")
        pyrx.check_plain_class(self.cls)
        env = {
            "bosons": Val("T", None, [Val("V", "massSqB"), Val("V", "nB"), Val("N", ""),
                                      Val("N", "")]),
            "fermions": Val("T", None, [Val("V", "massSqF"), Val("V", "nF"), Val("N", ""),
                                        Val("N", "")]),
            "temperature": Val("R", "temperature"),
        }
        self.ret_kind = "R"
        body = self.block(fn.body, env)
        # second instance: a 1-D array of temperatures (same 1-D particle content)
        env_a = dict(env)
        env_a["temperature"] = Val("VT", "temperatures")
        self.ret_kind = "VT"
        body_a = self.block(fn.body, env_a)
        out = ["From Coq Require Import Reals List Bool.",
               "From WG Require Import Lib.ThermalSum.",
               "Import ListNotations.", "Local Open Scope R_scope.",
               "(* generated from src/WallGo/PotentialTools/effectivePotentialNoResum.py *)",
               "Inductive EImaginaryOption := %s." % " | ".join(self.members),
               "Definition EImaginaryOption_eq_dec (a b : EImaginaryOption) : {a = b} + "
               "{a <> b}.\nProof. decide equality. Defined.",
               "(* external collaborators: self.integrals.Jb / Jf, returning (real, imaginary) *)",
               "Record env := mk_env { Jb : R -> R * R; Jf : R -> R * R }."] + [
               "Definition %s : R := %s." % (c, pyrx.rlit(self.consts[c]))
               for c in sorted(self.used_consts)] + [
               "Definition potentialOneLoopThermal (e : env) (opt : EImaginaryOption)\n"
               "  (massSqB nB massSqF nF : list R) (temperature : R) : option R :=\n  %s." % body,
               "(* the same method for a 1-D ARRAY of temperatures (the `ndim > 0` branch) *)",
               "Definition potentialOneLoopThermalArr (e : env) (opt : EImaginaryOption)\n"
               "  (massSqB nB massSqF nF : list R) (temperatures : list R) : option (list R) "
               ":=\n  %s." % body_a]
        span = {"potentialOneLoopThermal": (fn.lineno, fn.end_lineno,
                                            pyrx._sha(ast.unparse(fn)))}
        return "\n".join(out) + "\n", span


def thermal_sum(src):
    return ThermalSum(src).generate()


# --------------------------------------------------------------------------------------------
# 3. shipped tables

def mant_exp(tok):
    """exact (mantissa, exponent) with value = mantissa * 10^exponent, mantissa not divisible
    by 10 (or 0, 0)"""
    q = Fraction(tok)            # exact decimal value of the text
    if q == 0:
        return 0, 0
    e = 0
    while (q / Fraction(10) ** e).denominator != 1:
        e -= 1
        if e < -60:
            raise TranslateError("number %r needs more than 60 decimals" % tok)
    m = int(q / Fraction(10) ** e)
    while m % 10 == 0:
        m //= 10
        e += 1
    if abs(m) >= 2 ** 62:
        raise TranslateError("mantissa of %r does not fit a 63-bit integer" % tok)
    return m, e


def table(text, name, nsample=40):
    """Coq file for one data file. Returns (coq text, list of rows as Fractions)."""
    lines = [l for l in text.splitlines() if l.strip()]
    rows, raw = [], []
    for k, l in enumerate(lines):
        toks = l.split()
        if len(toks) != 3:
            raise TranslateError("%s line %d: %d columns" % (name, k + 1, len(toks)))
        me = [mant_exp(t) for t in toks]
        raw.append("(%d,%d,%d,%d,%d,%d)" % (me[0] + me[1] + me[2]))
        rows.append([Fraction(t) for t in toks])
    n = len(lines)
    # evenly spread sample of verbatim lines for the in-Coq parser
    step = max(1, n // nsample)
    idx = sorted(set(list(range(0, n, step)) + [n - 1]))
    for l in (lines[i] for i in idx):
        if '"' in l:
            raise TranslateError("quote in data line")
    out = ["From Coq Require Import ZArith List String Sint63.",
           "From WG Require Import Lib.ThermalTables.",
           "Import ListNotations.",
           "(* generated from src/WallGo/PotentialTools/Data/InterpolationTable_%s.txt: every "
           "number as\n   (mantissa, decimal exponent) *)" % name,
           "Local Open Scope sint63_scope.",
           "Definition %sRaw : list raw_row := [\n%s]." % (name, ";\n".join(raw)),
           "Local Close Scope sint63_scope.",
           "(* no type annotation and no Eval here: both make coqc normalise the 10000-row "
           "list symbolically (minutes) *)",
           "Definition %sRows := match rows_of_raw %sRaw with Some l => l | None => @nil row "
           "end." % (name, name),
           "Lemma %sRaw_valid : (if rows_of_raw %sRaw then true else false) = true.\nProof. "
           "vm_compute. reflexivity. Qed." % (name, name),
           "(* a sample of lines of the file, verbatim; Coq's own decimal parser must read "
           "them to the same rows *)",
           "Definition %sSampleIdx : list Z := [%s]%%Z." % (name, "; ".join(
               str(i) for i in idx)),
           'Definition %sSampleText : string := "%s\n"%%string.' % (
               name, "\n".join(lines[i] for i in idx)),
           "Lemma %sSample_agrees :\n  parse_table %sSampleText = Some (map (fun i => nth "
           "(Z.to_nat i) %sRows (0, 0, 0)%%Z) %sSampleIdx).\nProof. vm_compute. reflexivity. "
           "Qed." % (name, name, name, name)]
    return "\n".join(out) + "\n", rows
