"""C13 -- out-of-equilibrium moments are the momentum integrals they are defined to be."""
import copy
import json
import math
import subprocess
import traceback
import types
from fractions import Fraction

import numpy as np

import gen_moments
import pyrx
import vlib

EXPLANATION = (
    "The integrand weights of BoltzmannSolver.getDeltas, the nodal quadrature weights of "
    "Polynomial.integrate, the momentum maps / Jacobians / cached-coordinate state machine "
    "of Grid, the Polynomial operations getDeltas applies to deltaF and the summands of "
    "EOM.deltaToTmunu are regenerated from the sources on every run; Coq proves, for every "
    "grid size, scale history, mass, velocity and deviation: the four weights are "
    "pp dpz dpp/(4 pi^2 E) times 1, pz^2, E^2, E pz (= d^3p/((2pi)^3 E) with the angle "
    "integrated), the cached Jacobians are the derivatives of the cached momentum maps at "
    "the CURRENT scale after any sequence of rescalings (rescaled grid = fresh grid), the "
    "moments are the Gauss-Chebyshev-Lobatto sums and are linear in deltaF, T30/T33 "
    "assembled from them equal the sum of p^mu p^nu deltaF boosted with gamma(1,v), every "
    "weight multiplication acts on nodal values for both solver bases, and the rule is "
    "exact on sqrt(1-x^2) * (combination of U_0..U_{2n-3}): the double sum equals the product "
    "of the integrals int_0^pi sin^2 t q(cos t) dt (proved, is_RInt); only the substitution "
    "x = cos t to the dx form is an explicit premise, validated numerically. "
    "Model values are compared with the implementation by certified interval evaluation and "
    "the property itself is evaluated on the implementation with closed-form oracles.")

SRC_FILES = ("grid.py", "polynomial.py", "boltzmann.py", "equationOfMotion.py", "helpers.py")
RTOL = 2e-10
WEIGHTS = ("Delta00", "Delta02", "Delta20", "Delta11")


# ------------------------------------------------------------------------------------
# implementation-side helpers

def make_particles(nspecies):
    import WallGo
    coup = [0.5, 0.11, 0.9][:nspecies]
    dofs = [12, 9, 3][:nspecies]
    out = []
    for k, (g, d) in enumerate(zip(coup, dofs)):
        out.append(WallGo.Particle(
            name="p%d" % k, index=k,
            msqVacuum=(lambda phi, g=g: g * phi.getField(0) ** 2),
            msqDerivative=(lambda fields, g=g: np.transpose([2 * g * fields.getField(0)])),
            statistics="Fermion" if k % 2 == 0 else "Boson", totalDOFs=d))
    return out


def make_background(M, mass):
    import WallGo
    v = -np.ones(M + 1) / np.sqrt(3) + 0.01 * np.sin(np.arange(M + 1))
    if mass == "constant":
        field = 80.0 * np.ones(M + 1)
    elif mass == "light":
        field = 0.05 * (2 + np.tanh(np.linspace(-2, 2, M + 1)))
    else:
        field = 60.0 * (1 + np.tanh(np.linspace(-2, 2, M + 1))) + 1.0
    return WallGo.BoltzmannBackground(
        velocityMid=0.5 * (v[0] + v[-1]), velocityProfile=v,
        fieldProfiles=WallGo.Fields(field[:, None]),
        temperatureProfile=100 * np.ones(M + 1))


def make_grid(kind, M, N, T0):
    import WallGo
    if kind == "Grid3Scales":
        return WallGo.Grid3Scales(M, N, 2.5, 3.0, 1.0, T0, 0.5)
    return WallGo.grid.Grid(M, N, 1.0, T0)


def make_solver(grid, particles, bg, basisM, basisN):
    import WallGo
    from WallGo.collisionArray import CollisionArray
    solver = WallGo.BoltzmannSolver(grid, basisM, basisN, "Spectral")
    solver.updateParticleList(particles)
    solver.setBackground(bg)
    coll = CollisionArray(grid, basisN, particles)
    coll.polynomialData.coefficients[...] = 0.0
    solver.setCollisionArray(coll)
    return solver


def restricted_cheb(x, orders, restriction):
    from numpy.polynomial import chebyshev as npcheb
    cols = []
    for n in orders:
        tn = npcheb.chebval(x, [0] * n + [1])
        tn = tn - ((1 if n % 2 == 0 else x) if restriction == "full" else 1)
        cols.append(tn)
    return np.array(cols).T


def to_solver_repr(nodal, grid, basisM, basisN):
    """nodal values (P, M-1, N-1, N-1) -> coefficients in (basisM, basisN, basisN);
    independent of WallGo's own change of basis"""
    chi, rz, rp = grid.getCompactCoordinates()
    out = nodal
    if basisM == "Chebyshev":
        V = restricted_cheb(chi, range(2, grid.M + 1), "full")
        out = np.einsum("ni,aijk->anjk", np.linalg.inv(V), out)
    if basisN == "Chebyshev":
        Vz = restricted_cheb(rz, range(2, grid.N + 1), "full")
        Vp = restricted_cheb(rp, range(1, grid.N), "partial")
        out = np.einsum("nj,aijk->aink", np.linalg.inv(Vz), out)
        out = np.einsum("nk,aijk->aijn", np.linalg.inv(Vp), out)
    return out


def from_solver_repr(coeffs, grid, basisM, basisN):
    """values at the nodes of the function whose coefficients are `coeffs` (forward
    multiplication by the basis matrices; well conditioned, unlike the inverse above)"""
    chi, rz, rp = grid.getCompactCoordinates()
    out = coeffs
    if basisM == "Chebyshev":
        V = restricted_cheb(chi, range(2, grid.M + 1), "full")
        out = np.einsum("in,anjk->aijk", V, out)
    if basisN == "Chebyshev":
        Vz = restricted_cheb(rz, range(2, grid.N + 1), "full")
        Vp = restricted_cheb(rp, range(1, grid.N), "partial")
        out = np.einsum("jn,aink->aijk", Vz, out)
        out = np.einsum("kn,aijn->aijk", Vp, out)
    return out


def nodal_of(poly):
    poly = copy.deepcopy(poly)
    poly.changeBasis(("Array", "Cardinal"))
    return np.asarray(poly.coefficients, dtype=float)


def cheb_weight_moment(j):
    """int_{-1}^{1} sqrt(1-x^2) x^j dx"""
    if j % 2:
        return 0.0
    m = j // 2
    return math.pi * math.factorial(2 * m) / (2 ** (2 * m + 1) * math.factorial(m) *
                                              math.factorial(m + 1))


def poly_int(c):
    return sum(ck * cheb_weight_moment(j) for j, ck in enumerate(c))


def physical(grid, particles, bg):
    chi, rz, rp = grid.getCompactCoordinates()
    _, pz, pp = grid.getCoordinates()
    msq = np.array([p.msqVacuum(bg.fieldProfiles) for p in particles])[:, 1:-1, None, None]
    pz4 = pz[None, None, :, None]
    pp4 = pp[None, None, None, :]
    energy = np.sqrt(msq + pz4 ** 2 + pp4 ** 2)
    return chi, rz, rp, pz4, pp4, energy


def own_measure(grid, N, T0, rz, rp, pp4, energy):
    """quadrature weight * Jacobian * measure written out from the definitions (plain
    Grid maps: pz = 2 T atanh(rz), pp = -T ln((1-rp)/2)); independent of the cached arrays"""
    wz = np.pi / N * np.sqrt(1 - rz ** 2) * 2 * T0 / (1 - rz ** 2)
    wp = np.pi / (N - 1) * np.sqrt(1 - rp ** 2) * T0 / (1 - rp)
    wp = wp.copy()
    wp[0] *= 0.5
    return wz[None, None, :, None] * wp[None, None, None, :] * pp4 / (4 * np.pi ** 2 * energy)


def exact_family(grid, particles, bg, A, B, gz):
    """deviations (one per weight) whose integrand is
    T0^3/pi^2 sqrt(1-rz^2) A(rz) sqrt(1-rp^2) B(rp) g(chi), and the closed form"""
    chi, rz, rp, pz4, pp4, energy = physical(grid, particles, bg)
    T0 = grid.momentumFalloffT
    rz4 = rz[None, None, :, None]
    rp4 = rp[None, None, None, :]
    with np.errstate(divide="ignore", invalid="ignore"):
        base = (2 * energy * (1 - rz4 ** 2) * (1 - rp4 ** 2)
                * np.sqrt((1 - rz4 ** 2) * (1 - rp4) ** 2 / (1 - rp4 ** 2))
                / np.log(2 / (1 - rp4)))
    base = np.where(np.isfinite(base), base, 0.0)   # pp = 0 has zero measure
    base = base * np.polyval(A[::-1], rz4) * np.polyval(B[::-1], rp4)
    g = gz(chi)[None, :, None, None]
    ws = dict(Delta00=np.ones_like(energy), Delta02=pz4 ** 2 * np.ones_like(energy),
              Delta20=energy ** 2, Delta11=energy * pz4)
    closed = gz(chi) * poly_int(A) * poly_int(B) * T0 ** 3 / math.pi ** 2
    meas = own_measure(grid, grid.N, T0, rz, rp, pp4, energy)
    return {k: g * base / w for k, w in ws.items()}, closed, \
        {k: meas * w for k, w in ws.items()}


def rand_poly(rng, deg):
    return [rng.randint(-8, 8) / 4.0 for _ in range(deg + 1)]


# ------------------------------------------------------------------------------------
# direct validation

def check_exact(ctx, cfg):
    """moments of deviations in the exactness class vs closed forms; cfg describes grid
    kind, M, N, scale history, bases, mass profile, polynomial degrees"""
    rng = ctx.rng
    particles = make_particles(cfg["species"])
    bg = make_background(cfg["M"], cfg["mass"])
    scales = cfg["scales"]
    grid = make_grid(cfg["grid"], cfg["M"], cfg["N"], scales[0])
    solver = make_solver(grid, particles, bg, cfg["basisM"], cfg["basisN"])
    N = cfg["N"]
    if "A" in cfg:                      # replay
        A, B = list(cfg["A"]), list(cfg["B"])
    else:
        A = rand_poly(rng, min(cfg["degA"], 2 * N - 3))
        B = rand_poly(rng, max(0, min(cfg["degB"], 2 * (N - 1) - 3)))
        A[0] += 6.0
        B[0] += 6.0
    gz = (lambda chi: (1 - chi ** 2) * (1 + 0.5 * chi))
    case = dict(cfg, A=A, B=B)
    ok = True
    for step, T in enumerate(scales):
        if step:
            grid.changeMomentumFalloffScale(T)
        devs, closed, mw = exact_family(grid, particles, bg, A, B, gz)
        fresh = None
        if step:
            fgrid = make_grid(cfg["grid"], cfg["M"], N, T)
            fresh = make_solver(fgrid, particles, bg, cfg["basisM"], cfg["basisN"])
        for name in WEIGHTS:
            deltaF = to_solver_repr(devs[name], grid, cfg["basisM"], cfg["basisN"])
            deltas = solver.getDeltas(deltaF).Deltas
            got = nodal_of(getattr(deltas, name))
            raw = np.asarray(getattr(deltas, name).coefficients, dtype=float)
            ctx.count("exact_class", dict(case, step=step, name=name),
                      bucket="%s/%s/%s/N=%d%s" % (cfg["basisM"][:4], cfg["basisN"][:4],
                                                  cfg["mass"], N,
                                                  "/rescaled" if step else ""))
            # the oracle is the closed form; the (tiny) error made by MY conversion of the
            # nodal values into spectral coefficients is accounted for exactly
            rep_err = from_solver_repr(deltaF, grid, cfg["basisM"], cfg["basisN"]) - devs[name]
            want = closed[None, :] + np.sum(mw[name] * rep_err, axis=(2, 3))
            relerr = np.abs(got - want) / np.abs(closed[None, :])
            err = float(np.max(relerr))
            if not err < RTOL:
                a, i = np.unravel_index(np.argmax(relerr), got.shape)
                ok = False
                ctx.fail_input(
                    "%s(particle %d, z_%d) = %.12g but the momentum integral is %.12g "
                    "[%s M=%d N=%d basisM=%s basisN=%s mass=%s scales=%s step %d]" % (
                        name, a, i, got[a, i], closed[i], cfg["grid"], cfg["M"], N,
                        cfg["basisM"], cfg["basisN"], cfg["mass"], scales, step),
                    dict(kind="exact", case=case, step=step, name=name,
                         got=float(got[a, i]), want=float(closed[i])),
                    key="moment-not-integral:%s:%s" % (
                        "rescaled" if step else "fresh", cfg["basisM"]))
            # deltaToTmunu reads .coefficients as nodal values
            if not np.allclose(raw, got, rtol=RTOL, atol=0):
                ok = False
                ctx.fail_input(
                    "returned %s.coefficients are not the nodal values (basis %s) "
                    "[basisM=%s basisN=%s]" % (name, getattr(deltas, name).basis,
                                               cfg["basisM"], cfg["basisN"]),
                    dict(kind="not-nodal", case=case, step=step, name=name),
                    key="deltas-not-nodal:%s" % cfg["basisM"])
            if fresh is not None:
                y = np.asarray(getattr(fresh.getDeltas(deltaF).Deltas, name).coefficients,
                               dtype=float)
                ctx.count("rescaled_vs_fresh")
                if not np.allclose(raw, y, rtol=RTOL, atol=0):
                    ok = False
                    ctx.fail_input(
                        "%s on the grid rescaled %s differs from a fresh grid at T0=%g by "
                        "a factor %.6g" % (name, scales[:step + 1], T,
                                           np.ravel(raw)[0] / np.ravel(y)[0]),
                        dict(kind="rescaled-vs-fresh", case=case, step=step, name=name),
                        key="rescaled-differs-from-fresh")
    return ok


def check_generic(ctx, cfg):
    """random deviation (NOT in the exactness class): moments vs the quadrature sums written
    out from the definitions; linearity; deltaToTmunu vs boosted direct sums"""
    import WallGo
    rng = np.random.default_rng(ctx.rng.randint(0, 2 ** 31))
    particles = make_particles(cfg["species"])
    bg = make_background(cfg["M"], cfg["mass"])
    N, M = cfg["N"], cfg["M"]
    T0 = cfg["scales"][-1]
    grid = make_grid("Grid", M, N, cfg["scales"][0])
    solver = make_solver(grid, particles, bg, cfg["basisM"], cfg["basisN"])
    for T in cfg["scales"][1:]:
        grid.changeMomentumFalloffScale(T)
    chi, rz, rp, pz4, pp4, energy = physical(grid, particles, bg)
    meas = own_measure(grid, N, T0, rz, rp, pp4, energy)
    P = len(particles)
    shape = (P, M - 1, N - 1, N - 1)
    f = rng.standard_normal(shape)
    g = rng.standard_normal(shape)
    a, b = 1.75, -0.625
    ok = True

    def deltas_of(nodal):
        return solver.getDeltas(to_solver_repr(nodal, grid, cfg["basisM"],
                                               cfg["basisN"])).Deltas
    Df, Dg, Dh = deltas_of(f), deltas_of(g), deltas_of(a * f + b * g)
    ws = dict(Delta00=np.ones_like(energy), Delta02=pz4 ** 2 * np.ones_like(energy),
              Delta20=energy ** 2, Delta11=energy * pz4)
    direct = {k: np.sum(meas * w * f, axis=(2, 3)) for k, w in ws.items()}
    case = dict(cfg, seed_note="numpy default_rng from ctx.rng")
    for name in WEIGHTS:
        x = np.asarray(getattr(Df, name).coefficients, dtype=float)
        scale = np.sum(np.abs(meas * ws[name] * f), axis=(2, 3))
        ctx.count("generic_sum", dict(case, name=name),
                  bucket="%s/%s" % (cfg["basisM"][:4], cfg["basisN"][:4]))
        if not np.all(np.abs(x - direct[name]) <= 1e-9 * scale):
            ok = False
            i = np.unravel_index(np.argmax(np.abs(x - direct[name]) / scale), x.shape)
            ctx.fail_input(
                "%s%s = %.12g but sum of measure*weight*deltaF = %.12g [M=%d N=%d basisM=%s "
                "basisN=%s scales=%s]" % (name, tuple(int(t) for t in i), x[i],
                                          direct[name][i], M, N,
                                          cfg["basisM"], cfg["basisN"], cfg["scales"]),
                dict(kind="generic", case=case, name=name),
                key="moment-not-sum:%s:%s" % (
                    "rescaled" if len(cfg["scales"]) > 1 else "fresh", cfg["basisM"]))
        xf, xg, xh = (np.asarray(getattr(D, name).coefficients, dtype=float)
                      for D in (Df, Dg, Dh))
        ctx.count("linearity")
        if not np.all(np.abs(xh - (a * xf + b * xg)) <= 1e-9 * (
                np.abs(a * xf) + np.abs(b * xg) + 1e-300)):
            ok = False
            ctx.fail_input("%s is not linear in deltaF" % name,
                           dict(kind="linearity", case=case, name=name),
                           key="not-linear")
    # T30 / T33
    vMid = cfg["v"]
    u0 = 1 / math.sqrt(1 - vMid ** 2)
    u3 = u0 * vMid
    eom = types.SimpleNamespace(particles=particles)
    p0 = u0 * energy + u3 * pz4
    p3 = u3 * energy + u0 * pz4
    dofs = np.array([p.totalDOFs for p in particles])[:, None]
    T30ref = np.sum(dofs * np.sum(meas * p3 * p0 * f, axis=(2, 3)), axis=0)
    T33ref = np.sum(dofs * np.sum(meas * p3 * p3 * f, axis=(2, 3)), axis=0)
    sc30 = np.sum(dofs * np.sum(meas * np.abs(p3 * p0 * f), axis=(2, 3)), axis=0)
    sc33 = np.sum(dofs * np.sum(meas * np.abs(p3 * p3 * f), axis=(2, 3)), axis=0)
    for index in range(M - 1):
        fp = bg.fieldProfiles.getFieldPoint(index + 1)
        T30, T33 = WallGo.EOM.deltaToTmunu(eom, index, fp, vMid, Df)
        T30, T33 = float(np.ravel(T30)[0]), float(np.ravel(T33)[0])
        ctx.count("tmunu", dict(case, index=index))
        for nm, x, y, sc in (("T30", T30, T30ref[index], sc30[index]),
                             ("T33", T33, T33ref[index], sc33[index])):
            if not abs(x - y) <= 1e-9 * sc:
                ok = False
                ctx.fail_input(
                    "%s(z_%d) = %.12g but the boosted direct sum of p^mu p^nu deltaF is "
                    "%.12g [v=%g basisM=%s basisN=%s]" % (nm, index, x, y, vMid,
                                                          cfg["basisM"], cfg["basisN"]),
                    dict(kind="tmunu", case=case, index=index, which=nm, got=x, want=y),
                    key="tmunu:%s:%s" % (nm, cfg["basisM"]))
    return ok


def check_U_orthogonality(ctx, jmax):
    """the named hypothesis of moments_exact_on_class, by adaptive quadrature:
    int_{-1}^{1} sqrt(1-x^2) U_j(x) dx = (pi/2) [j = 0]"""
    from scipy.integrate import quad
    from scipy.special import eval_chebyu
    for j in range(jmax + 1):
        val, _ = quad(lambda t: math.sin(t) ** 2 * eval_chebyu(j, math.cos(t)), 0, math.pi,
                      limit=400)
        want = math.pi / 2 if j == 0 else 0.0
        ctx.count("hyp_U_orthogonality", dict(j=j))
        if abs(val - want) > 1e-9:
            ctx.broken.append("hypothesis chebU_weight_integral fails numerically at j=%d "
                              "(%.3e)" % (j, val - want))


def check_gcl(ctx, N_list):
    """hypothesis validation: Polynomial.integrate along pz / pp on sqrt(1-x^2) x^j is exact
    for j <= 2n-3 (n = N resp. N-1), for every admissible j"""
    import WallGo
    from WallGo import Polynomial
    for N in N_list:
        grid = make_grid("Grid", 3, N, 1.0)
        for direction, n in (("pz", N), ("pp", N - 1)):
            x = grid.getCompactCoordinates(False, direction)
            for j in range(0, max(0, 2 * n - 3) + 1):
                F = np.sqrt(1 - x ** 2) * x ** j
                got = Polynomial(F, grid, ("Cardinal",), (direction,), (False,)).integrate()
                want = cheb_weight_moment(j)
                ctx.count("gcl_exact", dict(N=N, direction=direction, j=j),
                          bucket="%s" % direction)
                if not abs(got - want) <= 1e-12 * max(1.0, n):
                    ctx.fail_input(
                        "Polynomial.integrate(%s, N=%d) of sqrt(1-x^2) x^%d = %.15g, exact "
                        "%.15g" % (direction, N, j, got, want),
                        dict(kind="gcl", N=N, direction=direction, j=j, got=float(got),
                             want=want), key="gcl-not-exact:%s" % direction)


# ------------------------------------------------------------------------------------
# correspondence: model vs implementation

EVAL_HDR = """From Coq Require Import Reals Lra List Arith.
From Interval Require Import Tactic.
From WG Require Import Lib.NumpySem Lib.Moments.
From GenC13 Require Import MomentsGen Props_C13.
Import ListNotations.
Local Open Scope R_scope.
Definition s00 := mk_gst 0 0 (fun _ => 0) (fun _ => 0) (fun _ => 0) (fun _ => 0)
                         (fun _ => 0) (fun _ => 0).
Definition s1 := fold_left gstep [%s] (grid_init %s %s s00).
Definition f (x y : R) : R := %s + %s * x + %s * y + %s * x * y.
(* the state is peeled with the proved invariant, not by unfolding nested updates *)
Lemma HT : s_momentumFalloffT s1 = %s.
Proof. unfold s1. rewrite history_scale, init_scale. reflexivity. Qed.
Lemma Hc : cache_current s1.
Proof. apply history_current. apply init_current. Qed.
Lemma Epz r : s_pzValues s1 r = pz_of %s r.
Proof. rewrite <- HT. exact (proj1 (Hc r)). Qed.
Lemma Epp r : s_ppValues s1 r = pp_of %s r.
Proof. rewrite <- HT. exact (proj1 (proj2 (Hc r))). Qed.
Lemma Edz r : s_dpzdrz s1 r = dpz_of %s r.
Proof. rewrite <- HT. exact (proj1 (proj2 (proj2 (Hc r)))). Qed.
Lemma Edp r : s_dppdrp s1 r = dpp_of %s r.
Proof. rewrite <- HT. exact (proj2 (proj2 (proj2 (Hc r)))). Qed.
Ltac prep :=
  unfold gd_moment_Delta00, gd_moment_Delta02, gd_moment_Delta20, gd_moment_Delta11, sumf;
  cbn [sumn rz_lo rz_hi rp_lo rp_hi Nat.sub Nat.add Nat.eqb];
  rewrite ?Epz, ?Epp, ?Edz, ?Edp;
  unfold pz_of, pp_of, dpz_of, dpp_of, g_decompactify, g_compactificationDerivatives;
  cbn [fst snd g_momentumFalloffT g_positionFalloff];
  unfold w_Delta00, w_Delta02, w_Delta20, w_Delta11, intNodeWeight_pz, intNodeWeight_pp,
         rzNode, rpNode, f, atanh_R;
  cbn [INR].
Ltac ev := prep; interval with (i_prec 80).
Ltac ev_hi := prep; interval with (i_prec 200).
"""


def eval_case(ctx, idx, N, ops, coeffs, fieldval):
    """one certified-evaluation file: a real grid driven through `ops`, a bilinear nodal
    deviation with dyadic coefficients, all four moments of getDeltas"""
    M = 3
    particles = make_particles(1)
    import WallGo
    v = -np.ones(M + 1) / np.sqrt(3)
    bg = WallGo.BoltzmannBackground(
        velocityMid=float(v[0]), velocityProfile=v,
        fieldProfiles=WallGo.Fields(np.full((M + 1, 1), float(fieldval))),
        temperatureProfile=100 * np.ones(M + 1))
    L0, T0 = ops[0][1], ops[0][2]
    grid = WallGo.grid.Grid(M, N, float(L0), float(T0))
    terms, Tcur = [], T0
    for op in ops[1:]:
        if op[0] == "momentum":
            grid.changeMomentumFalloffScale(float(op[1]))
            terms.append("OpMomentum %s" % pyrx.rlit(op[1]))
            Tcur = op[1]
        else:
            grid.changePositionFalloffScale(float(op[1]))
            terms.append("OpPosition %s" % pyrx.rlit(op[1]))
    solver = make_solver(grid, particles, bg, "Cardinal", "Cardinal")
    _, rz, rp = grid.getCompactCoordinates()
    a, b, c, d = [float(x) for x in coeffs]
    f = a + b * rz[:, None] + c * rp[None, :] + d * rz[:, None] * rp[None, :]
    dF = np.broadcast_to(f, (1, M - 1, N - 1, N - 1)).copy()
    D = solver.getDeltas(dF).Deltas
    msq = Fraction(float(particles[0].msqVacuum(bg.fieldProfiles)[1]))
    # natural scale of each moment: the sum of the ABSOLUTE values of its terms (the result
    # itself may vanish by cancellation, e.g. Delta11 of a pz-even deviation)
    _, rz_, rp_, pz4, pp4, energy = physical(grid, particles, bg)
    meas = own_measure(grid, N, float(Tcur), rz_, rp_, pp4, energy)
    ws = dict(Delta00=np.ones_like(energy), Delta02=pz4 ** 2 * np.ones_like(energy),
              Delta20=energy ** 2, Delta11=energy * pz4)
    goals, rows, specs = [], [], []
    for name in WEIGHTS:
        y = float(getattr(D, name).coefficients[0, 0])
        q = Fraction(y)
        scale = float(np.sum(np.abs(meas * ws[name] * f[None, None, :, :])[0, 0]))
        tol = Fraction(scale) * Fraction(1, 10 ** 9) + Fraction(1, 10 ** 12)
        term = "gd_moment_%s s1 %d %s f - %s" % (name, N, pyrx.rlit(msq), pyrx.rlit(q))
        goals.append("Goal Rabs (%s) <= %s.\nProof. ev. Qed." % (term, pyrx.rlit(tol)))
        rows.append((name, y))
        specs.append((name, term, pyrx.rlit(tol)))
    hdr = EVAL_HDR % ("; ".join(terms), pyrx.rlit(L0), pyrx.rlit(T0),
                      *[pyrx.rlit(Fraction(x)) for x in coeffs],
                      *([pyrx.rlit(Tcur)] * 5))
    path = ctx.write("Cases/Eval_%d.v" % idx, hdr + "\n".join(goals) + "\n")
    return path, dict(N=N, ops=[list(map(str, o)) for o in ops],
                      coeffs=[str(c) for c in coeffs], msq=str(msq), values=rows,
                      hdr=hdr, specs=specs)


def classify_failed_eval(ctx, idx, info):
    """A failed `interval` run proves nothing.  Each goal of the file is retried alone at
    200 bits, together with its REFUTATION (tol < |model - impl|).  Only a certified
    refutation is a broken correspondence; if neither side can be certified the case is
    recorded as inconclusive and never becomes a violation."""
    jobs = []
    for name, term, tol in info["specs"]:
        for kind, goal in (("claim", "Rabs (%s) <= %s" % (term, tol)),
                           ("refute", "%s < Rabs (%s)" % (tol, term))):
            pth = ctx.write("Cases/Retry_%d_%s_%s.v" % (idx, name, kind),
                            info["hdr"] + "Goal %s.\nProof. ev_hi. Qed.\n" % goal)
            jobs.append((name, kind, subprocess.Popen(
                ["timeout", "900", "coqc"] + ctx.coq_args() + [pth], cwd=ctx.bdir,
                stdout=subprocess.PIPE, stderr=subprocess.PIPE, text=True)))
    res = {}
    for name, kind, pr in jobs:
        pr.communicate()
        res[(name, kind)] = pr.returncode == 0
    for name, _, _ in info["specs"]:
        if res[(name, "claim")]:
            ctx.count("certified_eval_retry_ok")
        elif res[(name, "refute")]:
            ctx.broken.append("correspondence: certified MISMATCH model vs getDeltas for %s "
                              "(Eval_%d)" % (name, idx))
            ctx.log("certified mismatch", name, json.dumps(
                {k: v for k, v in info.items() if k not in ("hdr", "specs")}))
        else:
            ctx.count("certified_eval_inconclusive")
            ctx.log("certified evaluation inconclusive (not a violation)", name,
                    json.dumps({k: v for k, v in info.items() if k not in ("hdr", "specs")}))


def basis_trace_cases(ctx, facts):
    """run the generated operation list on a real Polynomial and compare poly.basis after
    every operation with the model's trace (exact, vm_compute)"""
    from WallGo import Polynomial
    import re
    grid = make_grid("Grid", 4, 3, 1.0)
    coq = {"Array": "BArray", "Cardinal": "BCardinal", "Chebyshev": "BChebyshev"}
    cases, meta = [], []
    for bM in ("Cardinal", "Chebyshev"):
        for bN in ("Cardinal", "Chebyshev"):
            poly, obs = None, []
            for op in facts["ops"]:
                kind, arg = op.split(" ", 1)
                if kind == "PIntegrate":
                    axes = tuple(int(x) for x in re.findall(r"(\d+)%nat", arg))
                    poly.integrate(axes, 1.0)
                else:
                    names = [{"BArray": "Array", "BCardinal": "Cardinal",
                              "BChebyshev": "Chebyshev", "bM": bM, "bN": bN}[t.strip()]
                             for t in arg.strip("[]").split(";")]
                    if kind == "PNew":
                        poly = Polynomial(np.ones((1, 3, 2, 2)), grid, tuple(names),
                                          tuple(facts["directions"]), False)
                    else:
                        poly.changeBasis(tuple(names))
                obs.append(list(poly.basis))
            lit = "[" + "; ".join("[" + "; ".join(coq[b] for b in st) + "]" for st in obs) \
                + "]"
            cases.append("lleqb (trace integrate_new_basis (getDeltas_ops %s %s) []) %s" % (
                coq[bM], coq[bN], lit))
            meta.append(dict(basisM=bM, basisN=bN, observed=obs))
            ctx.count("basis_trace", meta[-1])
    hdr = """From Coq Require Import List Bool Arith.
From WG Require Import Lib.Moments.
From GenC13 Require Import MomentsGen.
Import ListNotations.
Fixpoint leqb (a b : list basis) : bool :=
  match a, b with [], [] => true | x :: a', y :: b' => basis_eqb x y && leqb a' b'
  | _, _ => false end.
Fixpoint lleqb (a b : list (list basis)) : bool :=
  match a, b with [], [] => true | x :: a', y :: b' => leqb x y && lleqb a' b'
  | _, _ => false end.
"""
    bad = ctx.run_cases("BasisTrace", hdr, cases)
    for b in bad:
        ctx.broken.append("correspondence: Polynomial basis trace (%s)" % b["file"])
        ctx.log("basis trace mismatch", b["cases"], b["err"],
                json.dumps([meta[i] for i in b["cases"]][:2]))


# ------------------------------------------------------------------------------------

def configs(ctx):
    rng = ctx.rng
    out = []
    Ns = [3, 5, 7, 11] if ctx.quick else [3, 5, 7, 9, 11, 13, 15, 17, 19, 21, 23, 25]
    k = 0
    for N in Ns:
        for basisM in ("Cardinal", "Chebyshev"):
            for basisN in ("Cardinal", "Chebyshev"):
                k += 1
                mass = ("profile", "constant", "light")[k % 3] if ctx.quick or k % 2 else \
                    "profile"
                T1 = rng.choice([1.0, 40.0, 100.0, 130.0])
                scales = [T1] if k % 2 else [T1, T1 * rng.choice([0.4, 2.5]),
                                             rng.choice([85.0, 110.0])]
                out.append(dict(grid="Grid3Scales" if k % 5 == 0 else "Grid",
                                M=rng.choice([3, 4, 6, 9]), N=N, scales=scales,
                                basisM=basisM, basisN=basisN, mass=mass,
                                species=1 + k % 3, degA=2 * N - 3 if k % 2 else 2,
                                degB=2 * (N - 1) - 3 if k % 3 else 2,
                                v=rng.choice([-0.55, -0.3, 0.2, 0.6, 0.9])))
    if not ctx.quick:
        for _ in range(60):
            N = rng.choice(Ns)
            T1 = rng.choice([1.0, 40.0, 100.0, 250.0])
            out.append(dict(grid=rng.choice(["Grid", "Grid", "Grid3Scales"]),
                            M=rng.choice([3, 5, 8, 12]), N=N,
                            scales=[T1] + [rng.choice([0.3, 2.0, 7.0]) * T1
                                           for _ in range(rng.randint(0, 2))],
                            basisM=rng.choice(["Cardinal", "Chebyshev"]),
                            basisN=rng.choice(["Cardinal", "Chebyshev"]),
                            mass=rng.choice(["profile", "constant", "light"]),
                            species=rng.randint(1, 3), degA=rng.randint(0, 2 * N - 3),
                            degB=rng.randint(0, max(0, 2 * (N - 1) - 3)),
                            v=rng.choice([-0.9, -0.55, 0.1, 0.6, 0.95])))
    return out


def run(ctx):
    srcs = [vlib.read_src(f) for f in SRC_FILES]
    gen_ok, facts = True, None
    try:
        text, spans, facts = gen_moments.generate(*srcs)
        ctx.write("MomentsGen.v", text, sources=dict(
            files={f: vlib.sha(s) for f, s in zip(SRC_FILES, srcs)}, spans=spans,
            facts=facts))
    except pyrx.TranslateError as e:
        ctx.log("translator failed:", e)
        ctx.broken.append("translator: %s" % e)
        gen_ok = False
    proved = gen_ok and ctx.prove(extra=["MomentsGen.v"])
    ctx.trusted += ["tools/pyrx.py + tools/gen_moments.py (AST translator / fact extractor)",
                    "Interval tactic (certified evaluation)"]
    # ---- correspondence (certified evaluation), started in the background -------------
    procs = []
    if proved:
        try:
            rng = ctx.rng
            specs = [(3, [("init", Fraction(1), Fraction(100))], 2.0),
                     (3, [("init", Fraction(2), Fraction(100)),
                          ("momentum", Fraction(40)), ("position", Fraction(3))], 3.0),
                     (5, [("init", Fraction(1), Fraction(64)),
                          ("momentum", Fraction(130))], 1.0)]
            if not ctx.quick:
                for _ in range(5):
                    ops = [("init", Fraction(rng.randint(1, 8), 2),
                            Fraction(rng.randint(2, 400), 2))]
                    for _ in range(rng.randint(0, 3)):
                        ops.append(rng.choice([("momentum", Fraction(rng.randint(2, 400), 2)),
                                               ("position", Fraction(rng.randint(1, 9), 2))]))
                    specs.append((rng.choice([3, 5, 5, 7]), ops, rng.choice([0.5, 2.0, 9.0])))
            for idx, (N, ops, fv) in enumerate(specs):
                coeffs = [Fraction(rng.randint(-16, 16), 8) for _ in range(4)]
                coeffs[0] += 3
                path, info = eval_case(ctx, idx, N, ops, coeffs, fv)
                if idx == 0:
                    ctx.sample(dict(certified_eval={k: v for k, v in info.items()
                                                    if k not in ("hdr", "specs")}))
                procs.append((idx, info, subprocess.Popen(
                    ["timeout", "900", "coqc"] + ctx.coq_args() + [path], cwd=ctx.bdir,
                    stdout=subprocess.PIPE, stderr=subprocess.PIPE, text=True)))
        except Exception as ex:
            ctx.log("certified evaluation could not be set up", traceback.format_exc())
            ctx.broken.append("correspondence: setup raised %r" % ex)
    if gen_ok:
        try:
            basis_trace_cases(ctx, facts)
        except Exception as ex:
            ctx.log("basis trace raised", traceback.format_exc())
            ctx.broken.append("correspondence: basis trace raised %r" % ex)
    # ---- direct validation on the implementation ---------------------------------------
    cfgs = configs(ctx)
    for k, cfg in enumerate(cfgs):
        try:
            check_exact(ctx, cfg)
            if k % (1 if not ctx.quick else 2) == 0:
                check_generic(ctx, cfg)
        except Exception as ex:
            ctx.log("direct validation raised", json.dumps(cfg), traceback.format_exc())
            ctx.fail_input("getDeltas/deltaToTmunu raised %r" % ex,
                           dict(kind="raise", case=cfg), key="raises")
        if k == 0:
            ctx.sample(dict(direct=cfg))
    check_gcl(ctx, [3, 5, 7, 9, 11] if ctx.quick else list(range(3, 27, 2)))
    check_U_orthogonality(ctx, 20 if ctx.quick else 48)
    # ---- collect the certified evaluations ---------------------------------------------
    for idx, info, pr in procs:
        out, err = pr.communicate()
        for _ in info["values"]:
            ctx.count("certified_eval", dict(N=info["N"], ops=info["ops"],
                                             coeffs=info["coeffs"], k=_[0]))
        if pr.returncode != 0:
            ctx.log("certified evaluation Eval_%d did not go through at 80 bits; retrying "
                    "goal by goal" % idx, vlib.tail(err, 3))
            try:
                classify_failed_eval(ctx, idx, info)
            except Exception as ex:
                ctx.log("retry raised", traceback.format_exc())
                ctx.broken.append("correspondence: retry of Eval_%d raised %r" % (idx, ex))
    ctx.cov["rule"] = (
        "direct: every odd N in the tier's list x basisM x basisN, with mass profile "
        "(constant / z-dependent / light), number of species, grid class, scale history "
        "(fresh, or two in-place rescalings compared with a fresh grid), polynomial degrees "
        "up to the exactness bound 2n-3; generic random deviations for sums/linearity/Tmunu; "
        "distinct = distinct configuration tuple; certified: grids driven through rescaling "
        "histories, all four moments by interval arithmetic")
    ctx.assumptions += [
        "substitution x = cos t:  int_{-1}^{1} sqrt(1-x^2) U_j(x) dx = (pi/2) [j=0]  (textbook; "
        "explicit premise of moments_exact_on_class_dx only; validated by adaptive "
        "quadrature for every j and through Polynomial.integrate against closed forms for "
        "every admissible degree)",
        "E > 0 at every node (mass^2 > 0, or N odd so that pz != 0)"]


def replay(rep):
    print(json.dumps(rep, indent=1, default=str))
    fails = []

    def fail(what, r, key=None):
        fails.append(what)
        print("FAILS:", what)
    ctx = types.SimpleNamespace(
        rng=__import__("random").Random(0), count=lambda *a, **k: None, quick=True,
        fail_input=fail)
    case = rep.get("case")
    if rep.get("kind") in ("exact", "not-nodal", "rescaled-vs-fresh") and case:
        check_exact(ctx, case)
    elif rep.get("kind") in ("generic", "linearity", "tmunu") and case:
        check_generic(ctx, case)
    elif rep.get("kind") == "gcl":
        check_gcl(ctx, [rep["N"]])
    print("replay: %d failing evaluations on the current tree" % len(fails))
    return 1 if fails else 0
