"""C13 -- out-of-equilibrium moments are the momentum integrals they are defined to be."""
import copy
import json
import math
import subprocess
import traceback
import types
from fractions import Fraction

import numpy as np

import gen_moments
import pyrx
import vlib

EXPLANATION = (
    "getDeltas is recognised statement by statement (anything outside the single-assignment "
    "subset stops the translator); its integrand weights, the nodal quadrature weights of "
    "Polynomial.integrate, the momentum maps / Jacobians / cached-coordinate state machine of "
    "Grid, the structural facts that make Grid3Scales inherit it and Grid3Scales' own momentum "
    "maps, the Polynomial operations applied to deltaF, plumbing facts (setBackground, "
    "particle lists) and the summands of EOM.deltaToTmunu are regenerated from the sources on "
    "every run. Coq proves, for every grid size, scale history, mass, velocity and deviation: "
    "the four weights are pp dpz dpp/(4 pi^2 E) times 1, pz^2, E^2, E pz; the cached "
    "Jacobians are the derivatives of the cached momentum maps at the CURRENT scale after any "
    "history (also on Grid3Scales); E > 0 at every node for m^2 >= 0 and odd N; the moments "
    "are the Gauss-Chebyshev-Lobatto sums, linear in deltaF; T30/T33 equal the sum of p^mu "
    "p^nu deltaF boosted with gamma(1,v) whatever mass the caller evaluates; weight "
    "multiplications act on nodal values; the rule is exact on sqrt(1-x^2) * (combination of "
    "U_0..U_{2n-3}) and each generated moment of a deviation in the class (or a combination of "
    "such) equals the product of the proved integrals int_0^pi sin^2 t q(cos t) dt. Model "
    "values are compared with the implementation by certified interval evaluation; the "
    "property is evaluated on the implementation with node data computed from the "
    "definitions, object histories (grid rescalings, solver re-use, implicit deltaF), "
    "massless species, and rounding bounds derived from the condition of each sum.")

SRC_FILES = ("grid.py", "polynomial.py", "boltzmann.py", "equationOfMotion.py", "helpers.py")
WEIGHTS = ("Delta00", "Delta02", "Delta20", "Delta11")


# ------------------------------------------------------------------------------------
# implementation-side helpers

MASSES = ("profile", "constant", "light", "massless", "halfwall")
# the harness's OWN record of what it put into the Particle / background objects
COUP = [0.5, 0.11, 0.9, 0.3, 0.7]
COUP2 = [0.0, 0.4, 0.25, 0.0, 0.6]
DOFS = [12, 9, 3, 6, 2]


def make_particles(nspecies, nfields=1):
    """species k has m^2 = g_k phi_0^2 (+ h_k phi_1^2 when the model has two fields): exactly
    massless wherever the fields vanish (symmetric side of a wall)"""
    import WallGo
    coup = COUP[:nspecies]
    coup2 = COUP2[:nspecies]
    dofs = DOFS[:nspecies]
    out = []
    for k, (g, h, d) in enumerate(zip(coup, coup2, dofs)):
        if nfields == 1:
            msq = (lambda phi, g=g: g * phi.getField(0) ** 2)
            dmsq = (lambda fields, g=g: np.transpose([2 * g * fields.getField(0)]))
        else:
            msq = (lambda phi, g=g, h=h: g * phi.getField(0) ** 2 + h * phi.getField(1) ** 2)
            dmsq = (lambda fields, g=g, h=h: np.transpose(
                [2 * g * fields.getField(0), 2 * h * fields.getField(1)]))
        out.append(WallGo.Particle(
            name="p%d" % k, index=k, msqVacuum=msq, msqDerivative=dmsq,
            statistics="Fermion" if k % 2 == 0 else "Boson", totalDOFs=d))
    return out


def make_background(M, mass, nfields=1, vshift=0.0):
    import WallGo
    v = -np.ones(M + 1) / np.sqrt(3) + 0.01 * np.sin(np.arange(M + 1)) + vshift
    x = np.linspace(-2, 2, M + 1)
    if mass == "constant":
        field = 80.0 * np.ones(M + 1)
    elif mass == "light":
        field = 0.05 * (2 + np.tanh(x))
    elif mass == "massless":
        field = np.zeros(M + 1)
    elif mass == "halfwall":          # exactly massless on the symmetric half of the wall
        field = 60.0 * np.maximum(0.0, np.tanh(x))
    else:
        field = 60.0 * (1 + np.tanh(x)) + 1.0
    cols = [field] if nfields == 1 else [field, 0.5 * field[::-1] if mass not in (
        "massless", "halfwall") else 0.5 * field]
    bg = WallGo.BoltzmannBackground(
        velocityMid=0.5 * (v[0] + v[-1]), velocityProfile=v,
        fieldProfiles=WallGo.Fields(np.array(cols).T),
        temperatureProfile=100 * np.ones(M + 1))
    # private copy of the profile: every oracle uses THIS, never the object handed to WallGo
    bg.c13_fields = np.array(cols).T.copy()
    return bg


def own_msq(bg, nspecies):
    """m^2 of species k at every z node (end points included), from the private copy"""
    f = bg.c13_fields
    out = []
    for k in range(nspecies):
        m = COUP[k] * f[:, 0] ** 2
        if f.shape[1] > 1:
            m = m + COUP2[k] * f[:, 1] ** 2
        out.append(m)
    return np.array(out)


G3_DEFAULT = (2.5, 3.0, 1.0, 0.0)       # tailIn, tailOut, wallThickness, wallCenter


def make_grid(kind, M, N, T0):
    import WallGo
    if kind == "Grid3Scales":
        return WallGo.Grid3Scales(M, N, 2.5, 3.0, 1.0, T0, 0.5)
    return WallGo.grid.Grid(M, N, 1.0, T0)


def apply_grid_op(grid, kind, op):
    """op = ("T", newScale) | ("pos", k): the k-th non-default position rescaling"""
    if op[0] == "T":
        grid.changeMomentumFalloffScale(op[1])
    elif kind == "Grid3Scales":
        k = op[1]
        grid.changePositionFalloffScale(2.5 + 0.7 * k, 3.0 + 0.4 * k, 1.0 + 0.1 * k,
                                        0.05 * k - 0.1)
    else:
        grid.changePositionFalloffScale(1.0 + 0.5 * op[1])


def history_of(cfg):
    """list of grid operations of a configuration (old replays carry `scales` only)"""
    if "hist" in cfg:
        return [tuple(o) for o in cfg["hist"]]
    return [("T", T) for T in cfg["scales"][1:]]


def make_solver(grid, particles, bg, basisM, basisN, derivatives="Spectral", collisions=0.0,
                seed=0):
    import WallGo
    from WallGo.collisionArray import CollisionArray
    solver = WallGo.BoltzmannSolver(grid, basisM, basisN, derivatives)
    solver.updateParticleList(particles)
    solver.setBackground(bg)
    coll = CollisionArray(grid, basisN, particles)
    c = coll.polynomialData.coefficients
    c[...] = 0.0 if not collisions else collisions * np.random.default_rng(
        seed).standard_normal(c.shape)
    solver.setCollisionArray(coll)
    return solver


def restricted_cheb(x, orders, restriction):
    from numpy.polynomial import chebyshev as npcheb
    cols = []
    for n in orders:
        tn = npcheb.chebval(x, [0] * n + [1])
        tn = tn - ((1 if n % 2 == 0 else x) if restriction == "full" else 1)
        cols.append(tn)
    return np.array(cols).T


def to_solver_repr(nodal, grid, basisM, basisN):
    """nodal values (P, M-1, N-1, N-1) -> coefficients in (basisM, basisN, basisN);
    independent of WallGo's own change of basis"""
    chi, rz, rp = grid.getCompactCoordinates()
    out = nodal
    if basisM == "Chebyshev":
        V = restricted_cheb(chi, range(2, grid.M + 1), "full")
        out = np.einsum("ni,aijk->anjk", np.linalg.inv(V), out)
    if basisN == "Chebyshev":
        Vz = restricted_cheb(rz, range(2, grid.N + 1), "full")
        Vp = restricted_cheb(rp, range(1, grid.N), "partial")
        out = np.einsum("nj,aijk->aink", np.linalg.inv(Vz), out)
        out = np.einsum("nk,aijk->aijn", np.linalg.inv(Vp), out)
    return out


def from_solver_repr(coeffs, grid, basisM, basisN):
    """values at the nodes of the function whose coefficients are `coeffs` (forward
    multiplication by the basis matrices; well conditioned, unlike the inverse above)"""
    chi, rz, rp = grid.getCompactCoordinates()
    out = coeffs
    if basisM == "Chebyshev":
        V = restricted_cheb(chi, range(2, grid.M + 1), "full")
        out = np.einsum("in,anjk->aijk", V, out)
    if basisN == "Chebyshev":
        Vz = restricted_cheb(rz, range(2, grid.N + 1), "full")
        Vp = restricted_cheb(rp, range(1, grid.N), "partial")
        out = np.einsum("jn,aink->aijk", Vz, out)
        out = np.einsum("kn,aijn->aijk", Vp, out)
    return out


def nodal_of(poly):
    poly = copy.deepcopy(poly)
    poly.changeBasis(("Array", "Cardinal"))
    return np.asarray(poly.coefficients, dtype=float)


def cheb_weight_moment(j):
    """int_{-1}^{1} sqrt(1-x^2) x^j dx"""
    if j % 2:
        return 0.0
    m = j // 2
    return math.pi * math.factorial(2 * m) / (2 ** (2 * m + 1) * math.factorial(m) *
                                              math.factorial(m + 1))


def poly_int(c):
    return sum(ck * cheb_weight_moment(j) for j, ck in enumerate(c))


EPS = float(np.finfo(float).eps)
# Rounding model of one evaluation: every node value carries a relative error of a few ulps
# per floating-point operation of the chain (maps, Jacobians, weights, basis products), so the
# computed moment differs from the exact sum by at most  C * eps * sum_nodes |weight|*bound(node)
# where bound(node) >= |nodal value| is the sum of ABSOLUTE products of the basis changes
# (this is the condition number of the quadrature sum times that of the basis change).
# C_ROUND counts operations: ~12 per node for maps/weights + the lengths of the three
# contractions; the factor 16 is the safety margin (measured: worst observed ratio < 1).
def c_round(grid):
    return 16.0 * (12 + grid.M + 2 * grid.N)


def own_maps(T, rz, rp):
    """the momentum maps and Jacobians written out from their definition
    pz = 2 T atanh(rho_z), pp = -T ln((1 - rho_par)/2)"""
    return (2 * T * np.arctanh(rz), -T * np.log((1 - rp) / 2),
            2 * T / (1 - rz ** 2), T / (1 - rp))


def physical(ctx, grid, particles, bg, case=None):
    """node data computed HERE from the definitions; the grid's own cached arrays are
    compared with them (an error in pz/pp would otherwise cancel out of the oracles)"""
    chi, rz, rp = grid.getCompactCoordinates()
    T = grid.momentumFalloffT
    N = grid.N
    pz, pp, dpz, dpp = own_maps(T, rz, rp)
    _, gpz, gpp = grid.getCoordinates()
    _, gdpz, gdpp = grid.getCompactificationDerivatives()
    rz_want = -np.cos(np.arange(1, N) * np.pi / N)
    rp_want = -np.cos(np.arange(0, N - 1) * np.pi / (N - 1))
    for nm, mine, theirs in (("pzValues", pz, gpz), ("ppValues", pp, gpp),
                             ("dpzdrz", dpz, gdpz), ("dppdrp", dpp, gdpp),
                             ("rzValues", rz_want, rz), ("rpValues", rp_want, rp)):
        theirs = np.asarray(theirs, dtype=float)
        ctx.count("grid_arrays")
        if theirs.shape != mine.shape or not np.all(
                np.abs(theirs - mine) <= 64 * EPS * (np.abs(mine) + T * 1e-3)):
            bad = int(np.argmax(np.abs(theirs - mine))) if theirs.shape == mine.shape else -1
            ctx.fail_input(
                "%s.%s[%d] = %r but the definition at momentumFalloffT=%g gives %r" % (
                    type(grid).__name__, nm, bad, float(theirs[bad]) if bad >= 0 else None,
                    T, float(mine[bad]) if bad >= 0 else None),
                dict(kind="grid-arrays", case=case, which=nm),
                key="grid-momentum-arrays:%s:%s" % (type(grid).__name__, nm))
    import WallGo
    msq_full = own_msq(bg, len(particles))
    msq = msq_full[:, 1:-1, None, None]
    theirs = np.array([np.asarray(p.msqVacuum(WallGo.Fields(bg.c13_fields.copy())), dtype=float)
                       for p in particles])
    dofs_theirs = [p.totalDOFs for p in particles]
    ctx.count("particle_data")
    if theirs.shape != msq_full.shape or not np.allclose(theirs, msq_full, rtol=8 * EPS,
                                                         atol=0) or \
            dofs_theirs != DOFS[:len(particles)]:
        ctx.fail_input("Particle objects do not return the masses / degrees of freedom they "
                       "were built with (dofs %s vs %s)" % (dofs_theirs, DOFS[:len(particles)]),
                       dict(kind="grid-arrays", case=case, which="particles"),
                       key="particle-data")
    pz4 = pz[None, None, :, None]
    pp4 = pp[None, None, None, :]
    energy = np.sqrt(msq + pz4 ** 2 + pp4 ** 2)
    wz = np.pi / N * np.sqrt(1 - rz ** 2) * dpz
    wp = np.pi / (N - 1) * np.sqrt(1 - rp ** 2) * dpp
    wp[0] *= 0.5
    meas = wz[None, None, :, None] * wp[None, None, None, :] * pp4 / (4 * np.pi ** 2 * energy)
    ws = dict(Delta00=np.ones_like(energy), Delta02=pz4 ** 2 * np.ones_like(energy),
              Delta20=energy ** 2, Delta11=energy * pz4)
    return types.SimpleNamespace(chi=chi, rz=rz, rp=rp, pz4=pz4, pp4=pp4, energy=energy,
                                 msq=msq, meas=meas, ws=ws, T=T, msq_full=msq_full,
                                 dofs=np.array(DOFS[:len(particles)], dtype=float))


def abs_bound(nodal_abs_or_coeffs, grid, basisM, basisN, is_coeffs):
    """upper bound of |value at each node| through absolute basis products"""
    if not is_coeffs:
        return np.abs(nodal_abs_or_coeffs)
    chi, rz, rp = grid.getCompactCoordinates()
    out = np.abs(nodal_abs_or_coeffs)
    if basisM == "Chebyshev":
        out = np.einsum("in,anjk->aijk", np.abs(restricted_cheb(
            chi, range(2, grid.M + 1), "full")), out)
    if basisN == "Chebyshev":
        out = np.einsum("jn,aink->aijk", np.abs(restricted_cheb(
            rz, range(2, grid.N + 1), "full")), out)
        out = np.einsum("kn,aijn->aijk", np.abs(restricted_cheb(
            rp, range(1, grid.N), "partial")), out)
    return out


def exact_family(ph, grid, A, B, gz):
    """deviations (one per weight) whose integrand is
    T0^3/pi^2 sqrt(1-rz^2) A(rz) sqrt(1-rp^2) B(rp) g(chi), and the closed form"""
    T0 = ph.T
    rz4 = ph.rz[None, None, :, None]
    rp4 = ph.rp[None, None, None, :]
    with np.errstate(divide="ignore", invalid="ignore"):
        base = (2 * ph.energy * (1 - rz4 ** 2) * (1 - rp4 ** 2)
                * np.sqrt((1 - rz4 ** 2) * (1 - rp4) ** 2 / (1 - rp4 ** 2))
                / np.log(2 / (1 - rp4)))
    base = np.where(np.isfinite(base), base, 0.0)   # pp = 0 has zero measure
    base = base * np.polyval(A[::-1], rz4) * np.polyval(B[::-1], rp4)
    g = gz(ph.chi)[None, :, None, None]
    closed = gz(ph.chi) * poly_int(A) * poly_int(B) * T0 ** 3 / math.pi ** 2
    return {k: g * base / w for k, w in ph.ws.items()}, closed


def rand_poly(rng, deg):
    return [rng.randint(-8, 8) / 4.0 for _ in range(deg + 1)]


def cfg_label(cfg):
    return "%s M=%d N=%d basisM=%s basisN=%s mass=%s fields=%d species=%d %s hist=%s" % (
        cfg["grid"], cfg["M"], cfg["N"], cfg["basisM"], cfg["basisN"], cfg["mass"],
        cfg.get("nfields", 1), cfg["species"], cfg.get("derivatives", "Spectral")[:8],
        [cfg["scales"][0]] + history_of(cfg))


# ------------------------------------------------------------------------------------
# direct validation

def check_exact(ctx, cfg):
    """moments of deviations in the exactness class vs closed forms, after every step of the
    grid's history (and against a fresh grid / a fresh solver)"""
    rng = ctx.rng
    nf = cfg.get("nfields", 1)
    particles = make_particles(cfg["species"], nf)
    bg = make_background(cfg["M"], cfg["mass"], nf)
    grid = make_grid(cfg["grid"], cfg["M"], cfg["N"], cfg["scales"][0])
    der = cfg.get("derivatives", "Spectral")
    if cfg.get("rebackground"):
        # production re-uses ONE solver: it saw another background (and produced moments for
        # it) before the one under test is installed
        other = make_background(cfg["M"], "constant" if cfg["mass"] != "constant" else
                                "profile", nf, vshift=0.05)
        solver = make_solver(grid, particles, other, cfg["basisM"], cfg["basisN"], der)
        solver.getDeltas(np.ones((len(particles), cfg["M"] - 1, cfg["N"] - 1,
                                  cfg["N"] - 1)))
        solver.setBackground(bg)
    else:
        solver = make_solver(grid, particles, bg, cfg["basisM"], cfg["basisN"], der)
    N = cfg["N"]
    if "A" in cfg:                      # replay
        A, B = list(cfg["A"]), list(cfg["B"])
    else:
        A = rand_poly(rng, min(cfg["degA"], 2 * N - 3))
        B = rand_poly(rng, max(0, min(cfg["degB"], 2 * (N - 1) - 3)))
        A[0] += 6.0
        B[0] += 6.0
        if cfg.get("sign", 1) < 0:          # closed forms of either sign
            A = [-a_ for a_ in A]
    if cfg.get("gzkind", 0):
        gz = (lambda chi: (1 - chi ** 2) * (0.5 * chi - 0.2))     # changes sign across z
    else:
        gz = (lambda chi: (1 - chi ** 2) * (1 + 0.5 * chi))
    case = dict(cfg, A=A, B=B)
    label = cfg_label(cfg)
    ok = True
    hist = [None] + history_of(cfg)
    for step, op in enumerate(hist):
        if op is not None:
            apply_grid_op(grid, cfg["grid"], op)
        tag = "fresh" if not step else ("rescaled" if any(
            o[0] == "T" for o in hist[1:step + 1]) else "repositioned")
        ph = physical(ctx, grid, particles, bg, case)
        devs, closed = exact_family(ph, grid, A, B, gz)
        fresh = None
        if step:
            fgrid = make_grid(cfg["grid"], cfg["M"], N, grid.momentumFalloffT)
            fresh = make_solver(fgrid, particles, bg, cfg["basisM"], cfg["basisN"], der)
        for name in WEIGHTS:
            deltaF = to_solver_repr(devs[name], grid, cfg["basisM"], cfg["basisN"])
            handed = deltaF.copy()
            res = solver.getDeltas(deltaF)
            deltas = res.Deltas
            got = nodal_of(getattr(deltas, name))
            raw = np.asarray(getattr(deltas, name).coefficients, dtype=float)
            ctx.count("exact_class", dict(case, step=step, name=name),
                      bucket="%s/%s/%s/N=%d/%s" % (cfg["basisM"][:4], cfg["basisN"][:4],
                                                    cfg["mass"], N, tag))
            if not (np.array_equal(handed, deltaF) and
                    np.array_equal(np.asarray(res.deltaF), handed)):
                ok = False
                ctx.fail_input("getDeltas changed the caller's deltaF / returns another "
                               "deltaF than it was given [%s]" % label,
                               dict(kind="exact", case=case, step=step, name=name),
                               key="deltaF-not-passed-through")
            # the oracle is the closed form; the (tiny) error made by MY conversion of the
            # nodal values into spectral coefficients is accounted for exactly
            mw = ph.meas * ph.ws[name]
            rep_err = from_solver_repr(handed, grid, cfg["basisM"], cfg["basisN"]) - devs[name]
            want = closed[None, :] + np.sum(mw * rep_err, axis=(2, 3))
            spectral = "Chebyshev" in (cfg["basisM"], cfg["basisN"])
            bound = abs_bound(handed if spectral else devs[name], grid, cfg["basisM"],
                              cfg["basisN"], spectral)
            tol = c_round(grid) * EPS * np.sum(np.abs(mw) * bound, axis=(2, 3))
            excess = np.abs(got - want) / tol
            ctx.cov.setdefault("worst_rounding_ratio", 0.0)
            if np.all(np.isfinite(excess)):
                ctx.cov["worst_rounding_ratio"] = max(ctx.cov["worst_rounding_ratio"],
                                                      float(np.max(excess)))
            if not np.all(excess <= 1.0):
                a, i = np.unravel_index(np.argmax(np.where(np.isfinite(excess), excess,
                                                           np.inf)), got.shape)
                ok = False
                ctx.fail_input(
                    "%s(particle %d, z_%d) = %.12g but the momentum integral is %.12g "
                    "(m^2 = %.6g there; allowed rounding %.3g) [%s step %d]" % (
                        name, a, i, got[a, i], closed[i], float(ph.msq[a, i, 0, 0]),
                        float(tol[a, i]), label, step),
                    dict(kind="exact", case=case, step=step, name=name,
                         got=float(got[a, i]), want=float(closed[i])),
                    key="moment-not-integral:%s:%s%s" % (
                        tag, cfg["basisM"], ":rebackground" if cfg.get("rebackground")
                        else ""))
            # deltaToTmunu reads .coefficients as nodal values
            if not np.all(np.abs(raw - got) <= tol):
                ok = False
                ctx.fail_input(
                    "returned %s.coefficients are not the nodal values (basis %s) "
                    "[%s]" % (name, getattr(deltas, name).basis, label),
                    dict(kind="not-nodal", case=case, step=step, name=name),
                    key="deltas-not-nodal:%s" % cfg["basisM"])
            if fresh is not None:
                y = np.asarray(getattr(fresh.getDeltas(handed.copy()).Deltas,
                                       name).coefficients, dtype=float)
                ctx.count("rescaled_vs_fresh")
                if not np.all(np.abs(raw - y) <= tol):
                    ok = False
                    ctx.fail_input(
                        "%s on the grid with history %s differs from a fresh grid at T0=%g "
                        "by a factor %.6g [%s]" % (name, hist[1:step + 1],
                                                   grid.momentumFalloffT,
                                                   np.ravel(raw)[0] / np.ravel(y)[0], label),
                        dict(kind="rescaled-vs-fresh", case=case, step=step, name=name),
                        key="rescaled-differs-from-fresh")
    return ok


def real_eom(solver):
    """an EOM object whose `particles` is bound as EOM.__init__ binds it (the generator
    checks that statement); deltaToTmunu is then called as a bound method"""
    import WallGo
    eom = object.__new__(WallGo.EOM)
    eom.boltzmannSolver = solver
    eom.particles = solver.offEqParticles
    eom.grid = solver.grid
    return eom


def check_generic(ctx, cfg):
    """random deviations (NOT in the exactness class) of widely different magnitudes: moments
    vs the quadrature sums written out from the definitions; linearity, also through the
    BoltzmannResults / BoltzmannDeltas arithmetic production uses; re-use of the solver with a
    second background; deltaToTmunu (bound method) vs boosted direct sums"""
    import WallGo
    from WallGo import BoltzmannDeltas, Polynomial
    from WallGo.results import BoltzmannResults
    rng = np.random.default_rng(ctx.rng.randint(0, 2 ** 31))
    nf = cfg.get("nfields", 1)
    particles = make_particles(cfg["species"], nf)
    bg = make_background(cfg["M"], cfg["mass"], nf)
    N, M = cfg["N"], cfg["M"]
    grid = make_grid(cfg["grid"], M, N, cfg["scales"][0])
    der = cfg.get("derivatives", "Spectral")
    solver = make_solver(grid, particles, bg, cfg["basisM"], cfg["basisN"], der)
    for op in history_of(cfg):
        apply_grid_op(grid, cfg["grid"], op)
    case = dict(cfg, seed_note="numpy default_rng from ctx.rng")
    label = cfg_label(cfg)
    ph = physical(ctx, grid, particles, bg, case)
    P = len(particles)
    shape = (P, M - 1, N - 1, N - 1)
    mag_f, mag_g = 10.0 ** rng.uniform(-6, 6, 2)
    f = mag_f * rng.standard_normal(shape)
    g = mag_g * rng.standard_normal(shape)
    a, b = rng.choice([1.75, -0.625, 3e-5, -2e4], 2, replace=False)
    spectral = "Chebyshev" in (cfg["basisM"], cfg["basisN"])
    ok = True
    tag = "rescaled" if any(o[0] == "T" for o in history_of(cfg)) else "fresh"

    def tol_for(nodal, name, phys):
        cf = to_solver_repr(nodal, grid, cfg["basisM"], cfg["basisN"])
        bound = abs_bound(cf if spectral else nodal, grid, cfg["basisM"], cfg["basisN"],
                          spectral)
        return cf, c_round(grid) * EPS * np.sum(np.abs(phys.meas * phys.ws[name]) * bound,
                                               axis=(2, 3))

    def compare(res, nodal, phys, what, keytag):
        good = True
        for name in WEIGHTS:
            x = np.asarray(getattr(res.Deltas, name).coefficients, dtype=float)
            direct = np.sum(phys.meas * phys.ws[name] * nodal, axis=(2, 3))
            _, tol = tol_for(nodal, name, phys)
            ctx.count("generic_sum", dict(case, name=name, what=what),
                      bucket="%s/%s/%s" % (cfg["basisM"][:4], cfg["basisN"][:4], what))
            if not np.all(np.abs(x - direct) <= tol):
                good = False
                i = np.unravel_index(np.argmax(np.abs(x - direct) / tol), x.shape)
                ctx.fail_input(
                    "%s%s = %.12g but sum of measure*weight*deltaF = %.12g (%s; m^2 = %.6g "
                    "there) [%s]" % (name, tuple(int(t) for t in i), x[i], direct[i], what,
                                     float(phys.msq[i[0], i[1], 0, 0]), label),
                    dict(kind="generic", case=case, name=name, what=what),
                    key="moment-not-sum:%s:%s%s" % (tag, cfg["basisM"], keytag))
        return good
    cf_f = to_solver_repr(f, grid, cfg["basisM"], cfg["basisN"])
    cf_g = to_solver_repr(g, grid, cfg["basisM"], cfg["basisN"])
    # every oracle below is computed from copies frozen BEFORE WallGo sees the arrays
    frozen_f, frozen_g = cf_f.copy(), cf_g.copy()
    f_rt = from_solver_repr(frozen_f, grid, cfg["basisM"], cfg["basisN"])
    g_rt = from_solver_repr(frozen_g, grid, cfg["basisM"], cfg["basisN"])
    Rf, Rg = solver.getDeltas(cf_f), solver.getDeltas(cf_g)
    Rh = solver.getDeltas(a * frozen_f + b * frozen_g)

    def passed_through(where):
        if np.array_equal(cf_f, frozen_f) and np.array_equal(cf_g, frozen_g) and \
                np.array_equal(np.asarray(Rf.deltaF), frozen_f):
            return True
        ctx.fail_input("getDeltas changed the caller's deltaF / returns another deltaF than "
                       "it was given (%s) [%s]" % (where, label),
                       dict(kind="generic", case=case, name="deltaF", what=where),
                       key="deltaF-not-passed-through")
        cf_f[...] = frozen_f
        cf_g[...] = frozen_g
        return False
    ok &= passed_through("first calls")
    ok &= compare(Rf, f_rt, ph, "first background", "")
    # ---- linearity, directly and through the results arithmetic ---------------------------
    Rc = a * Rf + b * Rg                     # BoltzmannResults.__rmul__/__add__
    Rc2 = solver.getDeltas(Rc.deltaF)
    for name in WEIGHTS:
        xf, xg, xh, xc, xc2 = (np.asarray(getattr(R.Deltas, name).coefficients, dtype=float)
                               for R in (Rf, Rg, Rh, Rc, Rc2))
        _, tf = tol_for(f_rt, name, ph)
        _, tg = tol_for(g_rt, name, ph)
        tol = 2 * (abs(a) * tf + abs(b) * tg)
        ctx.count("linearity")
        for what, lhs in (("getDeltas(a f + b g)", xh), ("(a R_f + b R_g).Deltas", xc),
                          ("getDeltas((a R_f + b R_g).deltaF)", xc2)):
            if not np.all(np.abs(lhs - (a * xf + b * xg)) <= tol):
                ok = False
                ctx.fail_input("%s: %s differs from a*%s(f) + b*%s(g) (a=%g, b=%g, |f|~%.1e, "
                               "|g|~%.1e) [%s]" % (name, what, name, name, a, b, mag_f, mag_g,
                                                   label),
                               dict(kind="linearity", case=case, name=name, what=what),
                               key="not-linear")
    # the initial iterate of production: four Deltas sharing ONE zero polynomial
    zero = Polynomial(np.zeros((P, M - 1)), grid, direction=("Array", "z"),
                      basis=("Array", "Cardinal"))
    R0 = BoltzmannResults(deltaF=np.zeros(shape), Deltas=BoltzmannDeltas(
        Delta00=zero, Delta02=zero, Delta20=zero, Delta11=zero), truncationError=0.0,
        linearizationCriterion1=np.zeros(P), linearizationCriterion2=np.zeros(P))
    mult = 0.375
    Rm = mult * Rf + (1 - mult) * R0
    ctx.count("results_arithmetic")
    for name in WEIGHTS:
        xm = np.asarray(getattr(Rm.Deltas, name).coefficients, dtype=float)
        xf = np.asarray(getattr(Rf.Deltas, name).coefficients, dtype=float)
        if not (np.allclose(xm, mult * xf, rtol=8 * EPS, atol=0) and
                np.all(zero.coefficients == 0)):
            ok = False
            ctx.fail_input("%s of multiplier*R + (1-multiplier)*R0 is not multiplier*%s(R) "
                           "(or the shared zero polynomial was modified) [%s]" % (
                               name, name, label),
                           dict(kind="generic", case=case, name=name, what="mixing"),
                           key="results-mixing")
    # ---- the same solver with a second background ---------------------------------------------
    other_mass = MASSES[(MASSES.index(cfg["mass"]) + 1 + cfg["N"] // 2) % len(MASSES)]
    if other_mass == cfg["mass"]:
        other_mass = "profile" if cfg["mass"] != "profile" else "halfwall"
    bg2 = make_background(M, other_mass, nf, vshift=-0.04)
    solver.setBackground(bg2)
    ph2 = physical(ctx, grid, particles, bg2, case)
    R2 = solver.getDeltas(cf_f)
    ok &= compare(R2, f_rt, ph2, "second background (%s) on the same solver" % other_mass,
                  ":rebackground")
    # the installed background is the solver's OWN copy: editing the caller's object in place
    # afterwards (Fields.setField, re-used buffers) must not reach the moments
    ctx.count("background_aliasing")
    shared = [nm for nm in ("fieldProfiles", "velocityProfile", "temperatureProfile")
              if np.shares_memory(np.asarray(getattr(solver.background, nm)),
                                  np.asarray(getattr(bg2, nm)))]
    bg2.fieldProfiles[...] = 7.0 + np.arange(bg2.fieldProfiles.shape[0])[:, None]
    np.asarray(bg2.velocityProfile)[...] = -0.2
    np.asarray(bg2.temperatureProfile)[...] = 55.0
    R2b = solver.getDeltas(cf_f)
    same = all(np.array_equal(getattr(R2b.Deltas, nm).coefficients,
                              getattr(R2.Deltas, nm).coefficients) for nm in WEIGHTS)
    if shared or not same:
        ok = False
        x2 = float(np.ravel(R2.Deltas.Delta20.coefficients)[0])
        x2b = float(np.ravel(R2b.Deltas.Delta20.coefficients)[0])
        ctx.fail_input(
            "the background installed by setBackground shares memory with the caller's "
            "object (%s): after editing the caller's profiles in place Delta20[0,0] went "
            "from %.12g to %.12g [%s]" % (shared or "no array reported by shares_memory", x2,
                                         x2b, label),
            dict(kind="generic", case=case, name="Delta20", what="aliasing"),
            key="background-aliased")
    ok &= passed_through("second background")
    solver.setBackground(bg)
    R3 = solver.getDeltas(cf_f)
    for name in WEIGHTS:
        if not np.array_equal(getattr(R3.Deltas, name).coefficients,
                              getattr(Rf.Deltas, name).coefficients):
            ok = False
            ctx.fail_input("%s depends on the backgrounds the solver saw before [%s]" % (
                name, label), dict(kind="generic", case=case, name=name, what="history"),
                key="solver-history")
    # ---- T30 / T33 through the bound method, mass taken at the CALLER's field point ------------
    vMid = cfg["v"]
    u0 = 1 / math.sqrt(1 - vMid ** 2)
    u3 = u0 * vMid
    eom = real_eom(solver)
    p0 = u0 * ph.energy + u3 * ph.pz4
    p3 = u3 * ph.energy + u0 * ph.pz4
    dofs = ph.dofs[:, None]
    for which, R, nodal, coef in (("getDeltas(f)", Rf, f_rt, 1.0),
                                  ("a R_f + b R_g", Rc, None, None)):
        if nodal is None:
            nodal = from_solver_repr(Rc.deltaF, grid, cfg["basisM"], cfg["basisN"])
        bound = abs_bound(to_solver_repr(nodal, grid, cfg["basisM"], cfg["basisN"])
                          if spectral else nodal, grid, cfg["basisM"], cfg["basisN"], spectral)
        if which != "getDeltas(f)":
            bound = abs(a) * abs_bound(frozen_f if spectral else f_rt, grid, cfg["basisM"],
                                       cfg["basisN"], spectral) + \
                abs(b) * abs_bound(frozen_g if spectral else g_rt, grid, cfg["basisM"],
                                   cfg["basisN"], spectral)
        T30ref = np.sum(dofs * np.sum(ph.meas * p3 * p0 * nodal, axis=(2, 3)), axis=0)
        T33ref = np.sum(dofs * np.sum(ph.meas * p3 * p3 * nodal, axis=(2, 3)), axis=0)
        # the code assembles T from the four moments with coefficients <= 3 u0^2 + ...
        amp = 4 * (u0 + abs(u3)) ** 2
        sc = amp * c_round(grid) * EPS * np.sum(dofs * np.sum(
            np.abs(ph.meas) * (ph.energy ** 2 + ph.pz4 ** 2 + ph.msq) * bound,
            axis=(2, 3)), axis=0)
        for index in range(M - 1):
            for src, fp in (("own", WallGo.Fields(bg.c13_fields.copy()).getFieldPoint(
                                index + 1)),
                            ("other", WallGo.Fields(bg2.c13_fields.copy()).getFieldPoint(
                                (index + 2) % (M + 1)))):
                T30, T33 = eom.deltaToTmunu(index, fp, vMid, R.Deltas)
                T30, T33 = float(np.ravel(T30)[0]), float(np.ravel(T33)[0])
                ctx.count("tmunu", dict(case, index=index, src=src, which=which))
                msq_call = (ph.msq_full[:, index + 1] if src == "own" else
                            ph2.msq_full[:, (index + 2) % (M + 1)])
                extra = amp * c_round(grid) * EPS * float(np.sum(
                    dofs[:, 0] * msq_call * np.sum(np.abs(ph.meas) * bound,
                                                   axis=(2, 3))[:, index]))
                for nm, x, y in (("T30", T30, T30ref[index]), ("T33", T33, T33ref[index])):
                    if not abs(x - y) <= sc[index] + extra:
                        ok = False
                        ctx.fail_input(
                            "%s(z_%d) = %.12g but the boosted direct sum of p^mu p^nu deltaF "
                            "is %.12g [v=%g, Deltas of %s, mass at the %s field point; %s]" % (
                                nm, index, x, y, vMid, which, src, label),
                            dict(kind="tmunu", case=case, index=index, which=nm, got=x,
                                 want=y), key="tmunu:%s:%s" % (nm, cfg["basisM"]))
    return ok


def check_implicit(ctx, cfg):
    """the production call path: getDeltas() with NO argument on a solver with non-zero
    collisions (solveBoltzmannEquations supplies deltaF); the moments must be the sums of the
    deltaF that is returned with them"""
    rng = np.random.default_rng(ctx.rng.randint(0, 2 ** 31))
    nf = cfg.get("nfields", 1)
    particles = make_particles(cfg["species"], nf)
    bg = make_background(cfg["M"], cfg["mass"], nf)
    grid = make_grid(cfg["grid"], cfg["M"], cfg["N"], cfg["scales"][0])
    der = cfg.get("derivatives", "Spectral")
    solver = make_solver(grid, particles, bg, cfg["basisM"], cfg["basisN"], der,
                         collisions=1e-3, seed=int(rng.integers(1 << 30)))
    for op in history_of(cfg):
        apply_grid_op(grid, cfg["grid"], op)
    case = dict(cfg, implicit=True)
    label = cfg_label(cfg)
    ph = physical(ctx, grid, particles, bg, case)
    res = solver.getDeltas()
    ctx.count("implicit_deltaF", case, bucket=der[:8])
    if not np.all(np.isfinite(res.deltaF)):
        # judged, not skipped: no generated configuration is singular on the unchanged tree
        ctx.fail_input("getDeltas() [no argument] returned a non-finite deltaF [%s]" % label,
                       dict(kind="implicit", case=case, name="deltaF"),
                       key="implicit-non-finite")
        return False
    handed = np.array(res.deltaF, dtype=float, copy=True)
    nodal = from_solver_repr(handed, grid, cfg["basisM"], cfg["basisN"])
    spectral = "Chebyshev" in (cfg["basisM"], cfg["basisN"])
    bound = abs_bound(handed if spectral else nodal, grid, cfg["basisM"], cfg["basisN"],
                      spectral)
    again = solver.getDeltas(res.deltaF)
    ok = True
    if not (np.array_equal(np.asarray(res.deltaF), handed) and
            np.array_equal(np.asarray(again.deltaF), handed)):
        ok = False
        ctx.fail_input("getDeltas changed the deltaF it was given [%s]" % label,
                       dict(kind="implicit", case=case, name="deltaF"),
                       key="deltaF-not-passed-through")
    for name in WEIGHTS:
        x = np.asarray(getattr(res.Deltas, name).coefficients, dtype=float)
        direct = np.sum(ph.meas * ph.ws[name] * nodal, axis=(2, 3))
        tol = c_round(grid) * EPS * np.sum(np.abs(ph.meas * ph.ws[name]) * bound, axis=(2, 3))
        if not np.all(np.abs(x - direct) <= tol) or not np.array_equal(
                x, getattr(again.Deltas, name).coefficients):
            ok = False
            i = np.unravel_index(np.argmax(np.abs(x - direct) / tol), x.shape)
            ctx.fail_input(
                "getDeltas() [no argument]: %s%s = %.12g but the sum over the returned deltaF "
                "is %.12g [%s]" % (name, tuple(int(t) for t in i), x[i], direct[i], label),
                dict(kind="implicit", case=case, name=name),
                key="implicit-moment-not-sum:%s" % cfg["basisM"])
    return ok


PSPACE_LIMITS = {   # relative error allowed (measured on the unchanged tree: 6-10x smaller)
    "massive": {11: 1e-3, 21: 1e-5, 35: 3e-7},
    "massless": {11: 0.1, 21: 1e-2, 35: 2e-3}}   # 1/E cusp at p = 0: algebraic convergence


def check_pspace(ctx, T0s):
    """the clause 'momentum-space integral', measured: for a smooth deviation that is NOT in
    the exactness class, getDeltas converges (N = 11, 21, 35) to the integral over (pz, pp)
    of pp/(4 pi^2 E) * weight * deltaF computed by adaptive cubature in MOMENTUM space (no
    compact coordinates, no Jacobians of ours)"""
    import WallGo
    from scipy.integrate import dblquad
    M = 3
    for T0 in T0s:
        phi = np.array([0.0, 0.0, 1.2 * T0, 1.2 * T0])

        def df(pz, pp, msq):
            E = np.sqrt(msq + pz ** 2 + pp ** 2)
            return np.exp(-4 * E / T0) * (1 + 0.3 * pz / T0) * (pp / T0) ** 2
        msqs = COUP[0] * phi[1:-1] ** 2
        wfun = dict(Delta00=lambda E, pz: 1.0, Delta02=lambda E, pz: pz ** 2,
                    Delta20=lambda E, pz: E ** 2, Delta11=lambda E, pz: E * pz)
        ref = {}
        for iz, m in enumerate(msqs):
            for name, w in wfun.items():
                def integrand(pp_, pz_, m=m, w=w):
                    E = np.sqrt(m + pz_ ** 2 + pp_ ** 2)
                    return pp_ / (4 * np.pi ** 2 * E) * w(E, pz_) * df(pz_, pp_, m)
                ref[(iz, name)] = dblquad(integrand, -60 * T0, 60 * T0, 0, 60 * T0,
                                          epsabs=0, epsrel=1e-10)[0]
        prev = {}
        for N in (11, 21, 35):
            grid = WallGo.Grid3Scales(M, N, 2.5, 3.0, 1.0, T0, 0.5)
            particles = make_particles(1)
            bg = WallGo.BoltzmannBackground(
                velocityMid=-0.5, velocityProfile=-0.5 * np.ones(M + 1),
                fieldProfiles=WallGo.Fields(phi[:, None].copy()),
                temperatureProfile=T0 * np.ones(M + 1))
            solver = make_solver(grid, particles, bg, "Cardinal", "Cardinal")
            pz, pp, _, _ = own_maps(T0, *grid.getCompactCoordinates()[1:])
            dF = np.array([[df(pz[:, None], pp[None, :], m) for m in msqs]])
            D = solver.getDeltas(dF).Deltas
            for iz, m in enumerate(msqs):
                kind = "massless" if m == 0 else "massive"
                for name in WEIGHTS:
                    got = float(getattr(D, name).coefficients[0, iz])
                    err = abs(got / ref[(iz, name)] - 1)
                    ctx.count("pspace_convergence", dict(T0=T0, N=N, kind=kind, name=name),
                              bucket="%s/N=%d" % (kind, N))
                    lim = PSPACE_LIMITS[kind][N]
                    worse = (iz, name) in prev and err > 0.5 * prev[(iz, name)] and \
                        err > 1e-9
                    if not err <= lim or worse:
                        ctx.fail_input(
                            "%s (%s species, T0=%g, N=%d) = %.10g but the momentum-space "
                            "integral is %.10g: relative error %.2e (allowed %.0e%s)" % (
                                name, kind, T0, N, got, ref[(iz, name)], err, lim,
                                "; not converging: N=%d gave %.2e" % (
                                    {21: 11, 35: 21}.get(N, N), prev.get((iz, name), 0))
                                if worse else ""),
                            dict(kind="pspace", T0=T0, N=N, name=name, got=got,
                                 want=ref[(iz, name)]), key="pspace-integral:%s" % kind)
                    prev[(iz, name)] = err


def check_U_orthogonality(ctx, jmax):
    """the named hypothesis of moments_exact_on_class, by adaptive quadrature:
    int_{-1}^{1} sqrt(1-x^2) U_j(x) dx = (pi/2) [j = 0]"""
    from scipy.integrate import quad
    from scipy.special import eval_chebyu
    for j in range(jmax + 1):
        val, est = quad(lambda t: math.sin(t) ** 2 * eval_chebyu(j, math.cos(t)), 0, math.pi,
                        limit=400, epsabs=1e-13, epsrel=1e-13)
        want = math.pi / 2 if j == 0 else 0.0
        ctx.count("hyp_U_orthogonality", dict(j=j))
        # the integrand is a trigonometric polynomial bounded by 1: the adaptive rule's own
        # error estimate (requested 1e-13) is the tolerance, with a floor of 1e-11
        if abs(val - want) > max(100 * est, 1e-11):
            ctx.broken.append("hypothesis chebU_weight_integral fails numerically at j=%d "
                              "(%.3e)" % (j, val - want))


def check_gcl(ctx, N_list):
    """hypothesis validation: Polynomial.integrate along pz / pp on sqrt(1-x^2) x^j is exact
    for j <= 2n-3 (n = N resp. N-1), for every admissible j"""
    import WallGo
    from WallGo import Polynomial
    for N in N_list:
        grid = make_grid("Grid", 3, N, 1.0)
        for direction, n in (("pz", N), ("pp", N - 1)):
            x = grid.getCompactCoordinates(False, direction)
            for j in range(0, max(0, 2 * n - 3) + 1):
                F = np.sqrt(1 - x ** 2) * x ** j
                got = Polynomial(F, grid, ("Cardinal",), (direction,), (False,)).integrate()
                want = cheb_weight_moment(j)
                ctx.count("gcl_exact", dict(N=N, direction=direction, j=j),
                          bucket="%s" % direction)
                if not abs(got - want) <= 1e-12 * max(1.0, n):
                    ctx.fail_input(
                        "Polynomial.integrate(%s, N=%d) of sqrt(1-x^2) x^%d = %.15g, exact "
                        "%.15g" % (direction, N, j, got, want),
                        dict(kind="gcl", N=N, direction=direction, j=j, got=float(got),
                             want=want), key="gcl-not-exact:%s" % direction)


# ------------------------------------------------------------------------------------
# correspondence: model vs implementation

EVAL_HDR = """From Coq Require Import Reals Lra List Arith.
From Interval Require Import Tactic.
From WG Require Import Lib.NumpySem Lib.Moments.
From GenC13 Require Import MomentsGen Props_C13.
Import ListNotations.
Local Open Scope R_scope.
Definition s00 := mk_gst 0 0 (fun _ => 0) (fun _ => 0) (fun _ => 0) (fun _ => 0)
                         (fun _ => 0) (fun _ => 0).
Definition s1 := fold_left gstep [%s] (grid_init %s %s s00).
Definition f (x y : R) : R := %s + %s * x + %s * y + %s * x * y.
(* the state is peeled with the proved invariant, not by unfolding nested updates *)
Lemma HT : s_momentumFalloffT s1 = %s.
Proof. unfold s1. rewrite history_scale, init_scale. reflexivity. Qed.
Lemma Hc : cache_current s1.
Proof. apply history_current. apply init_current. Qed.
Lemma Epz r : s_pzValues s1 r = pz_of %s r.
Proof. rewrite <- HT. exact (proj1 (Hc r)). Qed.
Lemma Epp r : s_ppValues s1 r = pp_of %s r.
Proof. rewrite <- HT. exact (proj1 (proj2 (Hc r))). Qed.
Lemma Edz r : s_dpzdrz s1 r = dpz_of %s r.
Proof. rewrite <- HT. exact (proj1 (proj2 (proj2 (Hc r)))). Qed.
Lemma Edp r : s_dppdrp s1 r = dpp_of %s r.
Proof. rewrite <- HT. exact (proj2 (proj2 (proj2 (Hc r)))). Qed.
Ltac prep :=
  unfold gd_moment_Delta00, gd_moment_Delta02, gd_moment_Delta20, gd_moment_Delta11, sumf;
  cbn [sumn rz_lo rz_hi rp_lo rp_hi Nat.sub Nat.add Nat.eqb];
  rewrite ?Epz, ?Epp, ?Edz, ?Edp;
  unfold pz_of, pp_of, dpz_of, dpp_of, g_decompactify, g_compactificationDerivatives;
  cbn [fst snd g_momentumFalloffT g_positionFalloff];
  unfold w_Delta00, w_Delta02, w_Delta20, w_Delta11, intNodeWeight_pz, intNodeWeight_pp,
         rzNode, rpNode, f, atanh_R;
  cbn [INR].
Ltac ev := prep; interval with (i_prec 80).
Ltac ev_hi := prep; interval with (i_prec 200).
"""


def eval_case(ctx, idx, N, ops, coeffs, fieldval, kind="Grid"):
    """one certified-evaluation file: a real grid driven through `ops`, a bilinear nodal
    deviation with dyadic coefficients, all four moments of getDeltas"""
    M = 3
    particles = make_particles(1)
    import WallGo
    v = -np.ones(M + 1) / np.sqrt(3)
    bg = WallGo.BoltzmannBackground(
        velocityMid=float(v[0]), velocityProfile=v,
        fieldProfiles=WallGo.Fields(np.full((M + 1, 1), float(fieldval))),
        temperatureProfile=100 * np.ones(M + 1))
    bg.c13_fields = np.full((M + 1, 1), float(fieldval))
    L0, T0 = ops[0][1], ops[0][2]
    if kind == "Grid3Scales":
        grid = WallGo.Grid3Scales(M, N, 2.5 + 3 * float(L0), 3.0 + 3 * float(L0), float(L0),
                                  float(T0), 0.5)
    else:
        grid = WallGo.grid.Grid(M, N, float(L0), float(T0))
    terms, Tcur = [], T0
    for op in ops[1:]:
        if op[0] == "momentum":
            grid.changeMomentumFalloffScale(float(op[1]))
            terms.append("OpMomentum %s" % pyrx.rlit(op[1]))
            Tcur = op[1]
        elif kind == "Grid3Scales":
            apply_grid_op(grid, kind, ("pos", int(op[1])))
            terms.append("OpPosition3")
        else:
            grid.changePositionFalloffScale(float(op[1]))
            terms.append("OpPosition %s" % pyrx.rlit(op[1]))
    solver = make_solver(grid, particles, bg, "Cardinal", "Cardinal")
    _, rz, rp = grid.getCompactCoordinates()
    a, b, c, d = [float(x) for x in coeffs]
    f = a + b * rz[:, None] + c * rp[None, :] + d * rz[:, None] * rp[None, :]
    dF = np.broadcast_to(f, (1, M - 1, N - 1, N - 1)).copy()
    D = solver.getDeltas(dF).Deltas
    msq = Fraction(float(particles[0].msqVacuum(bg.fieldProfiles)[1]))
    # natural scale of each moment: the sum of the ABSOLUTE values of its terms (the result
    # itself may vanish by cancellation, e.g. Delta11 of a pz-even deviation)
    ph = physical(ctx, grid, particles, bg, dict(certified=True, N=N))
    meas, ws = ph.meas, ph.ws
    goals, rows, specs = [], [], []
    for name in WEIGHTS:
        y = float(getattr(D, name).coefficients[0, 0])
        q = Fraction(y)
        scale = float(np.sum(np.abs(meas * ws[name] * f[None, None, :, :])[0, 0]))
        tol = Fraction(scale) * Fraction(1, 10 ** 9) + Fraction(1, 10 ** 12)
        term = "gd_moment_%s s1 %d %s f - %s" % (name, N, pyrx.rlit(msq), pyrx.rlit(q))
        goals.append("Goal Rabs (%s) <= %s.\nProof. ev. Qed." % (term, pyrx.rlit(tol)))
        rows.append((name, y))
        specs.append((name, term, pyrx.rlit(tol)))
    hdr = EVAL_HDR % ("; ".join(terms), pyrx.rlit(L0), pyrx.rlit(T0),
                      *[pyrx.rlit(Fraction(x)) for x in coeffs],
                      *([pyrx.rlit(Tcur)] * 5))
    path = ctx.write("Cases/Eval_%d.v" % idx, hdr + "\n".join(goals) + "\n")
    return path, dict(N=N, grid=kind, ops=[list(map(str, o)) for o in ops],
                      coeffs=[str(c) for c in coeffs], msq=str(msq), values=rows,
                      hdr=hdr, specs=specs)


def classify_failed_eval(ctx, idx, info):
    """A failed `interval` run proves nothing.  Each goal of the file is retried alone at
    200 bits, together with its REFUTATION (tol < |model - impl|).  Only a certified
    refutation is a broken correspondence; if neither side can be certified the case is
    recorded as inconclusive and never becomes a violation."""
    jobs = []
    for name, term, tol in info["specs"]:
        for kind, goal in (("claim", "Rabs (%s) <= %s" % (term, tol)),
                           ("refute", "%s < Rabs (%s)" % (tol, term))):
            pth = ctx.write("Cases/Retry_%d_%s_%s.v" % (idx, name, kind),
                            info["hdr"] + "Goal %s.\nProof. ev_hi. Qed.\n" % goal)
            jobs.append((name, kind, subprocess.Popen(
                ["timeout", "900", "coqc"] + ctx.coq_args() + [pth], cwd=ctx.bdir,
                stdout=subprocess.PIPE, stderr=subprocess.PIPE, text=True)))
    res = {}
    for name, kind, pr in jobs:
        pr.communicate()
        res[(name, kind)] = pr.returncode == 0
    for name, _, _ in info["specs"]:
        if res[(name, "claim")]:
            ctx.count("certified_eval_retry_ok")
        elif res[(name, "refute")]:
            ctx.broken.append("correspondence: certified MISMATCH model vs getDeltas for %s "
                              "(Eval_%d)" % (name, idx))
            ctx.log("certified mismatch", name, json.dumps(
                {k: v for k, v in info.items() if k not in ("hdr", "specs")}))
        else:
            ctx.count("certified_eval_inconclusive")
            ctx.log("certified evaluation inconclusive (not a violation)", name,
                    json.dumps({k: v for k, v in info.items() if k not in ("hdr", "specs")}))


def basis_trace_cases(ctx, facts):
    """run the generated operation list on a real Polynomial and compare poly.basis after
    every operation with the model's trace (exact, vm_compute)"""
    from WallGo import Polynomial
    import re
    grid = make_grid("Grid", 4, 3, 1.0)
    coq = {"Array": "BArray", "Cardinal": "BCardinal", "Chebyshev": "BChebyshev"}
    cases, meta = [], []
    for bM in ("Cardinal", "Chebyshev"):
        for bN in ("Cardinal", "Chebyshev"):
            poly, obs = None, []
            for op in facts["ops"]:
                kind, arg = op.split(" ", 1)
                if kind == "PIntegrate":
                    axes = tuple(int(x) for x in re.findall(r"(\d+)%nat", arg))
                    poly.integrate(axes, 1.0)
                else:
                    names = [{"BArray": "Array", "BCardinal": "Cardinal",
                              "BChebyshev": "Chebyshev", "bM": bM, "bN": bN}[t.strip()]
                             for t in arg.strip("[]").split(";")]
                    if kind == "PNew":
                        poly = Polynomial(np.ones((1, 3, 2, 2)), grid, tuple(names),
                                          tuple(facts["directions"]), False)
                    else:
                        poly.changeBasis(tuple(names))
                obs.append(list(poly.basis))
            lit = "[" + "; ".join("[" + "; ".join(coq[b] for b in st) + "]" for st in obs) \
                + "]"
            cases.append("lleqb (trace integrate_new_basis (getDeltas_ops %s %s) []) %s" % (
                coq[bM], coq[bN], lit))
            meta.append(dict(basisM=bM, basisN=bN, observed=obs))
            ctx.count("basis_trace", meta[-1])
    hdr = """From Coq Require Import List Bool Arith.
From WG Require Import Lib.Moments.
From GenC13 Require Import MomentsGen.
Import ListNotations.
Fixpoint leqb (a b : list basis) : bool :=
  match a, b with [], [] => true | x :: a', y :: b' => basis_eqb x y && leqb a' b'
  | _, _ => false end.
Fixpoint lleqb (a b : list (list basis)) : bool :=
  match a, b with [], [] => true | x :: a', y :: b' => leqb x y && lleqb a' b'
  | _, _ => false end.
"""
    bad = ctx.run_cases("BasisTrace", hdr, cases)
    for b in bad:
        ctx.broken.append("correspondence: Polynomial basis trace (%s)" % b["file"])
        ctx.log("basis trace mismatch", b["cases"], b["err"],
                json.dumps([meta[i] for i in b["cases"]][:2]))


# ------------------------------------------------------------------------------------

SIZE_CAP = 8000     # particles * (M-1) * (N-1)^2: getDeltas' own error estimates build an
#                     operator of that dimension (0.6 s per call at 5700, 37 s at 33000)


def fit(cfg, Ms):
    """large N with small M / few species and vice versa, so that one call stays ~1 s"""
    def dim():
        return cfg["species"] * (cfg["M"] - 1) * (cfg["N"] - 1) ** 2
    while dim() > SIZE_CAP and cfg["species"] > 1:
        cfg["species"] -= 1
    while dim() > SIZE_CAP and cfg["M"] > min(Ms):
        cfg["M"] = max(m for m in Ms if m < cfg["M"])
    return cfg


def configs(ctx):
    """Configurations of the direct validation.  For check_exact the factors (bases, history,
    degrees, sign of the closed form, mass, grid class, solver re-use) cycle with co-prime
    offsets; quick covers every pair (basisM, basisN) with and without a history.
    check_generic runs in quick on half of them: the pairs (Cardinal, *) for every other N and
    (Chebyshev, *) for the others (so the pair (Cardinal, Chebyshev) that manager.py hard-codes
    is exercised), in thorough on all.  SIZE_CAP bounds species*(M-1)*(N-1)^2 in both tiers."""
    rng = ctx.rng
    out = []
    Ns = [3, 5, 7, 11] if ctx.quick else [3, 5, 7, 9, 11, 13, 15, 17, 19, 21, 23, 25]
    Ms = [3, 4, 6, 9, 20] if ctx.quick else [3, 5, 8, 12, 20, 35, 50]
    k = 0
    for iN, N in enumerate(Ns):
        for basisM in ("Cardinal", "Chebyshev"):
            for basisN in ("Cardinal", "Chebyshev"):
                bb = k % 4                            # index of the pair of bases
                k += 1
                T1 = rng.choice([1.0, 40.0, 100.0, 130.0])
                h = (bb + iN) % 3
                if h == 0:
                    hist = []
                elif h == 1:
                    hist = [("T", T1 * rng.choice([0.4, 2.5])), ("pos", 1 + k % 3),
                            ("T", rng.choice([85.0, 110.0]))]
                else:
                    hist = [("pos", 2), ("T", T1 * rng.choice([0.3, 1.3, 7.0]))]
                out.append(fit(dict(grid="Grid3Scales" if (bb + iN) % 2 == 0 else "Grid",
                                M=Ms[(bb + 3 * iN) % len(Ms)], N=N, scales=[T1], hist=hist,
                                basisM=basisM, basisN=basisN,
                                mass=MASSES[(bb + 2 * iN) % len(MASSES)],
                                nfields=1 + ((bb + iN) % 4 in (0, 3)),
                                sign=-1 if (bb + iN) % 3 == 1 else 1,
                                gzkind=(bb + 2 * iN + iN // 2) % 2,
                                generic=(bb in (0, 1)) == (iN % 2 == 0),
                                species=1 + (bb + 2 * iN) % 3,
                                rebackground=((7 * k) % 5 in (1, 3)),
                                degA=2 * N - 3 if (bb // 2 + iN) % 2 == 0 else 2,
                                degB=2 * (N - 1) - 3 if (bb + iN // 2) % 2 == 0 else 2,
                                v=rng.choice([-0.55, -0.3, 0.2, 0.6, 0.9])), Ms))
    # the finite-difference solver production uses for its error estimate (Cardinal only)
    for N, mass in ((5, "halfwall"), (7, "profile")):
        out.append(dict(grid="Grid3Scales", M=6, N=N, scales=[100.0], hist=[("pos", 1)],
                        basisM="Cardinal", basisN="Cardinal", mass=mass, nfields=1,
                        species=2, rebackground=True, degA=2 * N - 3, degB=2,
                        derivatives="Finite Difference", v=0.4))
    if not ctx.quick:
        for _ in range(60):
            N = rng.choice(Ns)
            T1 = rng.choice([1.0, 40.0, 100.0, 250.0])
            hist = []
            for _ in range(rng.randint(0, 3)):
                hist.append(rng.choice([("T", rng.choice([0.3, 2.0, 7.0]) * T1),
                                        ("pos", rng.randint(1, 4))]))
            out.append(fit(dict(grid=rng.choice(["Grid", "Grid3Scales", "Grid3Scales"]),
                            M=rng.choice(Ms), N=N, scales=[T1], hist=hist,
                            basisM=rng.choice(["Cardinal", "Chebyshev"]),
                            basisN=rng.choice(["Cardinal", "Chebyshev"]),
                            mass=rng.choice(MASSES), nfields=rng.choice([1, 1, 2]),
                            species=rng.randint(1, 5), rebackground=rng.random() < 0.5,
                            sign=rng.choice([1, -1]), gzkind=rng.randint(0, 1),
                            degA=rng.randint(0, 2 * N - 3),
                            degB=rng.randint(0, max(0, 2 * (N - 1) - 3)),
                            v=rng.choice([-0.9, -0.55, 0.1, 0.6, 0.95])), Ms))
    return out


def implicit_configs(ctx):
    out = []
    k = 0
    for basisM, basisN, der in (("Cardinal", "Cardinal", "Spectral"),
                                ("Chebyshev", "Chebyshev", "Spectral"),
                                ("Cardinal", "Chebyshev", "Spectral"),
                                ("Cardinal", "Cardinal", "Finite Difference")):
        for M, N in ((5, 5),) if ctx.quick else ((5, 5), (12, 7), (25, 9)):
            k += 1
            out.append(dict(grid="Grid3Scales" if k % 2 else "Grid", M=M, N=N,
                            scales=[100.0], hist=[("pos", 1), ("T", 85.0)] if k % 3 else [],
                            basisM=basisM, basisN=basisN, mass=MASSES[k % len(MASSES)],
                            nfields=1 + k % 2, species=1 + k % 3, derivatives=der, v=0.3))
    return out


def run(ctx):
    srcs = [vlib.read_src(f) for f in SRC_FILES]
    gen_ok, facts = True, None
    try:
        import os
        package = {}
        for fn_ in sorted(os.listdir(vlib.SRC)):
            if fn_.endswith(".py"):
                with open(os.path.join(vlib.SRC, fn_)) as fh:
                    package[fn_] = fh.read()
        text, spans, facts = gen_moments.generate(*srcs, package=package)
        ctx.write("MomentsGen.v", text, sources=dict(
            files={f: vlib.sha(s) for f, s in zip(SRC_FILES, srcs)}, spans=spans,
            facts=facts))
    except pyrx.TranslateError as e:
        ctx.log("translator failed:", e)
        ctx.broken.append("translator: %s" % e)
        gen_ok = False
    proved = gen_ok and ctx.prove(extra=["MomentsGen.v"])
    ctx.trusted += ["tools/pyrx.py + tools/gen_moments.py (AST translator / fact extractor)",
                    "Interval tactic (certified evaluation)"]
    # ---- correspondence (certified evaluation), started in the background -------------
    procs = []
    if proved:
        try:
            rng = ctx.rng
            specs = [(3, [("init", Fraction(1), Fraction(100))], 0.0, "Grid"),   # massless
                     (3, [("init", Fraction(2), Fraction(100)),
                          ("momentum", Fraction(40)), ("position", Fraction(3))], 3.0, "Grid"),
                     (5, [("init", Fraction(1), Fraction(64)), ("position", Fraction(2)),
                          ("momentum", Fraction(130))], 1.0, "Grid3Scales")]
            if not ctx.quick:
                for _ in range(5):
                    ops = [("init", Fraction(rng.randint(1, 8), 2),
                            Fraction(rng.randint(2, 400), 2))]
                    for _ in range(rng.randint(0, 3)):
                        ops.append(rng.choice([("momentum", Fraction(rng.randint(2, 400), 2)),
                                               ("position", Fraction(rng.randint(1, 9), 2))]))
                    specs.append((rng.choice([3, 5, 5, 7]), ops, rng.choice([0.0, 0.5, 2.0, 9.0]),
                                  rng.choice(["Grid", "Grid3Scales"])))
            for idx, (N, ops, fv, gk) in enumerate(specs):
                coeffs = [Fraction(rng.randint(-16, 16), 8) for _ in range(4)]
                coeffs[0] += 3
                path, info = eval_case(ctx, idx, N, ops, coeffs, fv, gk)
                if idx == 0:
                    ctx.sample(dict(certified_eval={k: v for k, v in info.items()
                                                    if k not in ("hdr", "specs")}))
                procs.append((idx, info, subprocess.Popen(
                    ["timeout", "900", "coqc"] + ctx.coq_args() + [path], cwd=ctx.bdir,
                    stdout=subprocess.PIPE, stderr=subprocess.PIPE, text=True)))
        except Exception as ex:
            ctx.log("certified evaluation could not be set up", traceback.format_exc())
            ctx.broken.append("correspondence: setup raised %r" % ex)
    if gen_ok:
        try:
            basis_trace_cases(ctx, facts)
        except Exception as ex:
            ctx.log("basis trace raised", traceback.format_exc())
            ctx.broken.append("correspondence: basis trace raised %r" % ex)
    # ---- direct validation on the implementation ---------------------------------------
    cfgs = configs(ctx)
    for k, cfg in enumerate(cfgs):
        try:
            check_exact(ctx, cfg)
            if not ctx.quick or cfg.get("generic") or cfg.get("derivatives"):
                check_generic(ctx, cfg)
        except Exception as ex:
            ctx.log("direct validation raised", json.dumps(cfg), traceback.format_exc())
            ctx.fail_input("getDeltas/deltaToTmunu raised %r [%s]" % (ex, cfg_label(cfg)),
                           dict(kind="raise", case=cfg), key="raises")
        if k == 0:
            ctx.sample(dict(direct=cfg))
    for cfg in implicit_configs(ctx):
        try:
            check_implicit(ctx, cfg)
        except Exception as ex:
            ctx.log("implicit path raised", json.dumps(cfg), traceback.format_exc())
            ctx.fail_input("getDeltas() raised %r [%s]" % (ex, cfg_label(cfg)),
                           dict(kind="raise", case=dict(cfg, implicit=True)), key="raises")
    try:
        check_pspace(ctx, [100.0] if ctx.quick else [100.0, 37.0])
    except Exception as ex:
        ctx.log("momentum-space family raised", traceback.format_exc())
        ctx.fail_input("getDeltas raised %r in the momentum-space family" % ex,
                       dict(kind="pspace"), key="raises")
    check_gcl(ctx, [3, 5, 7, 9, 11] if ctx.quick else list(range(3, 27, 2)))
    check_U_orthogonality(ctx, 20 if ctx.quick else 48)
    # ---- collect the certified evaluations ---------------------------------------------
    for idx, info, pr in procs:
        out, err = pr.communicate()
        for _ in info["values"]:
            ctx.count("certified_eval", dict(N=info["N"], grid=info["grid"], ops=info["ops"],
                                             coeffs=info["coeffs"], k=_[0]))
        if pr.returncode != 0:
            ctx.log("certified evaluation Eval_%d did not go through at 80 bits; retrying "
                    "goal by goal" % idx, vlib.tail(err, 3))
            try:
                classify_failed_eval(ctx, idx, info)
            except Exception as ex:
                ctx.log("retry raised", traceback.format_exc())
                ctx.broken.append("correspondence: retry of Eval_%d raised %r" % (idx, ex))
    ctx.cov["rule"] = (
        "direct: every odd N in the tier's list x basisM x basisN; mass family (z-dependent / "
        "constant / light / massless / massless on half of the wall), fields, species, grid "
        "class, M, history (none / T,pos,T / pos,T; compared with a fresh grid after every "
        "step), solver re-use and polynomial degrees cycle with co-prime periods; generic "
        "random deviations (1e-6..1e6) for sums / linearity / results arithmetic / second "
        "background / Tmunu; implicit-deltaF path with collisions; FD solver; "
        "distinct = distinct configuration tuple; certified: grids driven through rescaling "
        "histories, all four moments by interval arithmetic")
    ctx.assumptions += [
        "substitution x = cos t:  int_{-1}^{1} sqrt(1-x^2) U_j(x) dx = (pi/2) [j=0]  (textbook; "
        "explicit premise of moments_exact_on_class_dx only; validated by adaptive "
        "quadrature for every j and through Polynomial.integrate against closed forms for "
        "every admissible degree)",
        "m^2 >= 0 and N odd (then E > 0 at every node: massless_nodes_have_positive_energy)",
        "rounding model of the direct checks: |computed - exact| <= 16 (12 + M + 2N) eps * "
        "sum |weight| * (absolute basis products of the coefficients); the worst observed "
        "ratio is recorded in the evidence (coverage.worst_rounding_ratio)"]


def replay(rep):
    print(json.dumps(rep, indent=1, default=str))
    fails = []

    def fail(what, r, key=None):
        fails.append(what)
        print("FAILS:", what)
    ctx = types.SimpleNamespace(
        rng=__import__("random").Random(0), count=lambda *a, **k: None, quick=True,
        fail_input=fail, cov={}, log=print)
    case = rep.get("case")
    if rep.get("kind") in ("exact", "not-nodal", "rescaled-vs-fresh") and case:
        check_exact(ctx, case)
    elif rep.get("kind") in ("generic", "linearity", "tmunu") and case:
        check_generic(ctx, case)
    elif rep.get("kind") == "implicit" and case:
        check_implicit(ctx, case)
    elif rep.get("kind") in ("raise", "grid-arrays") and case:
        try:
            if case.get("implicit"):
                check_implicit(ctx, case)
            elif "degA" in case:
                check_exact(ctx, case)
                check_generic(ctx, case)
        except Exception as ex:                       # the recorded failure was a raise
            fail("raised %r" % ex, None)
    elif rep.get("kind") == "pspace":
        check_pspace(ctx, [rep.get("T0", 100.0)])
    elif rep.get("kind") == "gcl":
        check_gcl(ctx, [rep["N"]])
    print("replay: %d failing evaluations on the current tree" % len(fails))
    return 1 if fails else 0
