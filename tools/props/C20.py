"""C20 -- thermal integrals, their shipped tables and the ideal-gas limit."""
import json
import math
import subprocess
import warnings
from fractions import Fraction

import numpy as np
import scipy.integrate

import gen_thermal
import pyrx
import vlib

EXPLANATION = (
    "Generated on every run: the six integrands and the two `wrapper` closures of JbIntegral/"
    "JfIntegral (pyrx), potentialOneLoopThermal with the enum EImaginaryOption (vector-aware "
    "symbolic executor) and the 2 x 10000 rows of the shipped data files (exact rationals). Coq "
    "proves: the negative-argument real integrands are ln|1 -+ e^{-is}| (for all x, y); the "
    "imaginary integrands are the PRINCIPAL argument of 1 -+ e^{-is} up to the regulator, "
    "i.e. (pi-s)/2 + k pi on the k-th sheet (so the unwrapped closed form is refuted for "
    "s > 2 pi) and bounded by y^2 pi/2; the integration pieces meet at sqrt|x| where the two "
    "real integrands agree; the thermal potential is T^4/(2 pi^2) sum n Re J(m^2/T^2) under "
    "each imaginary-part option, reduces to -(pi^2/90)(nb + 7/8 nf)T^4 for massless content "
    "(Jb(0), Jf(0) as hypotheses) and is bounded by the envelope of J for heavy content; the "
    "tables have a uniform strictly increasing grid on [-20,1000], zero imaginary column for "
    "x>0, negative/increasing/concave real part down to the noise floor, bounded fourth "
    "differences (a single corrupted entry breaks this), and imaginary columns equal to the "
    "first-sheet closed forms pi(c^3/6 - x^2/32), pi x^2/32 to 1e-9 (certified enclosures of pi "
    "and sqrt). Model values are compared with the "
    "running code by certified interval evaluation (integrands pointwise, wrappers under a "
    "tagging integrator, potential with stub integrals); the property itself is evaluated on "
    "the implementation against an independent quadrature of the complex logarithm.")

TAB = {"Jb": "PotentialTools/Data/InterpolationTable_Jb.txt",
       "Jf": "PotentialTools/Data/InterpolationTable_Jf.txt"}


# --------------------------------------------------------------------------------------------
# independent reference: quadrature of y^2 Log(1 -+ exp(-sqrt(y^2+x))) with the principal complex
# logarithm (np.log|z|, np.angle z) and break points at the branch points

def _quad(f, a, b, **kw):
    with warnings.catch_warnings():
        warnings.simplefilter("ignore")
        return scipy.integrate.quad(f, a, b, limit=400, epsabs=1e-13, epsrel=1e-13, **kw)[0]


def ref_J(kind, x):
    """(Re J, Im J) for kind 'b' / 'f'"""
    sgn = -1.0 if kind == "b" else 1.0
    pref = 1.0 if kind == "b" else -1.0

    def pos(y):
        return pref * y * y * np.log1p(sgn * np.exp(-np.sqrt(max(y * y + x, 0.0))))
    if x >= 0:
        return _quad(pos, 0, np.inf), 0.0
    c = math.sqrt(-x)
    brk, k = [], 0
    while True:
        s0 = 2 * math.pi * k if kind == "b" else (2 * k + 1) * math.pi
        if s0 * s0 >= -x:
            break
        if s0 > 0:
            brk.append(math.sqrt(-x - s0 * s0))
        k += 1
    edges = sorted([0.0] + brk + [c])

    def z(y):
        return 1 + sgn * np.exp(-1j * math.sqrt(max(-y * y - x, 0.0)))
    re = im = 0.0
    for a, b in zip(edges[:-1], edges[1:]):
        # each smooth piece in two halves: QAGS copes with a logarithmic singularity at ONE end of
        # its interval to 1e-11, with one at both ends only to 1e-5 at |x| > 100 (checked against
        # mpmath tanh-sinh at x = -272.68)
        m = 0.5 * (a + b)
        for lo, hi in ((a, m), (m, b)):
            re += _quad(lambda y: pref * y * y * math.log(max(abs(z(y)), 1e-300)), lo, hi)
            im += _quad(lambda y: pref * y * y * float(np.angle(z(y))), lo, hi)
    re += _quad(pos, c, np.inf)
    return re, im


def naive_J(kind, x):
    """the SAME quadrature rule as the implementation (scipy quad, limit=100, no break points)
    applied to the reference integrand: separates 'integrand wrong' from 'quadrature missed the
    kink'"""
    sgn = -1.0 if kind == "b" else 1.0
    pref = 1.0 if kind == "b" else -1.0
    c = math.sqrt(-x)

    def z(y):
        return 1 + sgn * np.exp(-1j * math.sqrt(max(-y * y - x, 0.0)))

    def q(f, a, b):
        with warnings.catch_warnings():
            warnings.simplefilter("ignore")
            return scipy.integrate.quad(f, a, b, limit=100)[0]
    re = q(lambda y: pref * y * y * math.log(abs(z(y)) + 1e-100), 0.0, c) + q(
        lambda y: pref * y * y * math.log(1 + sgn * math.exp(-math.sqrt(max(y * y + x, 0.0)))
                                          + 1e-100), c, np.inf)
    im = q(lambda y: pref * y * y * float(np.angle(z(y))), 0.0, c)
    return re, im


def branch_points(kind, x):
    """y in (0, sqrt|x|) where 1 -+ exp(-i sqrt(|x| - y^2)) vanishes"""
    out, k = [], 0
    while True:
        s0 = 2 * math.pi * k if kind == "b" else (2 * k + 1) * math.pi
        if s0 * s0 >= -x:
            return sorted(out)
        if s0 > 0:
            out.append(math.sqrt(-x - s0 * s0))
        k += 1


def repaired_J(obj, kind, x):
    """the implementation's OWN integrands and assembly (its wrapper runs unchanged), with
    `_integrator` replaced by scipy quad that is told the branch points: if this reproduces the
    defining integral, the only faulty ingredient is the call of quad without break points"""
    from WallGo.PotentialTools import integrals as I
    brk = branch_points(kind, x)

    def integ(func, a, b):
        # one quad call per smooth piece (end-point singularities are what QAGS is good at;
        # QAGP with `points=` loses 1e-4 on the logarithmic ones)
        edges = [a] + [p for p in brk if a < p < b] + [b]
        if np.isinf(b):
            return float(_quad(func, a, b))
        halves = []
        for lo, hi in zip(edges[:-1], edges[1:]):
            halves += [(lo, 0.5 * (lo + hi)), (0.5 * (lo + hi), hi)]
        return float(sum(_quad(func, lo, hi) for lo, hi in halves))
    saved = I._integrator
    try:
        I._integrator = integ
        # the SAME call path as the value being judged (obj(x) -> evaluate -> _evaluateDirectly ->
        # _functionImplementation): anything between __call__ and the dispatcher stays in play
        with warnings.catch_warnings():
            warnings.simplefilter("ignore")
            r = np.asarray(obj(float(x), bUseInterpolatedValues=False), dtype=float).ravel()
    finally:
        I._integrator = saved
    return float(r[0]), float(r[1])


def impl_J(obj, x):
    with warnings.catch_warnings():
        warnings.simplefilter("ignore")
        r = np.asarray(obj(float(x), bUseInterpolatedValues=False), dtype=float).ravel()
    return float(r[0]), float(r[1])


# --------------------------------------------------------------------------------------------

def dy(rng, lo, hi, bits=10):
    """random dyadic rational in [lo, hi]"""
    n = rng.randint(int(math.ceil(lo * 2 ** bits)), int(math.floor(hi * 2 ** bits)))
    return Fraction(n, 2 ** bits)


def R(q):
    return pyrx.rlit(Fraction(q))


def tol_of(v, rel=1e-9, ab=1e-12):
    return Fraction(abs(Fraction(v))) * Fraction(rel).limit_denominator(10 ** 12) + \
        Fraction(ab).limit_denominator(10 ** 15)


def compile_parallel(ctx, files, what, timeout=600):
    """files: list of (label, path, ngoals). Returns labels that failed."""
    procs = [(lab, p, n, subprocess.Popen(
        ["timeout", str(timeout), "coqc"] + ctx.coq_args() + [p], cwd=ctx.bdir,
        stdout=subprocess.PIPE, stderr=subprocess.PIPE, text=True)) for lab, p, n in files]
    bad = []
    for lab, p, n, pr in procs:
        out, err = pr.communicate()
        for _ in range(n):
            ctx.count("certified_" + what)
        if pr.returncode != 0:
            bad.append(lab)
            ctx.broken.append("correspondence: %s %s" % (what, lab))
            ctx.log("certified evaluation failed (%s %s):" % (what, lab), vlib.tail(err, 8))
    return bad


# -- (a) integrands pointwise ---------------------------------------------------------------

def integrand_cases(ctx, rng, n):
    from WallGo.PotentialTools import JbIntegral, JfIntegral
    out = []
    for tag, cls in (("Jb", JbIntegral), ("Jf", JfIntegral)):
        for short, meth in (("PosReal", "_integrandPositiveReal"),
                            ("NegReal", "_integrandNegativeReal"),
                            ("NegImag", "_integrandNegativeImaginary")):
            got = 0
            guard = 0
            while got < n and guard < 50 * n:
                guard += 1
                if short == "PosReal":
                    x = dy(rng, -100, 40)
                    ylo = math.sqrt(max(-float(x), 0.0))
                    y = dy(rng, ylo + 1 / 64, ylo + 12)
                else:
                    x = dy(rng, -100, -1 / 32)
                    y = dy(rng, 0, math.sqrt(-float(x)) - 1 / 1024)
                    s2 = 0.5 * math.sqrt(-float(y) ** 2 - float(x))
                    if min(abs(math.sin(s2)), abs(math.cos(s2))) < 1e-3:
                        continue
                v = float(getattr(cls, meth)(float(x), float(y)))
                if not math.isfinite(v):
                    continue
                got += 1
                sheet = int(math.sqrt(max(-float(y) ** 2 - float(x), 0)) // (2 * math.pi))
                ctx.count("integrand_" + tag + short, dict(x=str(x), y=str(y)),
                          bucket="sheet%d" % sheet if short != "PosReal" else
                          ("x<0" if x < 0 else "x>=0"))
                out.append((tag + short, x, y, v))
    return out


INTEGRAND_HDR = """From Coq Require Import Reals Lra.
From Interval Require Import Tactic.
From WG Require Import Lib.NumpySem.
From GenC20 Require Import Integrands.
Local Open Scope R_scope.
Definition e0 := mk_env (fun _ _ _ => 0) (fun _ _ => 0).
(* tagging integrator: records which function is integrated over which interval *)
Definition eT := mk_env (fun f a b => f ((a + b) / 2) * 3 + a * 5 + b * 7)
                        (fun f a => f (a + 1 / 2) * 11 + a * 13).
(* Interval's tan only covers the principal range: unfold it into sin / cos *)
Ltac ev := unfold JbPosReal, JbNegReal, JbNegImag, JfPosReal, JfNegReal, JfNegImag, tan;
  interval with (i_prec 120).
Ltac evw := unfold JbEval, JfEval, JbWrapper, JfWrapper; cbv zeta;
  match goal with |- context [Rle_dec ?a ?b] =>
    destruct (Rle_dec a b); [try (exfalso; lra) | try (exfalso; lra)] end;
  cbn [fst snd eT quad quad_inf]; split; ev.
"""


def integrand_file(rows):
    goals = ["Goal Rabs (%s e0 %s %s - %s) <= %s.\nProof. ev. Qed." % (
        fn, R(x), R(y), R(Fraction(v)), R(tol_of(v))) for fn, x, y, v in rows]
    return INTEGRAND_HDR + "\n".join(goals) + "\n"


# -- (b) wrappers under the tagging integrator ---------------------------------------------------

def wrapper_cases(ctx, rng, n):
    from WallGo.PotentialTools import integrals as I

    def tag_integrator(func, a, b):
        if np.isinf(b):
            return float(func(a + 0.5) * 11 + a * 13)
        return float(func((a + b) / 2) * 3 + a * 5 + b * 7)
    saved = I._integrator
    rows = []
    try:
        I._integrator = tag_integrator
        for tag, cls in (("Jb", I.JbIntegral), ("Jf", I.JfIntegral)):
            obj = cls(bUseAdaptiveInterpolation=False)
            xs = [Fraction(0), dy(rng, 1 / 8, 30), dy(rng, 30, 900)] + \
                [dy(rng, -100, -1 / 8) for _ in range(n)] + \
                [-Fraction(1, 2 ** rng.randint(3, 12)), -Fraction(1, 2 ** rng.randint(13, 40)),
                 Fraction(1, 2 ** rng.randint(10, 40))]
            for x in xs:
                # dyadic square roots only where needed: the split sqrt|x| is irrational in
                # general, the model computes it with `sqrt`, interval arithmetic encloses it
                r = np.asarray(obj._functionImplementation(float(x)), dtype=float).ravel()
                if not np.all(np.isfinite(r)):
                    continue
                ctx.count("wrapper_" + tag, dict(x=str(x)),
                          bucket="x<0" if x < 0 else "x>=0")
                rows.append((tag, x, float(r[0]), float(r[1])))
    finally:
        I._integrator = saved
    return rows


def wrapper_file(rows):
    goals = []
    for tag, x, re, im in rows:
        goals.append("Goal Rabs (fst (%sEval eT %s) - %s) <= %s /\\ "
                     "Rabs (snd (%sEval eT %s) - %s) <= %s.\nProof. evw. Qed." % (
                         tag, R(x), R(Fraction(re)), R(tol_of(re, 1e-8, 1e-9)),
                         tag, R(x), R(Fraction(im)), R(tol_of(im, 1e-8, 1e-9))))
    return INTEGRAND_HDR + "\n".join(goals) + "\n"


# -- (c) thermal sum with stub integrals ----------------------------------------------------------

SUM_HDR = """From Coq Require Import Reals Lra List Bool.
From Interval Require Import Tactic.
From WG Require Import Lib.ThermalSum.
From GenC20 Require Import ThermalSumGen.
Import ListNotations.
Local Open Scope R_scope.
Definition eS := mk_env (fun x => (x / (1 + x * x) - 2, x / 4))
                        (fun x => (1 / (2 + x * x) - x / 16, - x)).
Ltac decide1 :=
  match goal with |- context [Rlt_dec ?a ?b] =>
    let H := fresh in destruct (Rlt_dec a b) as [H|H];
    [ try (exfalso; apply (Rlt_not_le _ _ H); interval)
    | try (exfalso; apply H; interval) ] end.
Ltac redS := unfold potentialOneLoopThermal, potentialOneLoopThermalArr;
  repeat (cbn [EImaginaryOption_eq_dec EImaginaryOption_rec EImaginaryOption_rect sumbool_rec
               sumbool_rect map existsb zipR sumR fst snd Jb Jf eS orb andb];
          try decide1).
Ltac some := redS; eexists; split; [reflexivity | unfold SMALL_NUMBER; interval with (i_prec 100)].
Ltac somes := redS; eexists; split; [reflexivity | split; [reflexivity |
  cbn [nth]; repeat split; unfold SMALL_NUMBER; interval with (i_prec 100)]].
Ltac none := redS; reflexivity.
"""


def make_pot(integrals, opt):
    from WallGo.PotentialTools import EffectivePotentialNoResum

    class OneLoop(EffectivePotentialNoResum):
        fieldCount = 1

        def evaluate(self, fields, temperature):
            raise NotImplementedError

        def bosonInformation(self, fields, temperature):
            raise NotImplementedError

        def fermionInformation(self, fields, temperature):
            raise NotImplementedError
    if integrals is None:
        return OneLoop(imaginaryOption=opt)
    if isinstance(integrals, str) and integrals == "shipped":
        return OneLoop(useDefaultInterpolation=True, imaginaryOption=opt)
    return OneLoop(integrals=integrals, imaginaryOption=opt)


class StubJ:
    def __init__(self, fre, fim):
        self.fre, self.fim = fre, fim

    def __call__(self, x):
        x = np.asarray(x, dtype=float)
        return np.stack([self.fre(x), self.fim(x)], axis=-1)


class StubIntegrals:
    def __init__(self):
        self.Jb = StubJ(lambda x: x / (1 + x * x) - 2, lambda x: x / 4)
        self.Jf = StubJ(lambda x: 1 / (2 + x * x) - x / 16, lambda x: -x)


def sum_cases(ctx, rng, n):
    from WallGo.PotentialTools import EImaginaryOption
    rows = []
    stub = StubIntegrals()
    for k in range(n):
        # stratified: every option with and without a negative mass; every third case with an
        # ARRAY of temperatures (the `ndim > 0` branch, model potentialOneLoopThermalArr)
        opt = ["ERROR", "ABS_ARGUMENT", "ABS_RESULT", "PRINCIPAL_PART"][k % 4]
        want_neg = (k // 4) % 2 == 0
        nb, nf = rng.randint(1, 4), rng.randint(1, 3)
        mB = [dy(rng, 0, 200, 4) for _ in range(nb)]
        mF = [dy(rng, 0, 200, 4) for _ in range(nf)]
        if want_neg:
            mB[rng.randrange(nb)] = dy(rng, -40, -1 / 16, 4)
            if rng.random() < 0.3:
                mF[rng.randrange(nf)] = dy(rng, -8, -1 / 16, 4)
        dB = [Fraction(rng.randint(1, 24)) for _ in range(nb)]
        dF = [Fraction(rng.randint(1, 12)) for _ in range(nf)]
        nT = 0 if k % 3 else rng.choice([1, 2, 3])
        Ts = [dy(rng, 1 / 4, 12, 4) for _ in range(max(nT, 1))]
        pot = make_pot(stub, getattr(EImaginaryOption, opt))
        bosons = (np.array([float(m) for m in mB]), np.array([float(d) for d in dB]),
                  np.full(nb, 1.5), np.full(nb, 100.0))
        fermions = (np.array([float(m) for m in mF]), np.array([float(d) for d in dF]),
                    np.full(nf, 1.5), np.full(nf, 100.0))
        try:
            if nT:
                v = [float(u) for u in np.asarray(pot.potentialOneLoopThermal(
                    bosons, fermions, np.array([float(T) for T in Ts])), dtype=float).ravel()]
                if len(v) != nT:
                    ctx.fail_input("potentialOneLoopThermal with %d temperatures returns %d "
                                   "values" % (nT, len(v)), dict(kind="array_shape", nT=nT,
                                                                  got=v), key="array-T:shape")
                    continue
            else:
                v = float(pot.potentialOneLoopThermal(bosons, fermions, float(Ts[0])))
        except ValueError:
            v = None
        neg = any(m < 0 for m in mB + mF)
        ctx.count("thermal_sum", dict(opt=opt, mB=[str(m) for m in mB], mF=[str(m) for m in mF],
                                      T=[str(T) for T in Ts], nT=nT),
                  bucket="%s/%s/%s" % (opt, "neg" if neg else "nonneg",
                                       "array T" if nT else "scalar T"))
        rows.append((opt, mB, dB, mF, dF, Ts if nT else Ts[0], v))
    return rows


def sum_file(rows):
    goals = []
    for opt, mB, dB, mF, dF, T, v in rows:
        arr = isinstance(T, list)
        call = "potentialOneLoopThermal%s eS %s [%s] [%s] [%s] [%s] %s" % (
            "Arr" if arr else "",
            opt, "; ".join(R(m) for m in mB), "; ".join(R(d) for d in dB),
            "; ".join(R(m) for m in mF), "; ".join(R(d) for d in dF),
            "[%s]" % "; ".join(R(t) for t in T) if arr else R(T))
        if v is None:
            goals.append("Goal %s = None.\nProof. none. Qed." % call)
        elif arr:
            goals.append("Goal exists l, %s = Some l /\\ length l = %d%%nat /\\ %s.\nProof. somes. "
                         "Qed." % (call, len(v), " /\\ ".join(
                             "Rabs (nth %d l 0 - %s) <= %s" % (i, R(Fraction(u)),
                                                               R(tol_of(u, 1e-9, 1e-9)))
                             for i, u in enumerate(v))))
        else:
            goals.append("Goal exists v, %s = Some v /\\ Rabs (v - %s) <= %s.\nProof. some. "
                         "Qed." % (call, R(Fraction(v)), R(tol_of(v, 1e-9, 1e-9))))
    return SUM_HDR + "\n".join(goals) + "\n"


# --------------------------------------------------------------------------------------------
# direct validation

def check_integrands_direct(ctx, rng, n):
    """the generated-from integrands against the principal complex logarithm, pointwise"""
    from WallGo.PotentialTools import JbIntegral, JfIntegral
    for tag, cls, sgn, pref in (("Jb", JbIntegral, -1.0, 1.0), ("Jf", JfIntegral, 1.0, -1.0)):
        for _ in range(n):
            x = -rng.uniform(0.01, 120.0)
            y = rng.uniform(0.0, math.sqrt(-x))
            s = math.sqrt(max(-y * y - x, 0.0))
            z = 1 + sgn * np.exp(-1j * s)
            if abs(z) < 1e-4 or abs(z.real) < 1e-6:
                continue          # at a branch point / on the cut the value is convention
            sheet = int(s // (2 * math.pi))
            ctx.count("direct_integrand_" + tag, bucket="sheet%d" % sheet)
            want_re = pref * y * y * math.log(abs(z))
            want_im = pref * y * y * float(np.angle(z))
            got_re = float(cls._integrandNegativeReal(x, y))
            got_im = float(cls._integrandNegativeImaginary(x, y))
            scale = y * y + 1e-30
            if abs(got_re - want_re) > 1e-9 * scale * (1 + abs(math.log(abs(z)))):
                ctx.fail_input(
                    "%sIntegral._integrandNegativeReal(%r, %r) = %r but Re y^2 Log(1%+d e^{-is}) "
                    "= %r" % (tag, x, y, got_re, int(sgn), want_re),
                    dict(kind="integrand", cls=tag, part="real", x=x, y=y, got=got_re,
                         want=want_re), key="integrand:%s:real" % tag)
            if abs(got_im - want_im) > 1e-9 * scale:
                ctx.fail_input(
                    "%sIntegral._integrandNegativeImaginary(%r, %r) = %r but the principal "
                    "argument gives %r (s = %.6f, sheet %d)" % (tag, x, y, got_im, want_im, s,
                                                                 sheet),
                    dict(kind="integrand", cls=tag, part="imag", x=x, y=y, got=got_im,
                         want=want_im, s=s), key="integrand:%s:imag" % tag)


# below these arguments the negative-argument integrand has an interior kink / jump
KINK = {"f": -math.pi ** 2, "b": -4 * math.pi ** 2}


def classify_integral(ctx, tag, kind, obj, x, got, want, tol, where):
    """got/want: (re, im); BOTH parts are judged.  A deviation is attributed to the known finding
    quad-unresolved-kink only through its mechanism: (a) the argument lies below the threshold
    where the negative-argument integrand has an interior kink / jump, (b) the implementation's own
    integrands and assembly with break points handed to quad reproduce the defining integral,
    (c) the same scipy rule (limit=100, no break points) applied to the EXACT integrand errs as
    much (the error is not more than 3 times larger, floor 3e-6).  Anything else gets its own
    key."""
    ok = True
    for part, g, w in (("real", got[0], want[0]), ("imag", got[1], want[1])):
        if math.isfinite(g) and abs(g - w) <= tol * max(1.0, abs(w)):
            continue
        ok = False
        key = "integral:%s:%s" % (tag, part)
        note = ""
        if x < KINK[kind] and math.isfinite(g):
            j = 0 if part == "real" else 1
            rv = repaired_J(obj, kind, x)[j]
            if abs(rv - w) <= 1e-8 * max(1.0, abs(w)):
                ne = abs(naive_J(kind, x)[j] - w)
                if abs(g - w) <= 3 * max(ne, 3e-6 * max(1.0, abs(w))):
                    key = "quad-unresolved-kink"
                    note = " [same code with break points in quad: %r; same rule on the exact " \
                           "integrand errs by %.3g]" % (rv, ne)
                else:
                    key = "integral:%s:%s:worse-than-the-kink-mechanism" % (tag, part)
                    note = " [the plain rule on the exact integrand errs by only %.3g]" % ne
        ctx.fail_input("%s %s(%r): %s part %r, defining integral %r (diff %.3g)%s" % (
            where, tag, x, part, g, w, g - w, note),
            dict(kind="integral", cls=tag, x=x, part=part, got=g, want=w, where=where),
            key=key)
    return ok


def run(ctx):
    import logging
    import os
    logging.getLogger().setLevel(logging.ERROR)
    rng = ctx.rng
    # ---- 1. generate ---------------------------------------------------------------------------
    gen_ok = True
    extra = []
    src_i = vlib.read_src("PotentialTools/integrals.py")
    src_p = vlib.read_src("PotentialTools/effectivePotentialNoResum.py")
    try:
        text, spans, _ = gen_thermal.integrals(src_i)
        ctx.write("Integrands.v", text, sources=dict(
            file="src/WallGo/PotentialTools/integrals.py", sha=vlib.sha(src_i), spans=spans))
        extra.append("Integrands.v")
        text, spans = gen_thermal.thermal_sum(src_p)
        ctx.write("ThermalSumGen.v", text, sources=dict(
            file="src/WallGo/PotentialTools/effectivePotentialNoResum.py", sha=vlib.sha(src_p),
            spans=spans))
        extra.append("ThermalSumGen.v")
        src_b = vlib.read_src("interpolatableFunction.py")
        ctx.write("Ctors.v", gen_thermal.constructors(src_i, src_b, src_p), sources=dict(
            file="src/WallGo/PotentialTools/integrals.py + interpolatableFunction.py + "
                 "PotentialTools/effectivePotentialNoResum.py",
            sha=vlib.sha(src_i + src_b + src_p)))
        extra.append("Ctors.v")
        tabrows = {}
        for nm, rel in TAB.items():
            with open(vlib.src_path(rel)) as f:
                raw = f.read()
            text, tabrows[nm] = gen_thermal.table(raw, nm)
            ctx.write("Tab%s.v" % nm, text, sources=dict(file="src/WallGo/" + rel,
                                                         sha=vlib.sha(raw)))
            extra.append("Tab%s.v" % nm)
    except pyrx.TranslateError as e:
        ctx.log("translator failed:", e)
        ctx.broken.append("translator: %s" % e)
        gen_ok = False
    # ---- 2. prove ------------------------------------------------------------------------------
    proved = gen_ok and ctx.prove(extra=extra, timeout=900)
    ctx.trusted += ["tools/pyrx.py + tools/gen_thermal.py (AST translators, decimal -> "
                    "(mantissa, exponent) conversion cross-checked by a Gallina parser on a sample)",
                    "Interval tactic (certified evaluation)",
                    "kernel primitive 63-bit integers (table literals)"]
    # ---- 3. correspondence -----------------------------------------------------------------------
    have = {f: os.path.exists(os.path.join(ctx.bdir, f.replace(".v", ".vo"))) for f in extra}
    files = []
    if have.get("Integrands.v"):
        rows = integrand_cases(ctx, rng, ctx.n(12, 120))
        per = 24
        for k in range(0, len(rows), per):
            files.append(("integrands_%d" % (k // per), ctx.write(
                "Cases/Integrand_%d.v" % (k // per), integrand_file(rows[k:k + per])),
                len(rows[k:k + per])))
        ctx.sample(dict(integrand=[(r[0], str(r[1]), str(r[2]), r[3]) for r in rows[:3]]))
        wrows = wrapper_cases(ctx, rng, ctx.n(6, 40))
        per = 10
        for k in range(0, len(wrows), per):
            files.append(("wrappers_%d" % (k // per), ctx.write(
                "Cases/Wrapper_%d.v" % (k // per), wrapper_file(wrows[k:k + per])),
                len(wrows[k:k + per])))
        ctx.sample(dict(wrapper=[(r[0], str(r[1]), r[2], r[3]) for r in wrows[:2]]))
    if have.get("ThermalSumGen.v"):
        srows = sum_cases(ctx, rng, ctx.n(16, 200))
        per = 8
        for k in range(0, len(srows), per):
            files.append(("sum_%d" % (k // per), ctx.write(
                "Cases/Sum_%d.v" % (k // per), sum_file(srows[k:k + per])),
                len(srows[k:k + per])))
        ctx.sample(dict(thermal_sum=[(r[0], [str(m) for m in r[1]], str(r[5]), r[6])
                                     for r in srows[:2]]))
    # run in batches of 12 processes
    jobs = max(2, min(8, (os.cpu_count() or 4)))
    for k in range(0, len(files), jobs):
        compile_parallel(ctx, files[k:k + jobs], "eval")
    # tables: the generated rows are exactly what the running package loaded
    from WallGo import PotentialTools
    D = PotentialTools.defaultIntegrals
    if gen_ok:
        for nm, obj in (("Jb", D.Jb), ("Jf", D.Jf)):
            xs = np.asarray(obj._interpolationPoints, dtype=float)
            vs = np.asarray(obj._interpolationValues, dtype=float)
            rows = tabrows[nm]
            ok = len(rows) == len(xs) and vs.shape == (len(xs), 2)
            bad = None
            if ok:
                for i, r in enumerate(rows):
                    ctx.count("table_rows_" + nm)
                    if float(r[0]) != xs[i] or float(r[1]) != vs[i, 0] or float(r[2]) != vs[i, 1]:
                        ok, bad = False, i
                        break
            if not ok:
                ctx.broken.append("correspondence: generated %s table differs from the loaded "
                                  "interpolation data (row %s)" % (nm, bad))
    # ---- 4. direct validation ----------------------------------------------------------------------
    direct(ctx, rng, D)
    ctx.cov["rule"] = (
        "integrands: random dyadic (x, y) with x in [-100, 40], all sheets s < 10 (bucketed by "
        "sheet), away (1e-3) from the zeros of sin/cos(s/2); wrappers: x = 0, two positive and "
        "several negative dyadic arguments under a tagging integrator; thermal sum: all four "
        "imaginary-part options x (with / without negative masses), 1-4 bosons, 1-3 fermions; "
        "tables: every row compared with the loaded arrays; direct: random x in [-100, 0) and "
        "[0, 1200], table rows (all negative rows, a stratified sample of positive ones in the "
        "quick tier, all in the thorough tier), spline midpoints, derivative by central "
        "differences of the reference")
    ctx.assumptions += [
        "scipy.integrate.quad returns the integral of the function it is given (external; "
        "validated per argument against an independent quadrature with break points -- it "
        "FAILS for integrands with an interior kink, reported under key quad-unresolved-kink)",
        "Jb(0) = -pi^4/45, Jf(0) = -7 pi^4/360 (hypotheses of stefan_boltzmann_limit; checked "
        "numerically to 1e-9)",
        "scalar temperature; particle arrays of equal length (numpy broadcasting not modelled)"]


def history_checks(ctx, rng):
    """The value returned for an argument must not depend on how many evaluations preceded it.
    One object per (class, constructor setting) and the default Integrals() object evaluate a scan
    of >= 600 distinct arguments (the adaptive machinery triggers after 500); first / last /
    re-evaluated values are compared with a fresh object and with the independent quadrature."""
    from WallGo.PotentialTools import JbIntegral, JfIntegral, Integrals, EImaginaryOption
    nscan = ctx.n(620, 1300)

    def val(o, x):
        with warnings.catch_warnings():
            warnings.simplefilter("ignore")
            return [float(v) for v in np.asarray(o(float(x)), dtype=float).ravel()]

    def scan_object(label, make, kind, xs, probes, adaptive):
        obj = make()
        first = val(obj, xs[0])
        for x in xs[1:]:
            val(obj, x)
        ctx.count("history_scan", dict(label=label), bucket=label)
        if not adaptive:
            if obj.hasInterpolation() or getattr(obj, "_bUseAdaptiveInterpolation", False):
                ctx.fail_input(
                    "%s: after %d direct evaluations hasInterpolation() = %r, adaptive flag = %r "
                    "although adaptive interpolation was switched off" % (
                        label, len(xs), obj.hasInterpolation(),
                        getattr(obj, "_bUseAdaptiveInterpolation", None)),
                    dict(kind="history", label=label, n=len(xs), xmin=min(xs), xmax=max(xs)),
                    key="history:adaptive-on:" + label)
        for x in [xs[0], xs[-1]] + probes:
            again = val(obj, x)
            fresh = val(make(), x)
            want = ref_J(kind, x)
            ctx.count("history_probe", bucket=label)
            tol = 1e-7 if not adaptive else 1e-6
            bad = None
            if not adaptive and again != fresh:
                bad = "differs from a fresh object"
            for g, w in zip(again, want):
                if abs(g - w) > tol * max(1.0, abs(w)):
                    bad = bad or "differs from the defining integral"
            if x == xs[0] and not adaptive and first != again:
                bad = bad or "changed between the first and a later evaluation"
            if bad:
                ctx.fail_input(
                    "%s(%r) after a scan of %d distinct arguments in [%g, %g]: %r, fresh object "
                    "%r, defining integral %r (%s)" % (label, x, len(xs), min(xs), max(xs),
                                                       again, fresh, list(want), bad),
                    dict(kind="history", label=label, x=x, n=len(xs), xmin=min(xs),
                         xmax=max(xs), got=again, fresh=fresh, want=list(want)),
                    key="history:" + label)
                return

    for tag, cls, kind in (("Jb", JbIntegral, "b"), ("Jf", JfIntegral, "f")):
        # adaptive off (explicitly): wide scan, heavy and light arguments
        wide = sorted(set(rng.uniform(0.0, 900.0) for _ in range(nscan)))
        rng.shuffle(wide)
        probes = [rng.uniform(0.0, 5.0), rng.uniform(5.0, 100.0), rng.uniform(100.0, 800.0)]
        scan_object("%sIntegral(bUseAdaptiveInterpolation=False)" % tag,
                    lambda cls=cls: cls(bUseAdaptiveInterpolation=False), kind, wide, probes,
                    adaptive=False)
        scan_object("Integrals().%s" % tag,
                    lambda tag=tag: getattr(Integrals(), tag), kind, wide, probes,
                    adaptive=False)
        # adaptive on (the user asked for it): a range the 1000-point table resolves
        narrow = sorted(set(rng.uniform(5.0, 60.0) for _ in range(nscan)))
        rng.shuffle(narrow)
        scan_object("%sIntegral(bUseAdaptiveInterpolation=True)" % tag,
                    lambda cls=cls: cls(bUseAdaptiveInterpolation=True), kind, narrow,
                    [rng.uniform(6.0, 59.0) for _ in range(3)], adaptive=True)
    # the thermal potential with its default integrals: a temperature scan with a heavy fermion
    def one(pot, T, mb2, mf2):
        bos = (np.array([mb2]), np.array([3.0]), np.full(1, 1.5), np.full(1, 100.0))
        fer = (np.array([mf2]), np.array([12.0]), np.full(1, 1.5), np.full(1, 100.0))
        with warnings.catch_warnings():
            warnings.simplefilter("ignore")
            return float(pot.potentialOneLoopThermal(bos, fer, T))
    pot = make_pot(None, EImaginaryOption.PRINCIPAL_PART)
    mb2, mf2 = 50.0 ** 2, 170.0 ** 2
    temps = [8.0 * 1.0065 ** k for k in range(ctx.n(620, 1300))]    # x = m^2/T^2 from ~450 down
    first = one(pot, temps[0], mb2, mf2)
    for T in temps[1:]:
        one(pot, T, mb2, mf2)
    ctx.count("history_scan", bucket="potentialOneLoopThermal(default integrals)")
    for T in [temps[0], temps[-1], temps[len(temps) // 2], temps[len(temps) // 3] * 1.003]:
        again = one(pot, T, mb2, mf2)
        fresh = one(make_pot(None, EImaginaryOption.PRINCIPAL_PART), T, mb2, mf2)
        want = T ** 4 / (2 * math.pi ** 2) * (3.0 * ref_J("b", mb2 / T ** 2)[0] +
                                              12.0 * ref_J("f", mf2 / T ** 2)[0])
        ctx.count("history_probe", bucket="potentialOneLoopThermal")
        sc = T ** 4 / (2 * math.pi ** 2) * 15.0
        if again != fresh or abs(again - want) > 1e-7 * sc or \
                (T == temps[0] and again != first):
            ctx.fail_input(
                "potentialOneLoopThermal (default integrals) at T = %r after a scan of %d "
                "temperatures: %r, fresh object %r, expected %r" % (T, len(temps), again, fresh,
                                                                    want),
                dict(kind="history_pot", T=T, n=len(temps), mb2=mb2, mf2=mf2, got=again,
                     fresh=fresh, want=want), key="history:potential")
            break
    for tag in ("Jb", "Jf"):
        o = getattr(pot.integrals, tag)
        if o.hasInterpolation():
            ctx.fail_input("EffectivePotentialNoResum() default integrals: %s has built an "
                           "interpolation table on its own during the scan" % tag,
                           dict(kind="history_pot", tag=tag, n=len(temps)),
                           key="history:adaptive-on:potential-" + tag)


NONANALYTIC_KEY = "table-spline-nonanalytic-points"
# generic accuracy of the shipped tables in the smooth region (scan of every cell, x 1.7)
GEN_TOL_V, GEN_TOL_D1, GEN_TOL_D2 = 1.7 * 7e-8, 1.7 * 4.3e-6, 2e-3


def judge_table_point(ctx, tag, kind, T, xs, vs, x, margin, first=True):
    """Value, first and second derivative of a table-backed object at x against the defining
    integral (central differences of the reference, h = 1e-3), judged with the GENERIC tolerance of
    the smooth region everywhere.  A point that fails is attributed to the known finding
    table-spline-nonanalytic-points only by its class rule: table-backed evaluation with |x| < 1
    (x^{3/2} non-analyticity at 0, either table) or |x + pi^2| < 1 (Jf), and errors below
        |x| < 0.25 or |x + pi^2| < 1 : 2e-3 (value), 0.12 (first derivative)
        0.25 <= |x| < 1              : 1e-4 (value), 5e-3 (first derivative), 0.15 (second)
    relative to max(1, |exact|).  Anything else is an ordinary failing input (key spline:<tag>).
    Errors of the nodes themselves below the kink thresholds (reported by (iii) under
    quad-unresolved-kink) may propagate the way a cubic spline propagates them."""
    h = 1e-3
    grid = float(xs[1] - xs[0])
    near0 = abs(x) < 0.25
    mid0 = 0.25 <= abs(x) < 1.0
    nearpi = tag == "Jf" and abs(x + math.pi ** 2) < 1.0
    in_zone = near0 or mid0 or nearpi
    bound_v, bound_d, bound_2 = (2e-3, 0.12, None) if (near0 or nearpi) else (1e-4, 5e-3, 0.15)
    i0 = int(np.searchsorted(xs, x))
    nerr = 0.0
    if x < KINK[kind] + 15 * grid:
        for j in range(max(0, i0 - 14), min(len(xs), i0 + 14)):
            if xs[j] >= KINK[kind]:
                continue
            w = ref_J(kind, float(xs[j]))
            e = max(abs(float(vs[j, 0]) - w[0]), abs(float(vs[j, 1]) - w[1]))
            nerr = max(nerr, e * 0.3 ** max(0.0, abs(x - xs[j]) / grid - 1.0))
    av, ad, a2 = 2 * nerr, 3 * nerr / grid, 12 * nerr / grid ** 2     # inherited node errors
    want = ref_J(kind, x)
    with warnings.catch_warnings():
        warnings.simplefilter("ignore")
        got = [float(v) for v in np.asarray(T(x), dtype=float).ravel()]
        dgot = [float(v) for v in np.asarray(T.derivative(x, 1, True), dtype=float).ravel()]
        d2got = [float(v) for v in np.asarray(T.derivative(x, 2, True), dtype=float).ravel()]
    wp, wm = ref_J(kind, x + h), ref_J(kind, x - h)
    dwant = [(wp[0] - wm[0]) / (2 * h), (wp[1] - wm[1]) / (2 * h)]
    d2want = [(wp[0] - 2 * want[0] + wm[0]) / h ** 2, (wp[1] - 2 * want[1] + wm[1]) / h ** 2]
    # the second derivative of J diverges at the two non-analytic points: judged only away from
    # them (|x| >= 0.25 and not within 1 of -pi^2)
    judge2 = not (near0 or nearpi)
    if x == 0.0:
        dwant[1] = d2want[1] = 0.0       # the imaginary part starts at 0 (one-sided)
    ctx.count("spline_point_" + tag, bucket="|x|<0.25" if near0 else "0.25<=|x|<1" if mid0 else
              "|x+pi^2|<1" if nearpi else "x<0" if x < 0 else "x>0")
    ok = True
    for part in (0, 1):
        ev = abs(got[part] - want[part]) / max(1.0, abs(want[part]))
        ed = abs(dgot[part] - dwant[part]) / max(1.0, abs(dwant[part]))
        e2 = abs(d2got[part] - d2want[part]) / max(1.0, abs(d2want[part])) if judge2 else 0.0
        rv, rd, r2 = ev / (GEN_TOL_V + av), ed / (GEN_TOL_D1 + ad), e2 / (GEN_TOL_D2 + a2)
        if not in_zone:
            margin["spline generic"] = max(margin.get("spline generic", 0.0), rv, rd, r2)
        if max(rv, rd, r2) <= 1.0:
            continue
        ok = False
        key = "spline:%s" % tag
        if in_zone:
            cv, cd = ev / (bound_v + av), ed / (bound_d + ad)
            c2 = 0.0 if (bound_2 is None or not judge2) else e2 / (bound_2 + a2)
            margin["spline class rule"] = max(margin.get("spline class rule", 0.0), cv, cd, c2)
            if max(cv, cd, c2) <= 1.0:
                key = NONANALYTIC_KEY
        ctx.fail_input(
            "default %s table at x = %r (%s part): value %r vs integral %r, derivative %r vs %r, "
            "second derivative %r vs %r (relative errors %.3g, %.3g, %.3g)" % (
                tag, x, "real" if part == 0 else "imag", got[part], want[part], dgot[part],
                dwant[part], d2got[part], d2want[part], ev, ed, e2),
            dict(kind="spline", cls=tag, x=x, part=part, got=float(got[part]),
                 want=want[part], dgot=float(dgot[part]), dwant=dwant[part],
                 d2got=float(d2got[part]), d2want=d2want[part]), key=key)
    return ok


def direct(ctx, rng, D):
    from WallGo.PotentialTools import JbIntegral, JfIntegral, Integrals, EImaginaryOption
    history_checks(ctx, rng)
    objs = {"Jb": ("b", JbIntegral(bUseAdaptiveInterpolation=False)),
            "Jf": ("f", JfIntegral(bUseAdaptiveInterpolation=False))}
    tabs = {"Jb": D.Jb, "Jf": D.Jf}
    vs_all = {t: np.asarray(tabs[t]._interpolationValues, dtype=float) for t in tabs}
    # (0) the recorded known finding is replayed first (deterministic KNOWN-FINDING line; silent
    #     if the code has been repaired)
    for k in ctx.known.get("findings", []):
        if k.get("property") == "C20" and k.get("key") == "quad-unresolved-kink":
            rp = k.get("replay", {})
            tag = rp.get("cls", "Jf")
            x = float(rp.get("x", -13.1653165316532))
            kind, obj = objs[tag]
            ctx.count("known_finding_replay")
            classify_integral(ctx, tag, kind, obj, x, impl_J(obj, x), ref_J(kind, x), 1e-7,
                              "direct")
    # ... and the recorded input of table-spline-nonanalytic-points: dJb/dx at x = 0 on the table
    margin = {}
    judge_table_point(ctx, "Jb", "b", D.Jb, np.asarray(D.Jb._interpolationPoints, dtype=float),
                      vs_all["Jb"], 0.0, margin)
    # (i) integrands pointwise
    check_integrands_direct(ctx, rng, ctx.n(400, 4000))
    # (ii) direct integrals vs the defining integral.  Negative arguments: half of them log-uniform
    # in (-pi^2, -1e-12) (Goldstone-like masses crossing zero), half uniform down to -100 (beyond
    # the table and the kinks), plus the exact special values
    nneg, npos = ctx.n(60, 1500), ctx.n(12, 300)
    specials = [-0.0, 1e-300, -1e-300, 1e-100, -1e-100, -1e-9, -1e-6, -1e-3, -0.5,
                -20.5, -39.0, -41.0, -60.0, -100.0, -170.0, -1000.0]
    for tag, (kind, obj) in objs.items():
        xs = [-10.0 ** rng.uniform(-12.0, math.log10(9.8)) for _ in range(nneg // 2)] + \
             [-rng.uniform(9.9, 100.0) for _ in range(nneg - nneg // 2)] + specials + \
             [-10.0 ** rng.uniform(2.0, 4.0) for _ in range(ctx.n(2, 30))] + \
             [rng.uniform(0, 1200.0) for _ in range(npos)] + \
             [10.0 ** rng.uniform(-12.0, 0.0) for _ in range(npos // 2)] + [0.0]
        vals = {}
        for x in xs:
            got = impl_J(obj, x)
            want = ref_J(kind, x)
            vals[x] = got
            ctx.count("direct_integral_" + tag, bucket=(
                "x>=0" if x >= 0 else "x<-100" if x < -100 else "x<-4pi^2" if x < -39.48
                else "x<-pi^2" if x < -9.87
                else "-pi^2<x<-0.01" if x < -0.01 else "-0.01<x<0"))
            classify_integral(ctx, tag, kind, obj, x, got, want, 1e-7, "direct")
        # array arguments (the loop of the dispatcher) give the scalar results, element by element
        for shape in ((3,), (2, 2)):
            pick = rng.sample(xs, int(np.prod(shape)))
            with warnings.catch_warnings():
                warnings.simplefilter("ignore")
                arr = np.asarray(obj(np.array(pick).reshape(shape), bUseInterpolatedValues=False),
                                 dtype=float)
            ctx.count("direct_array_argument_" + tag, bucket=str(shape))
            ok = arr.shape == shape + (2,)
            if ok:
                flat = arr.reshape(-1, 2)
                ok = all((float(flat[j, 0]), float(flat[j, 1])) == vals[pick[j]]
                         for j in range(len(pick)))
            if not ok:
                ctx.fail_input("%s(array %r of shape %r) = %r differs from the scalar "
                               "evaluations %r" % (tag, pick, shape, arr.tolist(),
                                                   [vals[x] for x in pick]),
                               dict(kind="array_arg", cls=tag, xs=pick, shape=list(shape),
                                    got=arr.tolist()), key="array-argument:" + tag)
    # values at zero
    for tag, exact in (("Jb", -math.pi ** 4 / 45), ("Jf", -7 * math.pi ** 4 / 360)):
        got = impl_J(objs[tag][1], 0.0)
        ctx.count("value_at_zero")
        if abs(got[0] - exact) > 1e-9 or got[1] != 0.0:
            ctx.fail_input("%s(0) = %r, closed form %r" % (tag, got, exact),
                           dict(kind="zero", cls=tag, got=got, want=exact), key="zero:" + tag)
    # first-sheet closed forms of the imaginary parts (used by tables_imag_closed_form): the
    # elementary integrals are not proved in Coq, so they are validated here against the
    # independent quadrature AND the implementation
    for _ in range(ctx.n(12, 120)):
        xb = -rng.uniform(0.01, 4 * math.pi ** 2 - 0.01)
        xf = -rng.uniform(0.01, math.pi ** 2 - 0.01)
        cb = math.sqrt(-xb)
        for tag, x, closed in (("Jb", xb, math.pi * (cb ** 3 / 6 - xb * xb / 32)),
                               ("Jf", xf, math.pi * xf * xf / 32)):
            kind, obj = objs[tag]
            ctx.count("closed_form_imag_" + tag)
            r, g = ref_J(kind, x)[1], impl_J(obj, x)[1]
            if abs(r - closed) > 1e-9 * max(1.0, abs(closed)) or \
                    abs(g - closed) > 1e-8 * max(1.0, abs(closed)):
                ctx.fail_input("Im %s(%r): implementation %r, quadrature %r, closed form %r" % (
                    tag, x, g, r, closed), dict(kind="closed", cls=tag, x=x, got=g, ref=r,
                                                closed=closed), key="closed-form:" + tag)
    # (iii) table rows against the defining integral (value) -- every negative row always
    for tag, (kind, obj) in objs.items():
        T = tabs[tag]
        xs = np.asarray(T._interpolationPoints, dtype=float)
        vs = np.asarray(T._interpolationValues, dtype=float)
        n = len(xs)
        idx = [i for i in range(n) if xs[i] < 0]
        pos = [i for i in range(n) if xs[i] >= 0]
        if ctx.quick:
            # every row with 0 <= x <= 60 (where the table theorems admit the largest node
            # errors), beyond that every 24th row with an offset drawn from the seed
            dense = [i for i in pos if xs[i] <= 60.0]
            idx += dense + pos[len(dense) + rng.randrange(24)::24] + [pos[-1]]
        else:
            idx += pos
        for i in sorted(set(idx)):
            x = float(xs[i])
            want = ref_J(kind, x)
            ctx.count("table_row_vs_integral_" + tag, bucket="x<0" if x < 0 else "x>=0")
            got = (float(vs[i, 0]), float(vs[i, 1]))
            if all(abs(g - w) <= 2e-8 * max(1.0, abs(w)) for g, w in zip(got, want)):
                continue
            # does the row at least reproduce the current implementation?
            cur = impl_J(obj, x)
            if all(abs(g - c) <= 1e-8 * max(1.0, abs(c)) for g, c in zip(got, cur)):
                classify_integral(ctx, tag, kind, obj, x, cur, want, 2e-8,
                                  "shipped table row %d =" % i)
            else:
                ctx.fail_input(
                    "shipped %s table row %d (x = %r): (%r, %r) but the integral is (%r, %r) "
                    "and the direct evaluation gives (%r, %r)" % (
                        tag, i, x, got[0], got[1], want[0], want[1], cur[0], cur[1]),
                    dict(kind="table_row", cls=tag, row=i, x=x, table=got, integral=want,
                         direct=cur), key="table-row:%s" % tag)
    # (iv) spline: value, first and second derivative (central differences of the reference) at
    #      nodes, midpoints and off-centre points
    for tag, (kind, obj) in objs.items():
        T = tabs[tag]
        xs = np.asarray(T._interpolationPoints, dtype=float)
        grid = float(xs[1] - xs[0])
        i_zero = int(np.searchsorted(xs, 0.0))          # first row with x >= 0
        i_100 = int(np.searchsorted(xs, 100.0))
        # a tabulated object called with an ARRAY answers element by element
        pick = [float(rng.uniform(-19.0, 990.0)) for _ in range(5)]
        with warnings.catch_warnings():
            warnings.simplefilter("ignore")
            arr = np.asarray(T(np.array(pick)), dtype=float)
            one = [np.asarray(T(x), dtype=float).ravel() for x in pick]
        ctx.count("table_array_argument_" + tag)
        if arr.shape != (5, 2) or any(tuple(arr[j]) != tuple(one[j]) for j in range(5)):
            ctx.fail_input("default %s table called with the array %r gives %r, the scalar "
                           "calls %r" % (tag, pick, arr.tolist(), [o.tolist() for o in one]),
                           dict(kind="table_array", cls=tag, xs=pick, got=arr.tolist()),
                           key="array-argument:table-" + tag)
        # cells: a seeded sample plus ALWAYS the first and last 8 (spline end conditions) and the
        # two cells around x = 0; in every cell the node, the midpoint and one off-centre point
        # (a cubic's derivative error is smallest at the midpoint)
        cells = sorted(set(
            rng.sample(range(0, i_zero), min(i_zero, ctx.n(16, 196))) +
            rng.sample(range(i_zero, i_100), min(i_100 - i_zero, ctx.n(24, 300))) +
            rng.sample(range(i_100, len(xs) - 1), ctx.n(8, 300)) +
            list(range(0, 8)) + list(range(len(xs) - 9, len(xs) - 1)) + [i_zero - 1, i_zero]))
        cand = [0.0]
        for i in cells:
            for fr in (0.0, rng.choice([0.1, 0.25, 0.9]), 0.5):
                cand.append(float(xs[i] + fr * (xs[i + 1] - xs[i])))
        for x in cand:
            judge_table_point(ctx, tag, kind, T, xs, vs_all[tag], float(x), margin)
    ctx.cov["margins"] = {k: round(v, 3) for k, v in margin.items()}
    # (v) one-loop thermal potential on the real integrals: Stefan-Boltzmann, heavy-mass
    #     suppression, continuity in the masses
    direct_pot = make_pot(Integrals(), EImaginaryOption.PRINCIPAL_PART)
    table_pot = make_pot(D, EImaginaryOption.PRINCIPAL_PART)
    for _ in range(ctx.n(6, 40)):
        T = rng.uniform(0.5, 500.0)
        kb, kf = rng.randint(1, 6), rng.randint(1, 4)
        dofb = [float(rng.randint(0, 12)) for _ in range(kb)]
        doff = [float(rng.randint(0, 40)) for _ in range(kf)]
        nb, nf = sum(dofb), sum(doff)
        bos = (np.zeros(kb), np.array(dofb), np.full(kb, 1.5), np.full(kb, 100.0))
        fer = (np.zeros(kf), np.array(doff), np.full(kf, 1.5), np.full(kf, 100.0))
        want = -(math.pi ** 2 / 90) * (nb + 7 / 8 * nf) * T ** 4
        ctx.count("stefan_boltzmann", dict(dofb=dofb, doff=doff, T=T))
        got = float(direct_pot.potentialOneLoopThermal(bos, fer, T))
        if abs(got - want) > 1e-9 * abs(want) + 1e-300:
            ctx.fail_input("massless content nb=%d nf=%d T=%r: V = %r, Stefan-Boltzmann %r" % (
                nb, nf, T, got, want), dict(kind="sb", dofb=dofb, doff=doff, T=T, got=got,
                                            want=want),
                key="stefan-boltzmann")
        # the same on the shipped tables: judged with the generic table accuracy; the table value
        # at x = 0 sits on the x^{3/2} non-analyticity (class rule of the known finding: all
        # arguments 0, i.e. |x| < 0.25, error per degree of freedom below 2e-3 in units of J)
        gott = float(table_pot.potentialOneLoopThermal(bos, fer, T))
        unit = T ** 4 / (2 * math.pi ** 2) * max(nb + nf, 1e-300)
        if abs(gott - want) > GEN_TOL_V * unit and nb + nf > 0:
            ctx.fail_input("massless content nb=%d nf=%d T=%r on the shipped tables: V = %r, "
                           "Stefan-Boltzmann %r (%.3g J per degree of freedom)" % (
                               nb, nf, T, gott, want, abs(gott - want) / unit),
                           dict(kind="sb_table", dofb=dofb, doff=doff, T=T, got=gott,
                                want=want),
                           key=NONANALYTIC_KEY if abs(gott - want) <= 2e-3 * unit
                           else "stefan-boltzmann-table")
    # generic spectra under every imaginary-part option: V = T^4/(2 pi^2) sum n Re J(m^2/T^2) with
    # J from the independent quadrature; ABS_ARGUMENT means J(|m^2|/T^2), ABS_RESULT |V| when a
    # mass is negative, ERROR must raise exactly then
    pots = {o: make_pot(Integrals(), getattr(EImaginaryOption, o))
            for o in ("ERROR", "ABS_ARGUMENT", "ABS_RESULT", "PRINCIPAL_PART")}
    for it in range(ctx.n(12, 80)):
        opt = ["PRINCIPAL_PART", "ABS_ARGUMENT", "ABS_RESULT", "ERROR"][it % 4]
        T = rng.uniform(0.5, 300.0)
        kb, kf = rng.randint(1, 5), rng.randint(1, 3)
        xb = [rng.choice([0.0, rng.uniform(0, 60.0), rng.uniform(-9.0, 0.0)]) for _ in range(kb)]
        xf = [rng.choice([0.0, rng.uniform(0, 60.0), rng.uniform(0, 60.0), rng.uniform(-9.0, 0.0)])
              for _ in range(kf)]
        dofb = [float(rng.randint(1, 12)) for _ in range(kb)]
        doff = [float(rng.randint(1, 40)) for _ in range(kf)]
        bos = (np.array(xb) * T * T, np.array(dofb), np.full(kb, 1.5), np.full(kb, 100.0))
        fer = (np.array(xf) * T * T, np.array(doff), np.full(kf, 1.5), np.full(kf, 100.0))
        neg = any(x < 0 for x in xb + xf)
        tr = (lambda x: abs(x)) if opt == "ABS_ARGUMENT" else (lambda x: x)
        want = T ** 4 / (2 * math.pi ** 2) * (
            sum(n * ref_J("b", tr(x))[0] for n, x in zip(dofb, xb)) +
            sum(n * ref_J("f", tr(x))[0] for n, x in zip(doff, xf)))
        if opt == "ABS_RESULT" and neg:
            want = abs(want)
        if opt == "ERROR" and neg:
            want = None
        try:
            with warnings.catch_warnings():
                warnings.simplefilter("ignore")
                got = float(pots[opt].potentialOneLoopThermal(bos, fer, T))
        except ValueError:
            got = None
        ctx.count("thermal_sum_direct", dict(xb=xb, xf=xf, T=T, opt=opt),
                  bucket="%s/%s" % (opt, "neg" if neg else "nonneg"))
        scale = T ** 4 / (2 * math.pi ** 2) * (sum(dofb) + sum(doff))
        if (got is None) != (want is None) or \
                (got is not None and abs(got - want) > 1e-7 * scale):
            ctx.fail_input("V_T (%s) for m^2/T^2 = %r (bosons, dof %r), %r (fermions, dof %r), "
                           "T = %r: %r, expected %r" % (opt, xb, dofb, xf, doff, T, got, want),
                           dict(kind="sum", opt=opt, xb=xb, xf=xf, dofb=dofb, doff=doff, T=T,
                                got=got, want=want), key="thermal-sum:" + opt)
    # heavy masses: |J(x)| <= 1.3 sqrt(pi/2) x^{3/4} e^{-sqrt x} (leading asymptotics) for x >= 50
    for pot, label, xmax in ((direct_pot, "direct", 3000.0), (table_pot, "tables", 999.0)):
        for _ in range(ctx.n(10, 80)):
            x = 10.0 ** rng.uniform(math.log10(50.0), math.log10(xmax))
            T = rng.uniform(1.0, 200.0)
            nb, nf = rng.randint(1, 20), rng.randint(1, 40)
            bos = (np.array([x * T * T]), np.array([float(nb)]), np.full(1, 1.5), np.full(1, 1.0))
            fer = (np.array([x * T * T]), np.array([float(nf)]), np.full(1, 1.5), np.full(1, 1.0))
            got = float(pot.potentialOneLoopThermal(bos, fer, T))
            env = math.sqrt(math.pi / 2) * x ** 0.75 * math.exp(-math.sqrt(x)) * (
                1 + 15 / (8 * math.sqrt(x)))
            bound = (nb + nf) * T ** 4 / (2 * math.pi ** 2) * (1.05 * env + 3e-11)
            lower = (nb + nf) * T ** 4 / (2 * math.pi ** 2) * (0.9 * env - 3e-11)
            ctx.count("heavy_mass_" + label, bucket="x<400" if x < 400 else "x>=400")
            if not (got <= 0.0 + 1e-300 and lower <= abs(got) <= bound):
                ctx.fail_input("heavy content m^2/T^2 = %r (%s): V = %r, expected magnitude in "
                               "[%r, %r] and negative sign" % (x, label, got, lower, bound),
                               dict(kind="heavy", x=x, T=T, nb=nb, nf=nf, got=got, label=label),
                               key="heavy-mass:" + label)
    # continuity in the masses, with a derived modulus: |d Re Jb/dx| <= pi^2/12 (attained at 0) on
    # [-9.5, 60] and |d Re Jf/dx| <= 0.6 on [-6, 60] (pi^2/24 at 0, maximum 0.562 near -1.9).  A
    # geometric ladder (ratio 10^0.05, offset drawn from the seed) on both sides of zero, adjacent
    # rungs: |J(x_{k+1}) - J(x_k)| <= L |x_{k+1} - x_k| + 1e-9 and the increment agrees with the
    # increment of the independent quadrature.  A jump of 1e-4 anywhere in 1e-8 < |x| < 9 is seen.
    off = rng.uniform(0.0, 0.05)
    for tag, (kind, obj) in objs.items():
        lo = 9.5 if tag == "Jb" else 6.0
        L = math.pi ** 2 / 12 * 1.01 if tag == "Jb" else 0.6
        h = 0.05 if ctx.quick else 0.02
        mags = []
        u = -8.0 + off
        while 10.0 ** u < 9.0:
            mags.append(10.0 ** u)
            u += h
        ladder = [-m for m in reversed(mags) if m < lo] + [0.0] + mags
        prev = None
        reported = False
        for x in ladder:
            g = impl_J(obj, x)[0]
            w = ref_J(kind, x)[0]
            ctx.count("continuity_ladder_" + tag, bucket="x<0" if x < 0 else "x>=0")
            if prev is not None and not reported:
                px, pg, pw = prev
                dx = x - px
                if not (abs(g - pg) <= L * dx + 1e-9) or \
                        not (abs((g - pg) - (w - pw)) <= 2e-8 + 1e-3 * abs(w - pw)):
                    ctx.fail_input(
                        "Re %s is not continuous with modulus %.3g between x = %r and %r: "
                        "values %r, %r (increment %.3g, allowed %.3g; the defining integral "
                        "moves by %.3g)" % (tag, L, px, x, pg, g, g - pg, L * dx + 1e-9, w - pw),
                        dict(kind="continuity", cls=tag, x0=px, x1=x, v0=pg, v1=g,
                             ref0=pw, ref1=w), key="mass-continuity:" + tag)
                    reported = True
            prev = (x, g, w)
    # the same through the potential: one species whose m^2 crosses zero
    for _ in range(ctx.n(8, 40)):
        T = rng.uniform(1.0, 100.0)
        x0 = rng.choice([0.0, -10.0 ** rng.uniform(-7, 0.5), 10.0 ** rng.uniform(-7, 1.5)])
        d = 10.0 ** rng.uniform(-7, -4)
        vals = []
        for x in (x0 - d, x0, x0 + d):
            bos = (np.array([x * T * T]), np.array([3.0]), np.full(1, 1.5), np.full(1, 1.0))
            fer = (np.array([x * T * T]), np.array([4.0]), np.full(1, 1.5), np.full(1, 1.0))
            vals.append(float(direct_pot.potentialOneLoopThermal(bos, fer, T)))
        ctx.count("continuity_in_mass", bucket="m2=0" if x0 == 0.0 else "generic")
        sc = T ** 4 / (2 * math.pi ** 2)
        allowed = sc * ((3.0 * math.pi ** 2 / 12 * 1.01 + 4.0 * 0.6) * d + 1e-8)
        if max(abs(vals[0] - vals[1]), abs(vals[2] - vals[1])) > allowed:
            ctx.fail_input("V_T jumps in m^2 at m^2/T^2 = %r +- %r (T = %r): %r | %r | %r "
                           "(allowed step %.3g)" % (x0, d, T, vals[0], vals[1], vals[2], allowed),
                           dict(kind="continuity_pot", x0=x0, d=d, T=T, vals=vals),
                           key="mass-continuity:potential")
    temperature_types(ctx, rng, direct_pot)
    shipped_path(ctx, rng, D, objs)


def temperature_types(ctx, rng, direct_pot):
    """every temperature: Python int / numpy integer / integer array / float array of length 1
    and 3, 1-D and (nT, k) spectra, scalar and integer dof -- against the float scalar call"""
    from WallGo.PotentialTools import Integrals, EImaginaryOption
    # the recorded known finding first (deterministic)
    def massless(T):
        bos = (np.array([0.0]), np.array([1.0]), np.full(1, 1.5), np.full(1, 1.0))
        fer = (np.array([0.0]), np.array([0.0]), np.full(1, 1.5), np.full(1, 1.0))
        with warnings.catch_warnings():
            warnings.simplefilter("ignore")
            return np.asarray(direct_pot.potentialOneLoopThermal(bos, fer, T), dtype=float)
    for label, T in (("int", 100000), ("np.int64", np.int64(100000)), ("int", 55109),
                     ("int", 55108), ("int", 7), ("int array", np.array([3, 100000])),
                     ("np.int32", np.int32(40000)),
                     ("int", rng.randint(56000, 10 ** 7)), ("int", rng.randint(2, 50000))):
        got = massless(T).ravel()
        Tf = np.asarray(T, dtype=float).ravel()
        want = -(math.pi ** 2 / 90) * Tf ** 4
        ctx.count("temperature_type", bucket=label)
        if got.shape != want.shape or not np.all(np.abs(got - want) <= 1e-9 * np.abs(want)):
            # the recorded mechanism: an integer dtype is kept and T**4 exceeds its range
            dt = np.asarray(T).dtype
            big = bool(np.issubdtype(dt, np.integer) and
                       np.any(Tf ** 4 > float(np.iinfo(dt).max)))
            ctx.fail_input(
                "potentialOneLoopThermal(one massless boson, T = %r [%s]) = %r, expected %r "
                "(the float call gives %r)" % (T, label, got.tolist(), want.tolist(),
                                               massless(Tf if Tf.size > 1 else
                                                        float(Tf[0])).ravel().tolist()),
                dict(kind="int_temperature", T=np.asarray(T).tolist(), label=label,
                     got=got.tolist(), want=want.tolist()),
                key="int-temperature-overflow" if big else "temperature-type:" + label)
    # array temperatures and broadcast spectra agree with the scalar calls
    forms = ["1-D spectrum", "(nT,k) spectrum", "scalar dof", "int dof"]
    for it in range(ctx.n(8, 32)):
        # stratified: every form with nT = 1 and nT = 3
        nT = [1, 3][(it // 4) % 2]
        form = forms[it % 4]
        Ts = [rng.uniform(1.0, 300.0) for _ in range(nT)]
        kb, kf = rng.randint(1, 4), rng.randint(1, 3)
        xb = [rng.choice([0.0, rng.uniform(0, 40.0), -rng.uniform(0, 5.0)]) for _ in range(kb)]
        xf = [rng.choice([0.0, rng.uniform(0, 40.0)]) for _ in range(kf)]
        dofb = [float(rng.randint(1, 12)) for _ in range(kb)]
        doff = [float(rng.randint(1, 40)) for _ in range(kf)]
        if form == "scalar dof":
            dofb, doff = [dofb[0]] * kb, [doff[0]] * kf
        Tref = Ts[0]
        mb, mf = np.array(xb) * Tref ** 2, np.array(xf) * Tref ** 2

        def call(T, twod=False):
            MB, MF = (np.tile(mb, (nT, 1)), np.tile(mf, (nT, 1))) if twod else (mb, mf)
            nB = dofb[0] if form == "scalar dof" else np.array(
                dofb, dtype=int if form == "int dof" else float)
            nF = doff[0] if form == "scalar dof" else np.array(
                doff, dtype=int if form == "int dof" else float)
            with warnings.catch_warnings():
                warnings.simplefilter("ignore")
                return np.asarray(direct_pot.potentialOneLoopThermal(
                    (MB, nB, np.full(kb, 1.5), np.full(kb, 1.0)),
                    (MF, nF, np.full(kf, 1.5), np.full(kf, 1.0)), T), dtype=float).ravel()
        ref = np.array([float(make_plain_call(direct_pot, mb, dofb, mf, doff, T)) for T in Ts])
        ctx.count("array_temperature", bucket="%s nT=%d" % (form, nT))
        try:
            got = call(np.array(Ts), twod=(form == "(nT,k) spectrum"))
            got1 = call(float(Ts[0]))          # the same form with a scalar temperature
        except Exception as ex:                # a raise is judged, not skipped
            ctx.fail_input("potentialOneLoopThermal with temperature array %r (%s) raises %r" % (
                Ts, form, ex), dict(kind="array_T", Ts=Ts, form=form, xb=xb, xf=xf, dofb=dofb,
                                    doff=doff, raises=repr(ex)), key="array-T:" + form)
            continue
        if got1.shape != (1,) or abs(got1[0] - ref[0]) > 1e-12 * abs(ref[0]) + 1e-300:
            got = got1
        if got.shape != ref.shape or not np.all(np.abs(got - ref) <= 1e-12 * np.abs(ref) + 1e-300):
            ctx.fail_input("potentialOneLoopThermal with temperature array %r (%s): %r, the "
                           "scalar calls give %r" % (Ts, form, got.tolist(), ref.tolist()),
                           dict(kind="array_T", Ts=Ts, form=form, xb=xb, xf=xf, dofb=dofb,
                                doff=doff, got=got.tolist(), want=ref.tolist()),
                           key="array-T:" + form)


def make_plain_call(pot, mb, dofb, mf, doff, T):
    with warnings.catch_warnings():
        warnings.simplefilter("ignore")
        return pot.potentialOneLoopThermal(
            (np.asarray(mb, dtype=float), np.array(dofb, dtype=float), np.full(len(dofb), 1.5),
             np.full(len(dofb), 1.0)),
            (np.asarray(mf, dtype=float), np.array(doff, dtype=float), np.full(len(doff), 1.5),
             np.full(len(doff), 1.0)), float(T))


def shipped_path(ctx, rng, D, objs):
    """The path of the shipped models: EffectivePotentialNoResum(useDefaultInterpolation=True),
    i.e. the GLOBAL defaultIntegrals re-configured by __init__.  Run last (it changes global
    state on the unchanged tree) and undone at the end."""
    from WallGo.PotentialTools import EImaginaryOption
    from WallGo.interpolatableFunction import EExtrapolationType
    tabs = {"Jb": D.Jb, "Jf": D.Jf}
    probes = [-25.0, -20.5, -20.0, 0.3, 999.5, 1000.0, 1500.0, 1.0e4]

    def snapshot():
        out = {}
        for tag, T in tabs.items():
            with warnings.catch_warnings():
                warnings.simplefilter("ignore")
                out[tag] = ([[float(v) for v in np.asarray(T(x), dtype=float).ravel()]
                             for x in probes],
                            T.extrapolationTypeLower.name, T.extrapolationTypeUpper.name,
                            bool(T._bUseAdaptiveInterpolation))
        return out
    before = snapshot()
    # beyond both ends the defaults (extrapolation NONE) evaluate directly: compare with the
    # defining integral
    for tag, T in tabs.items():
        kind, obj = objs[tag]
        for x in [-rng.uniform(20.0, 40.0), -rng.uniform(20.0, 100.0),
                  10.0 ** rng.uniform(3.0, 3.3), 10.0 ** rng.uniform(3.3, 6.0)]:
            with warnings.catch_warnings():
                warnings.simplefilter("ignore")
                got = [float(v) for v in np.asarray(T(x), dtype=float).ravel()]
            ctx.count("defaults_beyond_table_" + tag, bucket="below" if x < 0 else "above")
            classify_integral(ctx, tag, kind, obj, x, got, ref_J(kind, x), 1e-7,
                              "defaultIntegrals (before any potential is built)")
    pot = make_pot("shipped", EImaginaryOption.PRINCIPAL_PART)
    after = snapshot()
    ctx.count("shipped_path_global_state")
    if after != before:
        changed = [(tag, x, b, a) for tag in tabs
                   for x, b, a in zip(probes, before[tag][0], after[tag][0]) if a != b]
        ctx.fail_input(
            "constructing ONE EffectivePotentialNoResum(useDefaultInterpolation=True) changed "
            "the module-level defaultIntegrals for every user: extrapolation %s/%s -> %s/%s; %s" % (
                before["Jb"][1], before["Jb"][2], after["Jb"][1], after["Jb"][2],
                "; ".join("%s(%r): %r -> %r" % c for c in changed[:4])),
            dict(kind="global_state", before=before, after=after, probes=probes),
            key="default-integrals-mutated")
    # the object the potential uses: what it answers beyond the table
    J = {"Jb": pot.integrals.Jb, "Jf": pot.integrals.Jf}
    edge = {}
    for tag, T in J.items():
        with warnings.catch_warnings():
            warnings.simplefilter("ignore")
            edge[tag] = ([float(v) for v in np.asarray(T(-20.0), dtype=float).ravel()],
                         [float(v) for v in np.asarray(T(1000.0), dtype=float).ravel()])
    # INSIDE the table the potential's own copy (rebuilt by setExtrapolationType) must be the global
    # tables bit for bit: nodes, values, first and second derivative -- every in-range check above
    # ran on the global object, this ties them to the object production code evaluates
    table_pot = make_pot(D, EImaginaryOption.PRINCIPAL_PART)
    for tag, G in tabs.items():
        C = J[tag]
        gx = np.asarray(G._interpolationPoints, dtype=float)
        same_nodes = np.array_equal(gx, np.asarray(C._interpolationPoints, dtype=float)) and \
            np.array_equal(np.asarray(G._interpolationValues, dtype=float),
                           np.asarray(C._interpolationValues, dtype=float))
        pts = []
        for i in list(range(0, 12)) + list(range(len(gx) - 13, len(gx) - 1)):
            pts += [float(gx[i] + fr * (gx[i + 1] - gx[i])) for fr in (0.1, 0.5, 0.9)]
        pts += [float(gx[i]) for i in rng.sample(range(1, len(gx) - 1), 20)]
        pts += [rng.uniform(-19.99, 999.9) for _ in range(ctx.n(40, 400))]
        bad = None if same_nodes else ("nodes", None, None, None)
        with warnings.catch_warnings():
            warnings.simplefilter("ignore")
            for x in pts:
                ctx.count("shipped_copy_vs_global_" + tag)
                for what, fg, fc in (
                        ("value", lambda: G(x), lambda: C(x)),
                        ("derivative", lambda: G.derivative(x, 1, True),
                         lambda: C.derivative(x, 1, True)),
                        ("second derivative", lambda: G.derivative(x, 2, True),
                         lambda: C.derivative(x, 2, True))):
                    a = np.asarray(fg(), dtype=float).ravel()
                    b = np.asarray(fc(), dtype=float).ravel()
                    if a.shape != b.shape or not np.array_equal(a, b):
                        bad = bad or (what, x, a.tolist(), b.tolist())
        if bad:
            ctx.fail_input(
                "shipped path: the potential's own %s table differs from the global table INSIDE "
                "the range: %s at x = %r: global %r, copy %r" % (tag, bad[0], bad[1], bad[2],
                                                                  bad[3]),
                dict(kind="shipped_copy", cls=tag, what=bad[0], x=bad[1], glob=bad[2],
                     copy=bad[3]), key="shipped-path:copy-differs-in-range")
        # arrays mixing in-range and out-of-range arguments, 1-D and 2-D (the production call:
        # light and heavy species, array of temperatures) answer element by element
        mix = [rng.uniform(-19.0, 900.0), 10.0 ** rng.uniform(3.1, 5.0), rng.uniform(0.0, 50.0),
               -rng.uniform(21.0, 60.0), rng.uniform(100.0, 999.0), 1000.0 + rng.uniform(0, 1.0)]
        with warnings.catch_warnings():
            warnings.simplefilter("ignore")
            one = [np.asarray(C(x), dtype=float).ravel() for x in mix]
            for shape in ((6,), (2, 3), (3, 2)):
                arr = np.asarray(C(np.array(mix).reshape(shape)), dtype=float)
                ctx.count("shipped_mixed_array_" + tag, bucket=str(shape))
                if arr.shape != shape + (2,) or any(
                        tuple(arr.reshape(-1, 2)[j]) != tuple(one[j]) for j in range(6)):
                    ctx.fail_input("shipped path: %s called with the %r array %r gives %r, the "
                                   "scalar calls %r" % (tag, shape, mix, arr.tolist(),
                                                        [o.tolist() for o in one]),
                                   dict(kind="shipped_array", cls=tag, xs=mix, shape=list(shape),
                                        got=arr.tolist()), key="array-argument:shipped-" + tag)
                    break
            # derivative beyond the upper end: the constant continuation has slope 0
            dup = np.asarray(C.derivative(10.0 ** rng.uniform(3.1, 5.0), 1, True),
                             dtype=float).ravel()
        ctx.count("shipped_derivative_beyond_" + tag)
        if not np.all(np.abs(dup) <= 1e-9):
            ctx.fail_input("shipped path: d%s/dx beyond the upper end of the table is %r" % (
                tag, dup.tolist()), dict(kind="shipped_deriv", cls=tag, got=dup.tolist()),
                key="shipped-path:derivative-beyond")
    # in-range spectra through the shipped potential equal the same through the global tables
    for _ in range(ctx.n(8, 60)):
        T = rng.uniform(0.5, 300.0)
        kb, kf = rng.randint(1, 5), rng.randint(1, 3)
        xb = [rng.choice([0.0, rng.uniform(0, 60.0), rng.uniform(-19.9, 0.0)]) for _ in range(kb)]
        xf = [rng.choice([0.0, rng.uniform(0, 900.0)]) for _ in range(kf)]
        dofb = [float(rng.randint(1, 12)) for _ in range(kb)]
        doff = [float(rng.randint(1, 40)) for _ in range(kf)]
        args = (np.array(xb) * T * T, dofb, np.array(xf) * T * T, doff, T)
        a = float(make_plain_call(pot, *args))
        b = float(make_plain_call(table_pot, *args))
        ctx.count("shipped_pot_vs_global_tables")
        if a != b:
            ctx.fail_input("shipped path: V_T = %r for m^2/T^2 = %r / %r, T = %r, but the global "
                           "tables give %r" % (a, xb, xf, T, b),
                           dict(kind="shipped_pot", xb=xb, xf=xf, dofb=dofb, doff=doff, T=T,
                                got=a, want=b), key="shipped-path:copy-differs-in-range")
    # heavy species must stay suppressed beyond the upper end (x up to 1e6)
    for _ in range(ctx.n(16, 120)):
        x = 10.0 ** rng.uniform(3.0, 6.0)
        T = rng.uniform(1.0, 200.0)
        nb, nf = rng.randint(1, 20), rng.randint(1, 40)
        bos = (np.array([x * T * T]), np.array([float(nb)]), np.full(1, 1.5), np.full(1, 1.0))
        fer = (np.array([x * T * T]), np.array([float(nf)]), np.full(1, 1.5), np.full(1, 1.0))
        with warnings.catch_warnings():
            warnings.simplefilter("ignore")
            got = float(pot.potentialOneLoopThermal(bos, fer, T))
        ctx.count("shipped_path_heavy", bucket="x<1e4" if x < 1e4 else "x>=1e4")
        # true |J| < 1e-12 there; the tables end at |J(1000)| = 4.4e-12 (file noise floor 1e-11)
        bound = (nb + nf) * T ** 4 / (2 * math.pi ** 2) * 1e-10
        if not abs(got) <= bound:
            ctx.fail_input("shipped path (useDefaultInterpolation=True), heavy species "
                           "m^2/T^2 = %r: V = %r, |V| must stay below %r" % (x, got, bound),
                           dict(kind="shipped_heavy", x=x, T=T, nb=nb, nf=nf, got=got),
                           key="shipped-path:heavy")
    # below the lower end
    for tag, T in J.items():
        kind, obj = objs[tag]
        # the recorded input of the known finding first, then seeded ones
        for x in [-25.0, -20.0 - 10.0 ** rng.uniform(-3, 0), -rng.uniform(21.0, 40.0)]:
            with warnings.catch_warnings():
                warnings.simplefilter("ignore")
                got = [float(v) for v in np.asarray(T(x), dtype=float).ravel()]
            want = ref_J(kind, x)
            ctx.count("shipped_path_below_" + tag)
            if all(abs(g - w) <= 1e-6 * max(1.0, abs(w)) for g, w in zip(got, want)):
                continue
            if got == edge[tag][0] and T.extrapolationTypeLower == EExtrapolationType.CONSTANT:
                ctx.fail_input(
                    "shipped path: %s(%r) = %r is the table value at -20 (constant continuation), "
                    "the defining integral is %r" % (tag, x, got, list(want)),
                    dict(kind="shipped_below", cls=tag, x=x, got=got, want=list(want)),
                    key="shipped-path-constant-below-table")
            else:
                classify_integral(ctx, tag, kind, obj, x, got, want, 1e-6,
                                  "shipped path below the table:")
    # the model of Props/C20.v (beyond_table with the generated extrapolation types) against the
    # running objects
    for tag, T in J.items():
        ctx.count("shipped_path_model")
        with warnings.catch_warnings():
            warnings.simplefilter("ignore")
            up = [float(v) for v in np.asarray(T(5000.0), dtype=float).ravel()]
        if T.extrapolationTypeUpper == EExtrapolationType.CONSTANT and up != edge[tag][1]:
            ctx.broken.append("correspondence: %s above the table with CONSTANT extrapolation "
                              "is %r, not the last row %r" % (tag, up, edge[tag][1]))
        if T._bUseAdaptiveInterpolation:
            ctx.fail_input("shipped path: %s is left with adaptive interpolation ON" % tag,
                           dict(kind="shipped_adaptive", cls=tag), key="shipped-path:adaptive")
    # undo the global change so that nothing after this run depends on it
    for T in tabs.values():
        T.setExtrapolationType(EExtrapolationType.NONE, EExtrapolationType.NONE)


def replay(rep):
    print(json.dumps(rep, indent=1))
    from WallGo.PotentialTools import JbIntegral, JfIntegral
    kind = rep.get("kind")
    if kind in ("integral", "table_row", "spline"):
        tag = rep["cls"]
        obj = (JbIntegral if tag == "Jb" else JfIntegral)(bUseAdaptiveInterpolation=False)
        x = rep["x"]
        print("x =", x)
        print("  implementation (direct):", impl_J(obj, x))
        print("  defining integral      :", ref_J("b" if tag == "Jb" else "f", x))
        if x < 0:
            print("  scipy quad, no breaks, exact integrand :", naive_J("b" if tag == "Jb" else "f", x))
            print("  implementation + break points in quad  :", repaired_J(obj, "b" if tag == "Jb" else "f", x))
    if kind == "integrand":
        cls = JbIntegral if rep["cls"] == "Jb" else JfIntegral
        print("  NegReal:", cls._integrandNegativeReal(rep["x"], rep["y"]),
              " NegImag:", cls._integrandNegativeImaginary(rep["x"], rep["y"]))
    return 0
