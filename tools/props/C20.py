"""C20 -- thermal integrals, their shipped tables and the ideal-gas limit."""
import json
import math
import subprocess
import warnings
from fractions import Fraction

import numpy as np
import scipy.integrate

import gen_thermal
import pyrx
import vlib

EXPLANATION = (
    "Generated on every run: the six integrands and the two `wrapper` closures of JbIntegral/"
    "JfIntegral (pyrx), potentialOneLoopThermal with the enum EImaginaryOption (vector-aware "
    "symbolic executor) and the 2 x 10000 rows of the shipped data files (exact rationals). Coq "
    "proves: the negative-argument real integrands are ln|1 -+ e^{-is}| (for all x, y); the "
    "imaginary integrands are the PRINCIPAL argument of 1 -+ e^{-is} up to the regulator, "
    "i.e. (pi-s)/2 + k pi on the k-th sheet (so the unwrapped closed form is refuted for "
    "s > 2 pi) and bounded by y^2 pi/2; the integration pieces meet at sqrt|x| where the two "
    "real integrands agree; the thermal potential is T^4/(2 pi^2) sum n Re J(m^2/T^2) under "
    "each imaginary-part option, reduces to -(pi^2/90)(nb + 7/8 nf)T^4 for massless content "
    "(Jb(0), Jf(0) as hypotheses) and is bounded by the envelope of J for heavy content; the "
    "tables have a uniform strictly increasing grid on [-20,1000], zero imaginary column for "
    "x>0, negative/increasing/concave real part down to the noise floor, bounded fourth "
    "differences (a single corrupted entry breaks this), and imaginary columns equal to the "
    "first-sheet closed forms pi(c^3/6 - x^2/32), pi x^2/32 to 1e-9 (certified enclosures of pi "
    "and sqrt). Model values are compared with the "
    "running code by certified interval evaluation (integrands pointwise, wrappers under a "
    "tagging integrator, potential with stub integrals); the property itself is evaluated on "
    "the implementation against an independent quadrature of the complex logarithm.")

TAB = {"Jb": "PotentialTools/Data/InterpolationTable_Jb.txt",
       "Jf": "PotentialTools/Data/InterpolationTable_Jf.txt"}


# --------------------------------------------------------------------------------------------
# independent reference: quadrature of y^2 Log(1 -+ exp(-sqrt(y^2+x))) with the principal complex
# logarithm (np.log|z|, np.angle z) and break points at the branch points

def _quad(f, a, b, **kw):
    with warnings.catch_warnings():
        warnings.simplefilter("ignore")
        return scipy.integrate.quad(f, a, b, limit=400, epsabs=1e-13, epsrel=1e-13, **kw)[0]


def ref_J(kind, x):
    """(Re J, Im J) for kind 'b' / 'f'"""
    sgn = -1.0 if kind == "b" else 1.0
    pref = 1.0 if kind == "b" else -1.0

    def pos(y):
        return pref * y * y * np.log1p(sgn * np.exp(-np.sqrt(max(y * y + x, 0.0))))
    if x >= 0:
        return _quad(pos, 0, np.inf), 0.0
    c = math.sqrt(-x)
    brk, k = [], 0
    while True:
        s0 = 2 * math.pi * k if kind == "b" else (2 * k + 1) * math.pi
        if s0 * s0 >= -x:
            break
        if s0 > 0:
            brk.append(math.sqrt(-x - s0 * s0))
        k += 1
    edges = sorted([0.0] + brk + [c])

    def z(y):
        return 1 + sgn * np.exp(-1j * math.sqrt(max(-y * y - x, 0.0)))
    re = im = 0.0
    for a, b in zip(edges[:-1], edges[1:]):
        re += _quad(lambda y: pref * y * y * math.log(abs(z(y))), a, b)
        im += _quad(lambda y: pref * y * y * float(np.angle(z(y))), a, b)
    re += _quad(pos, c, np.inf)
    return re, im


def naive_J(kind, x):
    """the SAME quadrature rule as the implementation (scipy quad, limit=100, no break points)
    applied to the reference integrand: separates 'integrand wrong' from 'quadrature missed the
    kink'"""
    sgn = -1.0 if kind == "b" else 1.0
    pref = 1.0 if kind == "b" else -1.0
    c = math.sqrt(-x)

    def z(y):
        return 1 + sgn * np.exp(-1j * math.sqrt(max(-y * y - x, 0.0)))

    def q(f, a, b):
        with warnings.catch_warnings():
            warnings.simplefilter("ignore")
            return scipy.integrate.quad(f, a, b, limit=100)[0]
    re = q(lambda y: pref * y * y * math.log(abs(z(y)) + 1e-100), 0.0, c) + q(
        lambda y: pref * y * y * math.log(1 + sgn * math.exp(-math.sqrt(max(y * y + x, 0.0)))
                                          + 1e-100), c, np.inf)
    im = q(lambda y: pref * y * y * float(np.angle(z(y))), 0.0, c)
    return re, im


def branch_points(kind, x):
    """y in (0, sqrt|x|) where 1 -+ exp(-i sqrt(|x| - y^2)) vanishes"""
    out, k = [], 0
    while True:
        s0 = 2 * math.pi * k if kind == "b" else (2 * k + 1) * math.pi
        if s0 * s0 >= -x:
            return sorted(out)
        if s0 > 0:
            out.append(math.sqrt(-x - s0 * s0))
        k += 1


def repaired_J(obj, kind, x):
    """the implementation's OWN integrands and assembly (its wrapper runs unchanged), with
    `_integrator` replaced by scipy quad that is told the branch points: if this reproduces the
    defining integral, the only faulty ingredient is the call of quad without break points"""
    from WallGo.PotentialTools import integrals as I
    brk = branch_points(kind, x)

    def integ(func, a, b):
        # one quad call per smooth piece (end-point singularities are what QAGS is good at;
        # QAGP with `points=` loses 1e-4 on the logarithmic ones)
        edges = [a] + [p for p in brk if a < p < b] + [b]
        return float(sum(_quad(func, lo, hi) for lo, hi in zip(edges[:-1], edges[1:])))
    saved = I._integrator
    try:
        I._integrator = integ
        r = np.asarray(obj._functionImplementation(float(x)), dtype=float).ravel()
    finally:
        I._integrator = saved
    return float(r[0]), float(r[1])


def impl_J(obj, x):
    with warnings.catch_warnings():
        warnings.simplefilter("ignore")
        r = np.asarray(obj(float(x), bUseInterpolatedValues=False), dtype=float).ravel()
    return float(r[0]), float(r[1])


# --------------------------------------------------------------------------------------------

def dy(rng, lo, hi, bits=10):
    """random dyadic rational in [lo, hi]"""
    n = rng.randint(int(math.ceil(lo * 2 ** bits)), int(math.floor(hi * 2 ** bits)))
    return Fraction(n, 2 ** bits)


def R(q):
    return pyrx.rlit(Fraction(q))


def tol_of(v, rel=1e-9, ab=1e-12):
    return Fraction(abs(Fraction(v))) * Fraction(rel).limit_denominator(10 ** 12) + \
        Fraction(ab).limit_denominator(10 ** 15)


def compile_parallel(ctx, files, what, timeout=600):
    """files: list of (label, path, ngoals). Returns labels that failed."""
    procs = [(lab, p, n, subprocess.Popen(
        ["timeout", str(timeout), "coqc"] + ctx.coq_args() + [p], cwd=ctx.bdir,
        stdout=subprocess.PIPE, stderr=subprocess.PIPE, text=True)) for lab, p, n in files]
    bad = []
    for lab, p, n, pr in procs:
        out, err = pr.communicate()
        for _ in range(n):
            ctx.count("certified_" + what)
        if pr.returncode != 0:
            bad.append(lab)
            ctx.broken.append("correspondence: %s %s" % (what, lab))
            ctx.log("certified evaluation failed (%s %s):" % (what, lab), vlib.tail(err, 8))
    return bad


# -- (a) integrands pointwise ---------------------------------------------------------------

def integrand_cases(ctx, rng, n):
    from WallGo.PotentialTools import JbIntegral, JfIntegral
    out = []
    for tag, cls in (("Jb", JbIntegral), ("Jf", JfIntegral)):
        for short, meth in (("PosReal", "_integrandPositiveReal"),
                            ("NegReal", "_integrandNegativeReal"),
                            ("NegImag", "_integrandNegativeImaginary")):
            got = 0
            guard = 0
            while got < n and guard < 50 * n:
                guard += 1
                if short == "PosReal":
                    x = dy(rng, -100, 40)
                    ylo = math.sqrt(max(-float(x), 0.0))
                    y = dy(rng, ylo + 1 / 64, ylo + 12)
                else:
                    x = dy(rng, -100, -1 / 32)
                    y = dy(rng, 0, math.sqrt(-float(x)) - 1 / 1024)
                    s2 = 0.5 * math.sqrt(-float(y) ** 2 - float(x))
                    if min(abs(math.sin(s2)), abs(math.cos(s2))) < 1e-3:
                        continue
                v = float(getattr(cls, meth)(float(x), float(y)))
                if not math.isfinite(v):
                    continue
                got += 1
                sheet = int(math.sqrt(max(-float(y) ** 2 - float(x), 0)) // (2 * math.pi))
                ctx.count("integrand_" + tag + short, dict(x=str(x), y=str(y)),
                          bucket="sheet%d" % sheet if short != "PosReal" else
                          ("x<0" if x < 0 else "x>=0"))
                out.append((tag + short, x, y, v))
    return out


INTEGRAND_HDR = """From Coq Require Import Reals Lra.
From Interval Require Import Tactic.
From WG Require Import Lib.NumpySem.
From GenC20 Require Import Integrands.
Local Open Scope R_scope.
Definition e0 := mk_env (fun _ _ _ => 0) (fun _ _ => 0).
(* tagging integrator: records which function is integrated over which interval *)
Definition eT := mk_env (fun f a b => f ((a + b) / 2) * 3 + a * 5 + b * 7)
                        (fun f a => f (a + 1 / 2) * 11 + a * 13).
(* Interval's tan only covers the principal range: unfold it into sin / cos *)
Ltac ev := unfold JbPosReal, JbNegReal, JbNegImag, JfPosReal, JfNegReal, JfNegImag, tan;
  interval with (i_prec 120).
Ltac evw := unfold JbWrapper, JfWrapper;
  match goal with |- context [Rle_dec ?a ?b] =>
    destruct (Rle_dec a b); [try (exfalso; lra) | try (exfalso; lra)] end;
  cbn [fst snd eT quad quad_inf]; split; ev.
"""


def integrand_file(rows):
    goals = ["Goal Rabs (%s e0 %s %s - %s) <= %s.\nProof. ev. Qed." % (
        fn, R(x), R(y), R(Fraction(v)), R(tol_of(v))) for fn, x, y, v in rows]
    return INTEGRAND_HDR + "\n".join(goals) + "\n"


# -- (b) wrappers under the tagging integrator ---------------------------------------------------

def wrapper_cases(ctx, rng, n):
    from WallGo.PotentialTools import integrals as I

    def tag_integrator(func, a, b):
        if np.isinf(b):
            return float(func(a + 0.5) * 11 + a * 13)
        return float(func((a + b) / 2) * 3 + a * 5 + b * 7)
    saved = I._integrator
    rows = []
    try:
        I._integrator = tag_integrator
        for tag, cls in (("Jb", I.JbIntegral), ("Jf", I.JfIntegral)):
            obj = cls(bUseAdaptiveInterpolation=False)
            xs = [Fraction(0), dy(rng, 1 / 8, 30), dy(rng, 30, 900)] + \
                [dy(rng, -100, -1 / 8) for _ in range(n)]
            for x in xs:
                # dyadic square roots only where needed: the split sqrt|x| is irrational in
                # general, the model computes it with `sqrt`, interval arithmetic encloses it
                r = np.asarray(obj._functionImplementation(float(x)), dtype=float).ravel()
                if not np.all(np.isfinite(r)):
                    continue
                ctx.count("wrapper_" + tag, dict(x=str(x)),
                          bucket="x<0" if x < 0 else "x>=0")
                rows.append((tag, x, float(r[0]), float(r[1])))
    finally:
        I._integrator = saved
    return rows


def wrapper_file(rows):
    goals = []
    for tag, x, re, im in rows:
        goals.append("Goal Rabs (fst (%sWrapper eT %s) - %s) <= %s /\\ "
                     "Rabs (snd (%sWrapper eT %s) - %s) <= %s.\nProof. evw. Qed." % (
                         tag, R(x), R(Fraction(re)), R(tol_of(re, 1e-8, 1e-9)),
                         tag, R(x), R(Fraction(im)), R(tol_of(im, 1e-8, 1e-9))))
    return INTEGRAND_HDR + "\n".join(goals) + "\n"


# -- (c) thermal sum with stub integrals ----------------------------------------------------------

SUM_HDR = """From Coq Require Import Reals Lra List Bool.
From Interval Require Import Tactic.
From WG Require Import Lib.ThermalSum.
From GenC20 Require Import ThermalSumGen.
Import ListNotations.
Local Open Scope R_scope.
Definition eS := mk_env (fun x => (x / (1 + x * x) - 2, x / 4))
                        (fun x => (1 / (2 + x * x) - x / 16, - x)).
Ltac decide1 :=
  match goal with |- context [Rlt_dec ?a ?b] =>
    let H := fresh in destruct (Rlt_dec a b) as [H|H];
    [ try (exfalso; apply (Rlt_not_le _ _ H); interval)
    | try (exfalso; apply H; interval) ] end.
Ltac redS := unfold potentialOneLoopThermal;
  repeat (cbn [EImaginaryOption_eq_dec EImaginaryOption_rec EImaginaryOption_rect sumbool_rec
               sumbool_rect map existsb zipR sumR fst snd Jb Jf eS orb andb];
          try decide1).
Ltac some := redS; eexists; split; [reflexivity | unfold SMALL_NUMBER; interval with (i_prec 100)].
Ltac none := redS; reflexivity.
"""


def make_pot(integrals, opt):
    from WallGo.PotentialTools import EffectivePotentialNoResum

    class OneLoop(EffectivePotentialNoResum):
        fieldCount = 1

        def evaluate(self, fields, temperature):
            raise NotImplementedError

        def bosonInformation(self, fields, temperature):
            raise NotImplementedError

        def fermionInformation(self, fields, temperature):
            raise NotImplementedError
    if integrals is None:
        return OneLoop(imaginaryOption=opt)
    return OneLoop(integrals=integrals, imaginaryOption=opt)


class StubJ:
    def __init__(self, fre, fim):
        self.fre, self.fim = fre, fim

    def __call__(self, x):
        x = np.asarray(x, dtype=float)
        return np.stack([self.fre(x), self.fim(x)], axis=-1)


class StubIntegrals:
    def __init__(self):
        self.Jb = StubJ(lambda x: x / (1 + x * x) - 2, lambda x: x / 4)
        self.Jf = StubJ(lambda x: 1 / (2 + x * x) - x / 16, lambda x: -x)


def sum_cases(ctx, rng, n):
    from WallGo.PotentialTools import EImaginaryOption
    rows = []
    stub = StubIntegrals()
    for k in range(n):
        opt = ["ERROR", "ABS_ARGUMENT", "ABS_RESULT", "PRINCIPAL_PART"][k % 4]
        nb, nf = rng.randint(1, 4), rng.randint(1, 3)
        allow_neg = rng.random() < 0.6
        mB = [dy(rng, -40 if allow_neg else 0, 200, 4) for _ in range(nb)]
        mF = [dy(rng, -8 if (allow_neg and rng.random() < 0.3) else 0, 200, 4)
              for _ in range(nf)]
        dB = [Fraction(rng.randint(1, 24)) for _ in range(nb)]
        dF = [Fraction(rng.randint(1, 12)) for _ in range(nf)]
        T = dy(rng, 1 / 4, 12, 4)
        pot = make_pot(stub, getattr(EImaginaryOption, opt))
        bosons = (np.array([float(m) for m in mB]), np.array([float(d) for d in dB]),
                  np.full(nb, 1.5), np.full(nb, 100.0))
        fermions = (np.array([float(m) for m in mF]), np.array([float(d) for d in dF]),
                    np.full(nf, 1.5), np.full(nf, 100.0))
        try:
            v = float(pot.potentialOneLoopThermal(bosons, fermions, float(T)))
        except ValueError:
            v = None
        neg = any(m < 0 for m in mB + mF)
        ctx.count("thermal_sum", dict(opt=opt, mB=[str(m) for m in mB], mF=[str(m) for m in mF],
                                      T=str(T)), bucket="%s/%s" % (opt, "neg" if neg else "nonneg"))
        rows.append((opt, mB, dB, mF, dF, T, v))
    return rows


def sum_file(rows):
    goals = []
    for opt, mB, dB, mF, dF, T, v in rows:
        call = "potentialOneLoopThermal eS %s [%s] [%s] [%s] [%s] %s" % (
            opt, "; ".join(R(m) for m in mB), "; ".join(R(d) for d in dB),
            "; ".join(R(m) for m in mF), "; ".join(R(d) for d in dF), R(T))
        if v is None:
            goals.append("Goal %s = None.\nProof. none. Qed." % call)
        else:
            goals.append("Goal exists v, %s = Some v /\\ Rabs (v - %s) <= %s.\nProof. some. "
                         "Qed." % (call, R(Fraction(v)), R(tol_of(v, 1e-9, 1e-9))))
    return SUM_HDR + "\n".join(goals) + "\n"


# --------------------------------------------------------------------------------------------
# direct validation

def check_integrands_direct(ctx, rng, n):
    """the generated-from integrands against the principal complex logarithm, pointwise"""
    from WallGo.PotentialTools import JbIntegral, JfIntegral
    for tag, cls, sgn, pref in (("Jb", JbIntegral, -1.0, 1.0), ("Jf", JfIntegral, 1.0, -1.0)):
        for _ in range(n):
            x = -rng.uniform(0.01, 120.0)
            y = rng.uniform(0.0, math.sqrt(-x))
            s = math.sqrt(max(-y * y - x, 0.0))
            z = 1 + sgn * np.exp(-1j * s)
            if abs(z) < 1e-4 or abs(z.real) < 1e-6:
                continue          # at a branch point / on the cut the value is convention
            sheet = int(s // (2 * math.pi))
            ctx.count("direct_integrand_" + tag, bucket="sheet%d" % sheet)
            want_re = pref * y * y * math.log(abs(z))
            want_im = pref * y * y * float(np.angle(z))
            got_re = float(cls._integrandNegativeReal(x, y))
            got_im = float(cls._integrandNegativeImaginary(x, y))
            scale = y * y + 1e-30
            if abs(got_re - want_re) > 1e-9 * scale * (1 + abs(math.log(abs(z)))):
                ctx.fail_input(
                    "%sIntegral._integrandNegativeReal(%r, %r) = %r but Re y^2 Log(1%+d e^{-is}) "
                    "= %r" % (tag, x, y, got_re, int(sgn), want_re),
                    dict(kind="integrand", cls=tag, part="real", x=x, y=y, got=got_re,
                         want=want_re), key="integrand:%s:real" % tag)
            if abs(got_im - want_im) > 1e-9 * scale:
                ctx.fail_input(
                    "%sIntegral._integrandNegativeImaginary(%r, %r) = %r but the principal "
                    "argument gives %r (s = %.6f, sheet %d)" % (tag, x, y, got_im, want_im, s,
                                                                 sheet),
                    dict(kind="integrand", cls=tag, part="imag", x=x, y=y, got=got_im,
                         want=want_im, s=s), key="integrand:%s:imag" % tag)


# below these arguments the negative-argument integrand has an interior kink / jump
KINK = {"f": -math.pi ** 2, "b": -4 * math.pi ** 2}


def classify_integral(ctx, tag, kind, obj, x, got, want, tol, where):
    """got/want: (re, im). Reports a failing input; the key separates a quadrature that silently
    missed the interior kink/jump (same rule on the reference integrand reproduces the error) from
    a wrong integrand / assembly."""
    for part, g, w in (("real", got[0], want[0]), ("imag", got[1], want[1])):
        if abs(g - w) <= tol * max(1.0, abs(w)):
            continue
        key = "integral:%s:%s" % (tag, part)
        note = ""
        if x < KINK[kind]:
            rv = repaired_J(obj, kind, x)[0 if part == "real" else 1]
            if abs(rv - w) <= 1e-8 * max(1.0, abs(w)):
                key = "quad-unresolved-kink"
                note = " [the same code with break points handed to quad gives %r]" % rv
        ctx.fail_input("%s %s(%r): %s part %r, defining integral %r (diff %.3g)%s" % (
            where, tag, x, part, g, w, g - w, note),
            dict(kind="integral", cls=tag, x=x, part=part, got=g, want=w, where=where),
            key=key)
        return False
    return True


def run(ctx):
    import logging
    logging.getLogger().setLevel(logging.ERROR)
    rng = ctx.rng
    # ---- 1. generate ---------------------------------------------------------------------------
    gen_ok = True
    extra = []
    src_i = vlib.read_src("PotentialTools/integrals.py")
    src_p = vlib.read_src("PotentialTools/effectivePotentialNoResum.py")
    try:
        text, spans, _ = gen_thermal.integrals(src_i)
        ctx.write("Integrands.v", text, sources=dict(
            file="src/WallGo/PotentialTools/integrals.py", sha=vlib.sha(src_i), spans=spans))
        extra.append("Integrands.v")
        text, spans = gen_thermal.thermal_sum(src_p)
        ctx.write("ThermalSumGen.v", text, sources=dict(
            file="src/WallGo/PotentialTools/effectivePotentialNoResum.py", sha=vlib.sha(src_p),
            spans=spans))
        extra.append("ThermalSumGen.v")
        src_b = vlib.read_src("interpolatableFunction.py")
        ctx.write("Ctors.v", gen_thermal.constructors(src_i, src_b), sources=dict(
            file="src/WallGo/PotentialTools/integrals.py + src/WallGo/interpolatableFunction.py",
            sha=vlib.sha(src_i + src_b)))
        extra.append("Ctors.v")
        tabrows = {}
        for nm, rel in TAB.items():
            with open(vlib.src_path(rel)) as f:
                raw = f.read()
            text, tabrows[nm] = gen_thermal.table(raw, nm)
            ctx.write("Tab%s.v" % nm, text, sources=dict(file="src/WallGo/" + rel,
                                                         sha=vlib.sha(raw)))
            extra.append("Tab%s.v" % nm)
    except pyrx.TranslateError as e:
        ctx.log("translator failed:", e)
        ctx.broken.append("translator: %s" % e)
        gen_ok = False
    # ---- 2. prove ------------------------------------------------------------------------------
    proved = gen_ok and ctx.prove(extra=extra, timeout=900)
    ctx.trusted += ["tools/pyrx.py + tools/gen_thermal.py (AST translators, decimal -> "
                    "(mantissa, exponent) conversion cross-checked by a Gallina parser on a sample)",
                    "Interval tactic (certified evaluation)",
                    "kernel primitive 63-bit integers (table literals)"]
    # ---- 3. correspondence -----------------------------------------------------------------------
    import os
    have = {f: os.path.exists(os.path.join(ctx.bdir, f.replace(".v", ".vo"))) for f in extra}
    files = []
    if have.get("Integrands.v"):
        rows = integrand_cases(ctx, rng, ctx.n(12, 120))
        per = 24
        for k in range(0, len(rows), per):
            files.append(("integrands_%d" % (k // per), ctx.write(
                "Cases/Integrand_%d.v" % (k // per), integrand_file(rows[k:k + per])),
                len(rows[k:k + per])))
        ctx.sample(dict(integrand=[(r[0], str(r[1]), str(r[2]), r[3]) for r in rows[:3]]))
        wrows = wrapper_cases(ctx, rng, ctx.n(6, 40))
        per = 10
        for k in range(0, len(wrows), per):
            files.append(("wrappers_%d" % (k // per), ctx.write(
                "Cases/Wrapper_%d.v" % (k // per), wrapper_file(wrows[k:k + per])),
                len(wrows[k:k + per])))
        ctx.sample(dict(wrapper=[(r[0], str(r[1]), r[2], r[3]) for r in wrows[:2]]))
    if have.get("ThermalSumGen.v"):
        srows = sum_cases(ctx, rng, ctx.n(16, 200))
        per = 8
        for k in range(0, len(srows), per):
            files.append(("sum_%d" % (k // per), ctx.write(
                "Cases/Sum_%d.v" % (k // per), sum_file(srows[k:k + per])),
                len(srows[k:k + per])))
        ctx.sample(dict(thermal_sum=[(r[0], [str(m) for m in r[1]], str(r[5]), r[6])
                                     for r in srows[:2]]))
    # run in batches of 12 processes
    for k in range(0, len(files), 12):
        compile_parallel(ctx, files[k:k + 12], "eval")
    # tables: the generated rows are exactly what the running package loaded
    from WallGo import PotentialTools
    D = PotentialTools.defaultIntegrals
    if gen_ok:
        for nm, obj in (("Jb", D.Jb), ("Jf", D.Jf)):
            xs = np.asarray(obj._interpolationPoints, dtype=float)
            vs = np.asarray(obj._interpolationValues, dtype=float)
            rows = tabrows[nm]
            ok = len(rows) == len(xs) and vs.shape == (len(xs), 2)
            bad = None
            if ok:
                for i, r in enumerate(rows):
                    ctx.count("table_rows_" + nm)
                    if float(r[0]) != xs[i] or float(r[1]) != vs[i, 0] or float(r[2]) != vs[i, 1]:
                        ok, bad = False, i
                        break
            if not ok:
                ctx.broken.append("correspondence: generated %s table differs from the loaded "
                                  "interpolation data (row %s)" % (nm, bad))
    # ---- 4. direct validation ----------------------------------------------------------------------
    direct(ctx, rng, D)
    ctx.cov["rule"] = (
        "integrands: random dyadic (x, y) with x in [-100, 40], all sheets s < 10 (bucketed by "
        "sheet), away (1e-3) from the zeros of sin/cos(s/2); wrappers: x = 0, two positive and "
        "several negative dyadic arguments under a tagging integrator; thermal sum: all four "
        "imaginary-part options x (with / without negative masses), 1-4 bosons, 1-3 fermions; "
        "tables: every row compared with the loaded arrays; direct: random x in [-100, 0) and "
        "[0, 1200], table rows (all negative rows, a stratified sample of positive ones in the "
        "quick tier, all in the thorough tier), spline midpoints, derivative by central "
        "differences of the reference")
    ctx.assumptions += [
        "scipy.integrate.quad returns the integral of the function it is given (external; "
        "validated per argument against an independent quadrature with break points -- it "
        "FAILS for integrands with an interior kink, reported under key quad-unresolved-kink)",
        "Jb(0) = -pi^4/45, Jf(0) = -7 pi^4/360 (hypotheses of stefan_boltzmann_limit; checked "
        "numerically to 1e-9)",
        "scalar temperature; particle arrays of equal length (numpy broadcasting not modelled)"]


def history_checks(ctx, rng):
    """The value returned for an argument must not depend on how many evaluations preceded it.
    One object per (class, constructor setting) and the default Integrals() object evaluate a scan
    of >= 600 distinct arguments (the adaptive machinery triggers after 500); first / last /
    re-evaluated values are compared with a fresh object and with the independent quadrature."""
    from WallGo.PotentialTools import JbIntegral, JfIntegral, Integrals, EImaginaryOption
    nscan = ctx.n(620, 1300)

    def val(o, x):
        with warnings.catch_warnings():
            warnings.simplefilter("ignore")
            return [float(v) for v in np.asarray(o(float(x)), dtype=float).ravel()]

    def scan_object(label, make, kind, xs, probes, adaptive):
        obj = make()
        first = val(obj, xs[0])
        for x in xs[1:]:
            val(obj, x)
        ctx.count("history_scan", dict(label=label), bucket=label)
        if not adaptive:
            if obj.hasInterpolation() or getattr(obj, "_bUseAdaptiveInterpolation", False):
                ctx.fail_input(
                    "%s: after %d direct evaluations hasInterpolation() = %r, adaptive flag = %r "
                    "although adaptive interpolation was switched off" % (
                        label, len(xs), obj.hasInterpolation(),
                        getattr(obj, "_bUseAdaptiveInterpolation", None)),
                    dict(kind="history", label=label, n=len(xs), xmin=min(xs), xmax=max(xs)),
                    key="history:adaptive-on:" + label)
        for x in [xs[0], xs[-1]] + probes:
            again = val(obj, x)
            fresh = val(make(), x)
            want = ref_J(kind, x)
            ctx.count("history_probe", bucket=label)
            tol = 1e-7 if not adaptive else 1e-6
            bad = None
            if not adaptive and again != fresh:
                bad = "differs from a fresh object"
            for g, w in zip(again, want):
                if abs(g - w) > tol * max(1.0, abs(w)):
                    bad = bad or "differs from the defining integral"
            if x == xs[0] and not adaptive and first != again:
                bad = bad or "changed between the first and a later evaluation"
            if bad:
                ctx.fail_input(
                    "%s(%r) after a scan of %d distinct arguments in [%g, %g]: %r, fresh object "
                    "%r, defining integral %r (%s)" % (label, x, len(xs), min(xs), max(xs),
                                                       again, fresh, list(want), bad),
                    dict(kind="history", label=label, x=x, n=len(xs), xmin=min(xs),
                         xmax=max(xs), got=again, fresh=fresh, want=list(want)),
                    key="history:" + label)
                return

    for tag, cls, kind in (("Jb", JbIntegral, "b"), ("Jf", JfIntegral, "f")):
        # adaptive off (explicitly): wide scan, heavy and light arguments
        wide = sorted(set(rng.uniform(0.0, 900.0) for _ in range(nscan)))
        rng.shuffle(wide)
        probes = [rng.uniform(0.0, 5.0), rng.uniform(5.0, 100.0), rng.uniform(100.0, 800.0)]
        scan_object("%sIntegral(bUseAdaptiveInterpolation=False)" % tag,
                    lambda cls=cls: cls(bUseAdaptiveInterpolation=False), kind, wide, probes,
                    adaptive=False)
        scan_object("Integrals().%s" % tag,
                    lambda tag=tag: getattr(Integrals(), tag), kind, wide, probes,
                    adaptive=False)
        # adaptive on (the user asked for it): a range the 1000-point table resolves
        narrow = sorted(set(rng.uniform(5.0, 60.0) for _ in range(nscan)))
        rng.shuffle(narrow)
        scan_object("%sIntegral(bUseAdaptiveInterpolation=True)" % tag,
                    lambda cls=cls: cls(bUseAdaptiveInterpolation=True), kind, narrow,
                    [rng.uniform(6.0, 59.0) for _ in range(3)], adaptive=True)
    # the thermal potential with its default integrals: a temperature scan with a heavy fermion
    def one(pot, T, mb2, mf2):
        bos = (np.array([mb2]), np.array([3.0]), np.full(1, 1.5), np.full(1, 100.0))
        fer = (np.array([mf2]), np.array([12.0]), np.full(1, 1.5), np.full(1, 100.0))
        with warnings.catch_warnings():
            warnings.simplefilter("ignore")
            return float(pot.potentialOneLoopThermal(bos, fer, T))
    pot = make_pot(None, EImaginaryOption.PRINCIPAL_PART)
    mb2, mf2 = 50.0 ** 2, 170.0 ** 2
    temps = [8.0 * 1.0065 ** k for k in range(ctx.n(620, 1300))]    # x = m^2/T^2 from ~450 down
    first = one(pot, temps[0], mb2, mf2)
    for T in temps[1:]:
        one(pot, T, mb2, mf2)
    ctx.count("history_scan", bucket="potentialOneLoopThermal(default integrals)")
    for T in [temps[0], temps[-1], temps[len(temps) // 2], temps[len(temps) // 3] * 1.003]:
        again = one(pot, T, mb2, mf2)
        fresh = one(make_pot(None, EImaginaryOption.PRINCIPAL_PART), T, mb2, mf2)
        want = T ** 4 / (2 * math.pi ** 2) * (3.0 * ref_J("b", mb2 / T ** 2)[0] +
                                              12.0 * ref_J("f", mf2 / T ** 2)[0])
        ctx.count("history_probe", bucket="potentialOneLoopThermal")
        sc = T ** 4 / (2 * math.pi ** 2) * 15.0
        if again != fresh or abs(again - want) > 1e-7 * sc or \
                (T == temps[0] and again != first):
            ctx.fail_input(
                "potentialOneLoopThermal (default integrals) at T = %r after a scan of %d "
                "temperatures: %r, fresh object %r, expected %r" % (T, len(temps), again, fresh,
                                                                    want),
                dict(kind="history_pot", T=T, n=len(temps), mb2=mb2, mf2=mf2, got=again,
                     fresh=fresh, want=want), key="history:potential")
            break
    for tag in ("Jb", "Jf"):
        o = getattr(pot.integrals, tag)
        if o.hasInterpolation():
            ctx.fail_input("EffectivePotentialNoResum() default integrals: %s has built an "
                           "interpolation table on its own during the scan" % tag,
                           dict(kind="history_pot", tag=tag, n=len(temps)),
                           key="history:adaptive-on:potential-" + tag)


def direct(ctx, rng, D):
    from WallGo.PotentialTools import JbIntegral, JfIntegral, Integrals, EImaginaryOption
    history_checks(ctx, rng)
    objs = {"Jb": ("b", JbIntegral(bUseAdaptiveInterpolation=False)),
            "Jf": ("f", JfIntegral(bUseAdaptiveInterpolation=False))}
    tabs = {"Jb": D.Jb, "Jf": D.Jf}
    vs_all = {t: np.asarray(tabs[t]._interpolationValues, dtype=float) for t in tabs}
    # (0) the recorded known finding is replayed first (deterministic KNOWN-FINDING line; silent
    #     if the code has been repaired)
    for k in ctx.known.get("findings", []):
        if k.get("property") == "C20" and k.get("key") == "quad-unresolved-kink":
            rp = k.get("replay", {})
            tag = rp.get("cls", "Jf")
            x = float(rp.get("x", -13.1653165316532))
            kind, obj = objs[tag]
            ctx.count("known_finding_replay")
            classify_integral(ctx, tag, kind, obj, x, impl_J(obj, x), ref_J(kind, x), 1e-7,
                              "direct")
    # (i) integrands pointwise
    check_integrands_direct(ctx, rng, ctx.n(400, 4000))
    # (ii) direct integrals vs the defining integral, negative arguments beyond the table too
    nneg, npos = ctx.n(40, 1500), ctx.n(12, 300)
    for tag, (kind, obj) in objs.items():
        xs = [-rng.uniform(0.01, 100.0) for _ in range(nneg)] + \
             [-20.5, -39.0, -41.0, -60.0, -100.0] + \
             [rng.uniform(0, 1200.0) for _ in range(npos)] + [0.0]
        for x in xs:
            got = impl_J(obj, x)
            want = ref_J(kind, x)
            ctx.count("direct_integral_" + tag, bucket=(
                "x>=0" if x >= 0 else "x<-4pi^2" if x < -39.48 else "x<-pi^2" if x < -9.87
                else "-pi^2<x<0"))
            classify_integral(ctx, tag, kind, obj, x, got, want, 1e-7, "direct")
    # values at zero
    for tag, exact in (("Jb", -math.pi ** 4 / 45), ("Jf", -7 * math.pi ** 4 / 360)):
        got = impl_J(objs[tag][1], 0.0)
        ctx.count("value_at_zero")
        if abs(got[0] - exact) > 1e-9 or got[1] != 0.0:
            ctx.fail_input("%s(0) = %r, closed form %r" % (tag, got, exact),
                           dict(kind="zero", cls=tag, got=got, want=exact), key="zero:" + tag)
    # first-sheet closed forms of the imaginary parts (used by tables_imag_closed_form): the
    # elementary integrals are not proved in Coq, so they are validated here against the
    # independent quadrature AND the implementation
    for _ in range(ctx.n(12, 120)):
        xb = -rng.uniform(0.01, 4 * math.pi ** 2 - 0.01)
        xf = -rng.uniform(0.01, math.pi ** 2 - 0.01)
        cb = math.sqrt(-xb)
        for tag, x, closed in (("Jb", xb, math.pi * (cb ** 3 / 6 - xb * xb / 32)),
                               ("Jf", xf, math.pi * xf * xf / 32)):
            kind, obj = objs[tag]
            ctx.count("closed_form_imag_" + tag)
            r, g = ref_J(kind, x)[1], impl_J(obj, x)[1]
            if abs(r - closed) > 1e-9 * max(1.0, abs(closed)) or \
                    abs(g - closed) > 1e-8 * max(1.0, abs(closed)):
                ctx.fail_input("Im %s(%r): implementation %r, quadrature %r, closed form %r" % (
                    tag, x, g, r, closed), dict(kind="closed", cls=tag, x=x, got=g, ref=r,
                                                closed=closed), key="closed-form:" + tag)
    # (iii) table rows against the defining integral (value) -- every negative row always
    for tag, (kind, obj) in objs.items():
        T = tabs[tag]
        xs = np.asarray(T._interpolationPoints, dtype=float)
        vs = np.asarray(T._interpolationValues, dtype=float)
        n = len(xs)
        idx = [i for i in range(n) if xs[i] < 0]
        pos = [i for i in range(n) if xs[i] >= 0]
        if ctx.quick:
            step = max(1, len(pos) // 60)
            idx += pos[::step] + pos[:12] + [pos[-1]]
        else:
            idx += pos
        for i in sorted(set(idx)):
            x = float(xs[i])
            want = ref_J(kind, x)
            ctx.count("table_row_vs_integral_" + tag, bucket="x<0" if x < 0 else "x>=0")
            got = (float(vs[i, 0]), float(vs[i, 1]))
            if all(abs(g - w) <= 2e-8 * max(1.0, abs(w)) for g, w in zip(got, want)):
                continue
            # does the row at least reproduce the current implementation?
            cur = impl_J(obj, x)
            if all(abs(g - c) <= 1e-8 * max(1.0, abs(c)) for g, c in zip(got, cur)):
                classify_integral(ctx, tag, kind, obj, x, cur, want, 2e-8,
                                  "shipped table row %d =" % i)
            else:
                ctx.fail_input(
                    "shipped %s table row %d (x = %r): (%r, %r) but the integral is (%r, %r) "
                    "and the direct evaluation gives (%r, %r)" % (
                        tag, i, x, got[0], got[1], want[0], want[1], cur[0], cur[1]),
                    dict(kind="table_row", cls=tag, row=i, x=x, table=got, integral=want,
                         direct=cur), key="table-row:%s" % tag)
    # (iv) spline between the nodes and first derivative (central difference of the reference)
    for tag, (kind, obj) in objs.items():
        T = tabs[tag]
        xs = np.asarray(T._interpolationPoints, dtype=float)
        grid = float(xs[1] - xs[0])
        cand = [0.5 * (xs[i] + xs[i + 1]) for i in
                sorted(rng.sample(range(0, 197), ctx.n(16, 196)) +
                       rng.sample(range(197, 1200), ctx.n(16, 300)) +
                       rng.sample(range(1200, len(xs) - 1), ctx.n(8, 300)))]
        h = 1e-3
        for x in cand:
            x = float(x)
            near0 = abs(x) < 1.0
            nearpi = tag == "Jf" and abs(x + math.pi ** 2) < 1.0
            # a cubic spline cannot follow the x^{3/2} non-analyticity at 0 nor the one of Jf at
            # -pi^2: measured 1e-3 / 3e-3 in the value and 1e-2 / 4e-2 in the derivative there
            tolv = 2e-3 if near0 else 6e-3 if nearpi else 1e-6
            told = 2e-2 if near0 else 8e-2 if nearpi else 2e-5
            # this check is about the INTERPOLATION: errors of the nodes themselves (reported by
            # (iii)) are allowed to propagate the way a cubic spline propagates them: a node
            # error e at distance k nodes moves the value by <= ~e (2 - sqrt 3)^k and the
            # derivative by <= ~3 e (2 - sqrt 3)^k / grid step
            i0 = int(np.searchsorted(xs, x))
            nerr = 0.0
            if x < KINK[kind] + 15 * grid:
                for j in range(max(0, i0 - 14), min(len(xs), i0 + 14)):
                    if xs[j] >= KINK[kind]:
                        continue
                    w = ref_J(kind, float(xs[j]))
                    e = max(abs(float(vs_all[tag][j, 0]) - w[0]),
                            abs(float(vs_all[tag][j, 1]) - w[1]))
                    nerr = max(nerr, e * 0.3 ** max(0.0, abs(x - xs[j]) / grid - 1.0))
            tolv += 2 * nerr
            told += 3 * nerr / grid
            want = ref_J(kind, x)
            with warnings.catch_warnings():
                warnings.simplefilter("ignore")
                got = [float(v) for v in np.asarray(T(x), dtype=float).ravel()]
                dgot = [float(v) for v in np.asarray(T.derivative(x, 1, True),
                                                     dtype=float).ravel()]
            wp, wm = ref_J(kind, x + h), ref_J(kind, x - h)
            dwant = [(wp[0] - wm[0]) / (2 * h), (wp[1] - wm[1]) / (2 * h)]
            ctx.count("spline_midpoint_" + tag, bucket="|x|<1" if near0 else
                      "x<0" if x < 0 else "x>0")
            for part in (0, 1):
                bad_v = abs(got[part] - want[part]) > tolv * max(1.0, abs(want[part]))
                bad_d = abs(dgot[part] - dwant[part]) > told * max(1.0, abs(dwant[part]))
                if not (bad_v or bad_d):
                    continue
                ctx.fail_input(
                    "default %s table at x = %r (%s part): value %r vs integral %r, derivative "
                    "%r vs %r" % (tag, x, "real" if part == 0 else "imag", got[part],
                                  want[part], dgot[part], dwant[part]),
                    dict(kind="spline", cls=tag, x=x, part=part, got=float(got[part]),
                         want=want[part], dgot=float(dgot[part]), dwant=dwant[part]),
                    key="spline:%s" % tag)
                break
    # (v) one-loop thermal potential on the real integrals: Stefan-Boltzmann, heavy-mass
    #     suppression, continuity in the masses
    direct_pot = make_pot(Integrals(), EImaginaryOption.PRINCIPAL_PART)
    table_pot = make_pot(D, EImaginaryOption.PRINCIPAL_PART)
    for _ in range(ctx.n(6, 40)):
        T = rng.uniform(0.5, 500.0)
        kb, kf = rng.randint(1, 6), rng.randint(1, 4)
        dofb = [float(rng.randint(0, 12)) for _ in range(kb)]
        doff = [float(rng.randint(0, 40)) for _ in range(kf)]
        nb, nf = sum(dofb), sum(doff)
        bos = (np.zeros(kb), np.array(dofb), np.full(kb, 1.5), np.full(kb, 100.0))
        fer = (np.zeros(kf), np.array(doff), np.full(kf, 1.5), np.full(kf, 100.0))
        want = -(math.pi ** 2 / 90) * (nb + 7 / 8 * nf) * T ** 4
        ctx.count("stefan_boltzmann", dict(dofb=dofb, doff=doff, T=T))
        got = float(direct_pot.potentialOneLoopThermal(bos, fer, T))
        if abs(got - want) > 1e-9 * abs(want) + 1e-300:
            ctx.fail_input("massless content nb=%d nf=%d T=%r: V = %r, Stefan-Boltzmann %r" % (
                nb, nf, T, got, want), dict(kind="sb", dofb=dofb, doff=doff, T=T, got=got,
                                            want=want),
                key="stefan-boltzmann")
        # the shipped tables at x = 0 sit on the x^{3/2} non-analyticity: 2e-4 relative
        gott = float(table_pot.potentialOneLoopThermal(bos, fer, T))
        if abs(gott - want) > 5e-4 * abs(want) + 1e-300:
            ctx.fail_input("massless content nb=%d nf=%d T=%r on the shipped tables: V = %r, "
                           "Stefan-Boltzmann %r" % (nb, nf, T, gott, want),
                           dict(kind="sb_table", dofb=dofb, doff=doff, T=T, got=gott,
                                want=want),
                           key="stefan-boltzmann-table")
    # generic spectra under every imaginary-part option: V = T^4/(2 pi^2) sum n Re J(m^2/T^2) with
    # J from the independent quadrature; ABS_ARGUMENT means J(|m^2|/T^2), ABS_RESULT |V| when a
    # mass is negative, ERROR must raise exactly then
    pots = {o: make_pot(Integrals(), getattr(EImaginaryOption, o))
            for o in ("ERROR", "ABS_ARGUMENT", "ABS_RESULT", "PRINCIPAL_PART")}
    for it in range(ctx.n(12, 80)):
        opt = ["PRINCIPAL_PART", "ABS_ARGUMENT", "ABS_RESULT", "ERROR"][it % 4]
        T = rng.uniform(0.5, 300.0)
        kb, kf = rng.randint(1, 5), rng.randint(1, 3)
        xb = [rng.choice([0.0, rng.uniform(0, 60.0), rng.uniform(-9.0, 0.0)]) for _ in range(kb)]
        xf = [rng.choice([0.0, rng.uniform(0, 60.0), rng.uniform(0, 60.0), rng.uniform(-9.0, 0.0)])
              for _ in range(kf)]
        dofb = [float(rng.randint(1, 12)) for _ in range(kb)]
        doff = [float(rng.randint(1, 40)) for _ in range(kf)]
        bos = (np.array(xb) * T * T, np.array(dofb), np.full(kb, 1.5), np.full(kb, 100.0))
        fer = (np.array(xf) * T * T, np.array(doff), np.full(kf, 1.5), np.full(kf, 100.0))
        neg = any(x < 0 for x in xb + xf)
        tr = (lambda x: abs(x)) if opt == "ABS_ARGUMENT" else (lambda x: x)
        want = T ** 4 / (2 * math.pi ** 2) * (
            sum(n * ref_J("b", tr(x))[0] for n, x in zip(dofb, xb)) +
            sum(n * ref_J("f", tr(x))[0] for n, x in zip(doff, xf)))
        if opt == "ABS_RESULT" and neg:
            want = abs(want)
        if opt == "ERROR" and neg:
            want = None
        try:
            with warnings.catch_warnings():
                warnings.simplefilter("ignore")
                got = float(pots[opt].potentialOneLoopThermal(bos, fer, T))
        except ValueError:
            got = None
        ctx.count("thermal_sum_direct", dict(xb=xb, xf=xf, T=T, opt=opt),
                  bucket="%s/%s" % (opt, "neg" if neg else "nonneg"))
        scale = T ** 4 / (2 * math.pi ** 2) * (sum(dofb) + sum(doff))
        if (got is None) != (want is None) or \
                (got is not None and abs(got - want) > 1e-7 * scale):
            ctx.fail_input("V_T (%s) for m^2/T^2 = %r (bosons, dof %r), %r (fermions, dof %r), "
                           "T = %r: %r, expected %r" % (opt, xb, dofb, xf, doff, T, got, want),
                           dict(kind="sum", opt=opt, xb=xb, xf=xf, dofb=dofb, doff=doff, T=T,
                                got=got, want=want), key="thermal-sum:" + opt)
    # heavy masses: |J(x)| <= 1.3 sqrt(pi/2) x^{3/4} e^{-sqrt x} (leading asymptotics) for x >= 50
    for pot, label, xmax in ((direct_pot, "direct", 3000.0), (table_pot, "tables", 999.0)):
        for _ in range(ctx.n(10, 80)):
            x = rng.uniform(50.0, xmax)
            T = rng.uniform(1.0, 200.0)
            nb, nf = rng.randint(1, 20), rng.randint(1, 40)
            bos = (np.array([x * T * T]), np.array([float(nb)]), np.full(1, 1.5), np.full(1, 1.0))
            fer = (np.array([x * T * T]), np.array([float(nf)]), np.full(1, 1.5), np.full(1, 1.0))
            got = float(pot.potentialOneLoopThermal(bos, fer, T))
            env = math.sqrt(math.pi / 2) * x ** 0.75 * math.exp(-math.sqrt(x)) * (
                1 + 15 / (8 * math.sqrt(x)))
            bound = (nb + nf) * T ** 4 / (2 * math.pi ** 2) * (1.05 * env + 3e-11)
            lower = (nb + nf) * T ** 4 / (2 * math.pi ** 2) * (0.9 * env - 3e-11)
            ctx.count("heavy_mass_" + label, bucket="x<400" if x < 400 else "x>=400")
            if not (got <= 0.0 + 1e-300 and lower <= abs(got) <= bound):
                ctx.fail_input("heavy content m^2/T^2 = %r (%s): V = %r, expected magnitude in "
                               "[%r, %r] and negative sign" % (x, label, got, lower, bound),
                               dict(kind="heavy", x=x, T=T, nb=nb, nf=nf, got=got, label=label),
                               key="heavy-mass:" + label)
    # continuity in the masses (direct integrals; across m^2 = 0 and at generic points)
    for _ in range(ctx.n(10, 80)):
        T = rng.uniform(1.0, 100.0)
        x0 = rng.choice([0.0, 0.0, rng.uniform(-9.0, 30.0)])
        d = 1e-7
        vals = []
        for x in (x0 - d, x0, x0 + d):
            bos = (np.array([x * T * T]), np.array([3.0]), np.full(1, 1.5), np.full(1, 1.0))
            fer = (np.array([x * T * T]), np.array([4.0]), np.full(1, 1.5), np.full(1, 1.0))
            vals.append(float(direct_pot.potentialOneLoopThermal(bos, fer, T)))
        ctx.count("continuity_in_mass", bucket="m2=0" if x0 == 0.0 else "generic")
        sc = T ** 4 / (2 * math.pi ** 2)
        # |dJ/dx| <= ~ 1 near 0 (J_b' ~ pi^2/12, imaginary part not in V); sqrt behaviour allowed
        if max(abs(vals[0] - vals[1]), abs(vals[2] - vals[1])) > 7 * sc * 50 * math.sqrt(d):
            ctx.fail_input("V_T jumps in m^2 at m^2/T^2 = %r (T = %r): %r | %r | %r" % (
                x0, T, vals[0], vals[1], vals[2]),
                dict(kind="continuity", x0=x0, T=T, vals=vals), key="mass-continuity")


def replay(rep):
    print(json.dumps(rep, indent=1))
    from WallGo.PotentialTools import JbIntegral, JfIntegral
    kind = rep.get("kind")
    if kind in ("integral", "table_row", "spline"):
        tag = rep["cls"]
        obj = (JbIntegral if tag == "Jb" else JfIntegral)(bUseAdaptiveInterpolation=False)
        x = rep["x"]
        print("x =", x)
        print("  implementation (direct):", impl_J(obj, x))
        print("  defining integral      :", ref_J("b" if tag == "Jb" else "f", x))
        if x < 0:
            print("  scipy quad, no breaks, exact integrand :", naive_J("b" if tag == "Jb" else "f", x))
            print("  implementation + break points in quad  :", repaired_J(obj, "b" if tag == "Jb" else "f", x))
    if kind == "integrand":
        cls = JbIntegral if rep["cls"] == "Jb" else JfIntegral
        print("  NegReal:", cls._integrandNegativeReal(rep["x"], rep["y"]),
              " NegImag:", cls._integrandNegativeImaginary(rep["x"], rep["y"]))
    return 0
