"""C03 -- matched flow reaches Tn ahead of the wall; detonation front undisturbed; kappa."""
import json
import math
import traceback
from dataclasses import dataclass
from fractions import Fraction

import numpy as np
from scipy.optimize import brentq

import gen_hydro_shock
import pyrx
import vlib

EXPLANATION = (
    "shockDE, the closures shock/TiiShock and the choice of the shock-front state in "
    "solveHydroShock, the kappa integrands/prefactors, the head of matchDeton, the template "
    "_dxiAndWdv and gammaSq/boostVelocity are regenerated from the sources by a pyrx-based "
    "translator on every run. Coq proves for EVERY equation of state: the pair returned by "
    "shockDE is the unique solution of the two conservation laws of a self-similar flow (in "
    "the v form and, away from the sonic point, in the xi form); the template (xi,w) form is "
    "the same flow; the integration stops where mu(xi,v) xi = cs^2(T) with the local "
    "temperature; a zero of TiiShock is exactly continuity of the energy flux into plasma at "
    "rest; for constant sound speed ahead the momentum flux is continuous too; the "
    "detonation front state is (vw, Tn); the kappa integrand is xi^2 v^2 gamma^2 w with "
    "prefactor +-4/(vw^3 alpha_n w_n). Model values are compared with the running code "
    "(method shockDE, closures captured from live calls) by certified interval evaluation. "
    "The property is evaluated on the implementation with an independent integrator written "
    "in xi (own Dormand-Prince with step control), crossing the front with energy-flux "
    "conservation, and kappa by independent quadrature.")


# ----------------------------------------------------------------------------------------
# equations of state (inputs; the classes of tests/test_Hydrodynamics.py and
# tests/test_HydroTemplateModel.py)

@dataclass
class _FE:
    minPossibleTemperature: list
    maxPossibleTemperature: list


def _thermo_base():
    import WallGo
    return WallGo.Thermodynamics


def make_eos(spec):
    """spec = dict(kind='twostep'|'bag'|'template', ...) -> Thermodynamics object"""
    Base = _thermo_base()
    kind = spec["kind"]
    if kind == "twostep":
        class TwoStep(Base):
            def __init__(s, ab, asy, musq, Tn):
                s.aLowT, s.aHighT, s.musq, s.Tnucl = ab, asy, musq, Tn
                s.freeEnergyHigh = _FE([0.01, False], [5.0, False])
                s.freeEnergyLow = _FE([0.01, False], [5.0, False])
                s.TMinLowT = s.TMinHighT = 0.01
                s.TMaxLowT = s.TMaxHighT = 5.0

            def pHighT(s, T):
                return T ** 4 + (s.aLowT - s.aHighT + s.aHighT * T ** 2 - s.musq) ** 2 \
                    - s.musq ** 2

            def dpHighT(s, T):
                return 4 * T ** 3 + 4 * s.aHighT * T * (
                    s.aLowT - s.aHighT + s.aHighT * T ** 2 - s.musq)

            def ddpHighT(s, T):
                return 12 * T ** 2 + 8 * s.aHighT ** 2 * T ** 2 + 4 * s.aHighT * (
                    s.aLowT - s.aHighT + s.aHighT * T ** 2 - s.musq)

            def pLowT(s, T):
                return T ** 4 + (s.aLowT * T ** 2 - s.musq) ** 2 - s.musq ** 2

            def dpLowT(s, T):
                return 4 * T ** 3 + 4 * s.aLowT * T * (s.aLowT * T ** 2 - s.musq)

            def ddpLowT(s, T):
                return 12 * T ** 2 + 8 * s.aLowT ** 2 * T ** 2 + 4 * s.aLowT * (
                    s.aLowT * T ** 2 - s.musq)
        return TwoStep(spec["ab"], spec["asy"], spec["musq"], spec["Tn"])
    if kind == "bag":
        class Bag(Base):
            def __init__(s, psi, Tn):
                s.psi, s.eps, s.Tnucl = psi, 1.0 - psi, Tn
                s.freeEnergyHigh = _FE([0.1, False], [500.0, False])
                s.freeEnergyLow = _FE([0.1, False], [500.0, False])
                s.TMinLowT = s.TMinHighT = 0.01
                s.TMaxLowT = s.TMaxHighT = 5.0

            def pHighT(s, T):
                return T ** 4 - s.eps

            def dpHighT(s, T):
                return 4 * T ** 3

            def ddpHighT(s, T):
                return 12 * T ** 2

            def pLowT(s, T):
                return s.psi * T ** 4

            def dpLowT(s, T):
                return 4 * s.psi * T ** 3

            def ddpLowT(s, T):
                return 12 * s.psi * T ** 2
        return Bag(spec["psi"], spec["Tn"])
    if kind == "template":
        class Template(Base):
            def __init__(s, alN, psiN, cb2, cs2, Tn, wn=1.0):
                s.nu, s.mu, s.Tnucl = 1 + 1 / cb2, 1 + 1 / cs2, Tn
                s.ap = 3 * wn / (s.mu * Tn ** s.mu)
                s.am = 3 * wn * psiN / (s.nu * Tn ** s.nu)
                s.eps = 0
                s.eps = (s.pHighT(Tn) - s.pLowT(Tn) - cb2 * (
                    s.eHighT(Tn) - s.eLowT(Tn) - 3 * wn * alN)) / (1 + cb2)
                s.freeEnergyHigh = _FE([0.01 * Tn, False], [10.0 * Tn, False])
                s.freeEnergyLow = _FE([0.01 * Tn, False], [10.0 * Tn, False])
                s.TMinLowT = s.TMinHighT = 0.01 * Tn
                s.TMaxLowT = s.TMaxHighT = 10.0 * Tn

            def pHighT(s, T):
                return s.ap * T ** s.mu / 3 - s.eps

            def dpHighT(s, T):
                return s.mu * s.ap * T ** (s.mu - 1) / 3

            def ddpHighT(s, T):
                return s.mu * (s.mu - 1) * s.ap * T ** (s.mu - 2) / 3

            def pLowT(s, T):
                return s.am * T ** s.nu / 3

            def dpLowT(s, T):
                return s.nu * s.am * T ** (s.nu - 1) / 3

            def ddpLowT(s, T):
                return s.nu * (s.nu - 1) * s.am * T ** (s.nu - 2) / 3
        return Template(spec["alN"], spec["psiN"], spec["cb2"], spec["cs2"], spec["Tn"])
    raise ValueError(kind)


def make_hydro(spec, rtol=1e-6, atol=1e-10, tmax=10.0, tmin=0.01):
    import WallGo
    th = make_eos(spec)
    return th, WallGo.Hydrodynamics(th, tmax, tmin, rtol, atol)


def const_cs(spec):
    return spec["kind"] in ("bag", "template")


class OwnEOS:
    """The equation of state evaluated from the spec's analytic p, p', p'' only -- no WallGo
    code (Thermodynamics.csq/w/e, template.alN are code under test for the oracle)."""

    def __init__(s, spec):
        s.k, s.sp = spec["kind"], spec
        s.Tnucl = spec["Tn"]
        if s.k == "template":
            cb2, cs2, Tn = spec["cb2"], spec["cs2"], spec["Tn"]
            s.mu, s.nu = 1 + 1 / cs2, 1 + 1 / cb2
            s.ap = 3 / (s.mu * Tn ** s.mu)
            s.am = 3 * spec["psiN"] / (s.nu * Tn ** s.nu)
            pH0, pL = s.ap * Tn ** s.mu / 3, s.am * Tn ** s.nu / 3
            eH0, eL = (s.mu - 1) * pH0, (s.nu - 1) * pL
            # bag constant from the definition of alpha_n at Tn (w+ = 1 there)
            s.eps = (3 * spec["alN"] - eH0 + eL + (pH0 - pL) / cb2) / (1 + 1 / cb2)

    def _p(s, T, hi):
        sp = s.sp
        if s.k == "bag":
            if hi:
                return T ** 4 - (1.0 - sp["psi"]), 4 * T ** 3, 12 * T ** 2
            return sp["psi"] * T ** 4, 4 * sp["psi"] * T ** 3, 12 * sp["psi"] * T ** 2
        if s.k == "twostep":
            a = sp["asy"] if hi else sp["ab"]
            c = (sp["ab"] - sp["asy"] - sp["musq"]) if hi else -sp["musq"]
            u = c + a * T * T
            return (T ** 4 + u * u - sp["musq"] ** 2, 4 * T ** 3 + 4 * a * T * u,
                    12 * T * T + 8 * a * a * T * T + 4 * a * u)
        if hi:
            return (s.ap * T ** s.mu / 3 - s.eps, s.mu * s.ap * T ** (s.mu - 1) / 3,
                    s.mu * (s.mu - 1) * s.ap * T ** (s.mu - 2) / 3)
        return (s.am * T ** s.nu / 3, s.nu * s.am * T ** (s.nu - 1) / 3,
                s.nu * (s.nu - 1) * s.am * T ** (s.nu - 2) / 3)

    def pHighT(s, T):
        return s._p(T, 1)[0]

    def pLowT(s, T):
        return s._p(T, 0)[0]

    def wHighT(s, T):
        return T * s._p(T, 1)[1]

    def wLowT(s, T):
        return T * s._p(T, 0)[1]

    def csqHighT(s, T):
        p = s._p(T, 1)
        return p[1] / (T * p[2])

    def csqLowT(s, T):
        p = s._p(T, 0)
        return p[1] / (T * p[2])

    def alN(s):
        Tn = s.Tnucl
        pH, dH, _ = s._p(Tn, 1)
        pL, dL, _ = s._p(Tn, 0)
        return ((Tn * dH - pH) - (Tn * dL - pL) - (pH - pL) / s.csqLowT(Tn)) / (3 * Tn * dH)


# ----------------------------------------------------------------------------------------
# the oracle: an integrator that shares nothing with the code under test.  It is written
# in the similarity variable xi (the code integrates in v) with its own Dormand-Prince 5(4)
# stepper and step-size control; Props/C03.v proves the two forms equivalent.

def mu(xi, v):
    return (xi - v) / (1.0 - xi * v)


_C = [0, 1 / 5, 3 / 10, 4 / 5, 8 / 9, 1, 1]
_A = [[], [1 / 5], [3 / 40, 9 / 40], [44 / 45, -56 / 15, 32 / 9],
      [19372 / 6561, -25360 / 2187, 64448 / 6561, -212 / 729],
      [9017 / 3168, -355 / 33, 46732 / 5247, 49 / 176, -5103 / 18656],
      [35 / 384, 0, 500 / 1113, 125 / 192, -2187 / 6784, 11 / 84]]
_B5 = [35 / 384, 0, 500 / 1113, 125 / 192, -2187 / 6784, 11 / 84, 0]
_B4 = [5179 / 57600, 0, 7571 / 16695, 393 / 640, -92097 / 339200, 187 / 2100, 1 / 40]


def dp_step(f, x, y, h, nerr=None):
    n = len(y)
    k = []
    for i in range(7):
        yi = [y[j] + h * sum(_A[i][m] * k[m][j] for m in range(i)) for j in range(n)]
        k.append(f(x + _C[i] * h, yi))
    y5 = [y[j] + h * sum(_B5[m] * k[m][j] for m in range(7)) for j in range(n)]
    y4 = [y[j] + h * sum(_B4[m] * k[m][j] for m in range(7)) for j in range(n)]
    err = max(abs(y5[j] - y4[j]) / (abs(y5[j]) + 1e-300) for j in range(nerr or n))
    return y5, err


def integrate_to_event(f, g, x0, y0, xmax, rtol=1e-10, h0=1e-3, maxsteps=200000,
                       nerr=None):
    """y' = f(x, y) from x0 upwards until g(x, y) >= 0 (located by bisection on the step
    length) or x = xmax.  Returns (x, y, event_hit)."""
    x, y, h = x0, list(y0), min(h0, (xmax - x0) / 4)
    if g(x, y) >= 0:
        return x, y, True
    for _ in range(maxsteps):
        if x + h > xmax:
            h = xmax - x
            if h <= 1e-16:
                return x, y, False
        try:
            y1, err = dp_step(f, x, y, h, nerr)
            ok = all(math.isfinite(t) for t in y1) and err <= rtol
        except (ZeroDivisionError, OverflowError, ValueError, FloatingPointError):
            ok, err = False, 1e9
        if not ok:
            h *= 0.5 if err > 1e8 else max(0.2, 0.9 * (rtol / err) ** 0.2)
            if h < 1e-15:
                raise RuntimeError("oracle: step size underflow at x=%r y=%r" % (x, y))
            continue
        if g(x + h, y1) >= 0:
            lo, hi = 0.0, h
            for _ in range(200):
                mid = 0.5 * (lo + hi)
                ym, _e = dp_step(f, x, y, mid, nerr)
                if g(x + mid, ym) >= 0:
                    hi = mid
                else:
                    lo = mid
                if hi - lo < 1e-15 * max(1.0, abs(x)):
                    break
            ye, _e = dp_step(f, x, y, hi, nerr)
            return x + hi, ye, True
        x, y = x + h, y1
        h *= min(5.0, max(0.2, 0.9 * (rtol / max(err, 1e-300)) ** 0.2))
    raise RuntimeError("oracle: too many steps")


def xi_rhs(th, xi, v, T):
    """(dv/dxi, dT/dxi) of the self-similar flow in the symmetric phase -- the xi form of the
    conservation laws (Lib/HydroShock.v: xi_laws; certified against 1/dxi_dv, dT_dv/dxi_dv)"""
    g2 = 1.0 / (1.0 - v * v)
    m = mu(xi, v)
    dv = 2.0 * v / xi / (g2 * (1.0 - v * xi) * (m * m / float(th.csqHighT(T)) - 1.0))
    return dv, T * g2 * m * dv


def shock_profile(th, vw, vp, Tp, rtol=1e-10):
    """flow ahead of the wall written in xi, from the wall to the front
    mu(xi, v) xi = cs^2(T) (local T).  State (v, T, I) with I the kappa quadrature
    int xi^2 v^2 gamma^2 w dxi.  Returns xiS, vS, TS, I."""
    v0 = mu(vw, vp)

    def rhs(xi, y):
        v, T = y[0], y[1]
        dv, dT = xi_rhs(th, xi, v, T)
        return [dv, dT, xi * xi * v * v / (1.0 - v * v) * float(th.wHighT(T))]

    def front(xi, y):
        # for vanishing shocks v -> 0 and the front is approached asymptotically: stop when
        # the fluid is at rest to 1e-10 (the jump there is negligible)
        return max(mu(xi, y[0]) * xi - float(th.csqHighT(y[1])), 1e-10 - y[0])
    if v0 <= 1e-10:
        return vw, v0, Tp, 0.0
    xiS, y, hit = integrate_to_event(rhs, front, vw, [v0, Tp, 0.0], 1 - 1e-12, rtol=rtol,
                                     nerr=2)
    if not hit:
        raise RuntimeError("oracle: shock front not reached")
    return xiS, y[0], y[1], y[2]


def temperature_ahead(th, xiS, vS, TS):
    """energy flux continuous across the front, plasma at rest ahead -> Tn"""
    m = mu(xiS, vS)
    target = float(th.wHighT(TS)) * m / (1 - m * m) * (1 - xiS * xiS) / xiS
    if abs(target - float(th.wHighT(TS))) <= 1e-15 * abs(target):
        return TS
    lo = TS
    while float(th.wHighT(lo)) > target:
        lo /= 1.2
        if lo < 1e-12 * TS:
            raise RuntimeError("oracle: no temperature ahead of the front")
    if lo == TS:
        hi = TS
        while float(th.wHighT(hi)) < target:
            hi *= 1.2
        return brentq(lambda t: float(th.wHighT(t)) - target, TS, hi, xtol=1e-300,
                      rtol=1e-14)
    return brentq(lambda t: float(th.wHighT(t)) - target, lo, TS, xtol=1e-300, rtol=1e-14)


def oracle_Tn(th, vw, vp, Tp, rtol=1e-10):
    xiS, vS, TS, I = shock_profile(th, vw, vp, Tp, rtol)
    return temperature_ahead(th, xiS, vS, TS), (xiS, vS, TS, I)


def rarefaction_integral(th, vw, vm, Tm, rtol=1e-10):
    """int xi^2 v^2 gamma^2 w dxi over the rarefaction wave behind the wall (positive),
    parametrised by s = -v so that the Jouguet point (dxi/dv = 0) is harmless"""
    v0 = mu(vw, vm)
    if v0 <= 1e-9:
        return 0.0

    def rhs(s, y):
        v, xi, T = -s, y[0], y[1]
        g2 = 1.0 / (1.0 - v * v)
        m = mu(xi, v)
        dxi = g2 * (1 - v * xi) * (m * m / float(th.csqLowT(T)) - 1.0) * xi / 2.0 / v
        dT = T * g2 * m
        return [-dxi, -dT, -xi * xi * v * v * g2 * float(th.wLowT(T)) * dxi]
    _x, y, _hit = integrate_to_event(rhs, lambda s, y: -1.0, -v0, [vw, Tm, 0.0], -1e-9,
                                     rtol=rtol, nerr=2)
    return -y[2]


def oracle_kappa(eos, vw, vp, vm, Tp, Tm, rtol=1e-10):
    """kappa = 4/(vw^3 alpha_n w_n) int xi^2 v^2 gamma^2 w dxi over the profile that starts
    from the returned matching.  `eos` is an OwnEOS: alpha_n, w_n, the sound speeds and the
    decision which waves exist are the oracle's own (no vJ, alN, csq from the solver)."""
    Tn = eos.Tnucl
    pre = 4.0 / (vw ** 3 * eos.alN() * float(eos.wHighT(Tn)))
    ksw = krw = 0.0
    # a shock wave exists iff the fluid moves ahead of the wall and the front is ahead of it
    if vp != vw and vp * vw < float(eos.csqHighT(Tp)):
        _xiS, _vS, _TS, I = shock_profile(eos, vw, vp, Tp, rtol)
        ksw = pre * I
    # a rarefaction wave exists iff the wall is supersonic with respect to the fluid behind
    if vw ** 2 > float(eos.csqLowT(Tm)):
        krw = pre * rarefaction_integral(eos, vw, vm, Tm, rtol)
    return ksw + krw, ksw, krw


# ----------------------------------------------------------------------------------------
# input generators

def eos_specs(ctx):
    rng = ctx.rng
    specs = []
    for Tn in (0.5, 0.6, 0.7, 0.8, 0.9):
        specs.append(dict(kind="twostep", ab=0.2, asy=0.1, musq=0.4, Tn=Tn))
    for _ in range(ctx.n(3, 30)):
        specs.append(dict(kind="twostep", ab=round(rng.uniform(0.16, 0.24), 3),
                          asy=round(rng.uniform(0.06, 0.12), 3),
                          musq=round(rng.uniform(0.32, 0.48), 3),
                          Tn=round(rng.uniform(0.5, 0.95), 3)))
    for psi, Tn in ((0.9, 0.9), (0.9, 0.7), (0.8, 0.8), (0.7, 0.9), (0.5, 0.95)):
        specs.append(dict(kind="bag", psi=psi, Tn=Tn))
    for _ in range(ctx.n(2, 20)):
        specs.append(dict(kind="bag", psi=round(rng.uniform(0.5, 0.98), 3),
                          Tn=round(rng.uniform(0.6, 0.98), 3)))
    for k in range(ctx.n(5, 40)):
        psiN = 1 - 0.5 * rng.random()
        cs2 = 1 / 4 + (1 / 3 - 1 / 4) * rng.random()
        specs.append(dict(kind="template", psiN=round(psiN, 4),
                          alN=round((1 - psiN) / 3 + 10 ** (-3 * rng.random() - 0.3), 5),
                          cs2=round(cs2, 4),
                          cb2=round(cs2 - (1 / 3 - 1 / 4) * rng.random(), 4),
                          Tn=[1.0, 1.0, 0.01, 100.0, 1.0][k % 5]))
    return specs


MARGIN_VMIN = 1e-2   # above a ROOT-FOUND vMin the 2x2 matching does not converge in a sliver
#                      (the code says so: Hydrodynamics.success is False there)
SLOW_WALL = 5e-2     # lower end used by C05's scans (kept for that harness)
GATE_SLOW = 2e-3     # when vMin is the bracket end vBracketLow = 1e-3 the window is gated from here


def window_lo(hy):
    """lower end of the scans of C05"""
    return max(hy.vMin + MARGIN_VMIN, SLOW_WALL)


def gate_lo(hy):
    """lower end of the gated window of C03"""
    if hy.vMin <= hy.vBracketLow * (1 + 1e-12):
        return GATE_SLOW
    return hy.vMin + MARGIN_VMIN


def vw_grid(ctx, hy):
    """wall velocities of the deflagration/hybrid window [gate_lo, vJ]: slow walls, log-spaced
    near the lower end, uniform, dense in the strip vJ-1e-2 .. vJ, and vJ itself"""
    rng = ctx.rng
    lo, hi = gate_lo(hy), hy.vJ
    g = [lo, lo + 1e-3, lo + 1e-2]
    g += [v for v in (3e-3, 5e-3, 1e-2, 2e-2, 2.9e-2, 4e-2) if v > lo]
    g += [lo + (hi - lo) * x for x in (0.05, 0.15, 0.3, 0.45, 0.6, 0.75, 0.9)]
    g += [lo + (hi - lo) * rng.random() for _ in range(ctx.n(3, 12))]
    g += [lo * (hi / lo) ** rng.random() for _ in range(ctx.n(2, 6))]
    g += [hi - d for d in (1e-2, 7e-3, 4e-3, 2e-3, 1e-3, 3e-4, 1e-4, 3e-5, 1e-5)]
    g += [hi - 1e-2 * rng.random() for _ in range(ctx.n(2, 8))]
    g += [hi - 1e-4 * rng.random()]
    return sorted(set(v for v in g if lo <= v < hi)) + [hi]


def edge_grid(hy):
    """the sliver above a root-found vMin"""
    if gate_lo(hy) == GATE_SLOW:
        return []
    return [hy.vMin + d for d in (1e-6, 1e-4, 1e-3, 3e-3, 6e-3) if hy.vMin + d < hy.vJ]


# ----------------------------------------------------------------------------------------
# capturing the closures of live calls (from outside; no change to the repo)

class Capture:
    """Temporarily replaces root_scalar / solve_ivp / simpson *as seen by
    WallGo.hydrodynamics* by recording pass-through wrappers."""

    def __init__(self):
        import WallGo.hydrodynamics as H
        self.H = H
        self.roots, self.ivps, self.simps = [], [], []

    def __enter__(self):
        H = self.H
        self.orig = (H.root_scalar, H.solve_ivp, H.simpson)

        def root_scalar(f, *a, **k):
            r = self.orig[0](f, *a, **k)
            self.roots.append((f, a, k, r))
            return r

        def solve_ivp(fun, span, y0, *a, **k):
            import sys
            r = self.orig[1](fun, span, y0, *a, **k)
            self.ivps.append((fun, span, list(y0), k, r, sys._getframe(1).f_code.co_name))
            return r

        def simpson(*a, **k):
            r = self.orig[2](*a, **k)
            self.simps.append((k, r))
            return r
        H.root_scalar, H.solve_ivp, H.simpson = root_scalar, solve_ivp, simpson
        return self

    def __exit__(self, *exc):
        self.H.root_scalar, self.H.solve_ivp, self.H.simpson = self.orig
        return False


def cells(f):
    return dict(zip(f.__code__.co_freevars, [c.cell_contents for c in f.__closure__ or ()]))


# ----------------------------------------------------------------------------------------
# certified evaluation of the generated model against the running code

def q(x):
    return pyrx.rlit(Fraction(float(x)))


def coq_env(spec, c03=False):
    """Coq term of type env for the EOS `spec` (exact rationals of the float parameters)"""
    Tn = q(spec["Tn"])
    if spec["kind"] == "twostep":
        ab, asy, mq = q(spec["ab"]), q(spec["asy"]), q(spec["musq"])
        cH = "(%s - %s + %s * T ^ 2 - %s)" % (ab, asy, asy, mq)
        cL = "(%s * T ^ 2 - %s)" % (ab, mq)
        pH = "(T ^ 4 + %s ^ 2 - %s ^ 2)" % (cH, mq)
        dpH = "(4 * T ^ 3 + 4 * %s * T * %s)" % (asy, cH)
        ddpH = "(12 * T ^ 2 + 8 * %s ^ 2 * T ^ 2 + 4 * %s * %s)" % (asy, asy, cH)
        pL = "(T ^ 4 + %s ^ 2 - %s ^ 2)" % (cL, mq)
        dpL = "(4 * T ^ 3 + 4 * %s * T * %s)" % (ab, cL)
        ddpL = "(12 * T ^ 2 + 8 * %s ^ 2 * T ^ 2 + 4 * %s * %s)" % (ab, ab, cL)
    elif spec["kind"] == "bag":
        psi = q(spec["psi"])
        eps = q(1.0 - spec["psi"])
        pH, dpH, ddpH = "(T ^ 4 - %s)" % eps, "(4 * T ^ 3)", "(12 * T ^ 2)"
        pL, dpL, ddpL = "(%s * T ^ 4)" % psi, "(4 * %s * T ^ 3)" % psi, \
            "(12 * %s * T ^ 2)" % psi
    else:
        raise ValueError("no Coq EOS for " + spec["kind"])
    f = lambda body: "(fun T : R => %s)" % body
    # record layout of GenC03.HydroShock: one more attribute (vJ) and two more oracles
    fields = [Tn, q(0.01 * spec["Tn"]), q(10.0 * spec["Tn"])] + (["%(vJ)s"] if c03 else []) + [
        f("%s / (T * %s)" % (dpH, ddpH)), f("%s / (T * %s)" % (dpL, ddpL)),
        f("T * %s" % dpH), f("T * %s" % dpL), f(pH), f(pL),
        f("T * %s - %s" % (dpH, pH)), f("T * %s - %s" % (dpL, pL)), "%(alN)s", "(fun x => x)"]
    if c03:
        fields += ["(fun _ _ => (0, 0, 0, 0))", "(fun _ _ _ => 0)"]
    return "(mk_env " + " ".join(fields) + ")"


EVAL_HDR = """From Coq Require Import Reals Lra.
From Interval Require Import Tactic.
From WG Require Import Lib.NumpySem Lib.HydroShock.
From GenC03 Require Import HydroShock Props_C03.
Local Open Scope R_scope.
%(defs)s
Ltac ev := cbv beta iota zeta delta [shockDE shock shock_kappa TiiShock kappaSW_integrand
  kappaSW_enthalpy kappaSW_of kappaRW_integrand kappaRW_enthalpy kappaRW_of gammaSq
  boostVelocity fst snd csqHighT csqLowT wHighT wLowT pHighT pLowT eHighT eLowT alN Tnucl
  mu gam2 dxi_dv dT_dv %(envs)s]; interval with (i_prec 90).
"""


def close_goal(term, y, rel=1e-9):
    yq = Fraction(float(y))
    tol = abs(yq) * Fraction(rel).limit_denominator(10 ** 15) + Fraction(1, 10 ** 13)
    return "Goal Rabs (%s - %s) <= %s.\nProof. ev. Qed." % (term, pyrx.rlit(yq),
                                                           pyrx.rlit(tol))


def correspondence(ctx, proved):
    """model <-> code: shockDE as a method; shock, TiiShock, front state, kappa integrand
    and assembly captured from live calls of solveHydroShock / efficiencyFactor"""
    rng = ctx.rng
    specs = [dict(kind="twostep", ab=0.2, asy=0.1, musq=0.4, Tn=0.5),
             dict(kind="twostep", ab=0.21, asy=0.09, musq=0.41, Tn=0.8),
             dict(kind="bag", psi=0.8, Tn=0.8)][:ctx.n(3, 3)]
    envs, goals = [], []
    for k, spec in enumerate(specs):
        th, hy = make_hydro(spec)
        ename = "e%d" % k
        envs.append("Definition %s := %s." % (ename, coq_env(spec, c03=True) % dict(
            alN=q(hy.template.alN), vJ=q(hy.vJ))))
        Tn = spec["Tn"]
        # (1) the method shockDE, both waves
        for _ in range(ctx.n(3, 12)):
            xi = rng.uniform(0.35, 0.9)
            v = rng.uniform(0.02, xi * 0.9)
            T = Tn * rng.uniform(0.8, 1.6)
            for wave in (True, False):
                got = hy.shockDE(v, np.array([xi, T]), wave)
                for i, proj in ((0, "fst"), (1, "snd")):
                    goals.append((close_goal("%s (shockDE %s %s (%s, %s) %s)" % (
                        proj, ename, q(v), q(xi), q(T), "true" if wave else "false"),
                        got[i]), dict(fn="shockDE", spec=spec, v=v, xi=xi, T=T, wave=wave,
                                      got=float(got[i]))))
                    ctx.count("certified_shockDE")
        # (1b) the right-hand side integrated by the ORACLE is the xi form proved equivalent
        for _ in range(ctx.n(2, 8)):
            xi = rng.uniform(0.35, 0.9)
            v = rng.uniform(0.02, xi * 0.9)
            T = Tn * rng.uniform(0.8, 1.6)
            dv, dT = xi_rhs(th, xi, v, T)
            X = "dxi_dv (csqHighT %s %s) %s %s" % (ename, q(T), q(xi), q(v))
            goals.append((close_goal("1 / %s" % X, dv), dict(fn="oracle_rhs_dv", spec=spec,
                                                            xi=xi, v=v, T=T)))
            goals.append((close_goal("dT_dv %s %s %s / %s" % (q(T), q(xi), q(v), X), dT),
                          dict(fn="oracle_rhs_dT", spec=spec, xi=xi, v=v, T=T)))
            ctx.count("certified_oracle_rhs")
        # (2) closures of solveHydroShock on the three branches
        vJ = hy.vJ
        trip = []
        vw = min(0.55, vJ - 0.02)
        vp_, _vm, Tp_, _Tm = hy.findMatching(vw)
        trip.append(("integrated", vw, vp_, Tp_))
        trip.append(("rest", 0.5, 0.5, Tn * 1.05))
        trip.append(("beyond", 0.8, 0.6, Tn * 1.1))
        for label, vw, vp, Tp in trip:
            with Capture() as cap:
                tn = hy.solveHydroShock(vw, vp, Tp)
            fT = [r for r in cap.roots if r[0].__name__ == "TiiShock"]
            if not fT:
                ctx.broken.append("correspondence: TiiShock not handed to root_scalar")
                continue
            f = fT[-1][0]
            c = cells(f)
            ivp = cap.ivps[-1] if cap.ivps else None
            if ivp is not None:
                iv, ixi, iT = ivp[4].t[-1], ivp[4].y[0, -1], ivp[4].y[1, -1]
                ev = ivp[3].get("events")
                if ev is None or not getattr(ev, "terminal", False) or \
                        ivp[0].__name__ != "shockDE" or ivp[2] != [vw, Tp] or \
                        abs(ivp[1][0] - mu(vw, vp)) > 1e-15:
                    ctx.broken.append("correspondence: solve_ivp call of solveHydroShock "
                                      "(fun/start/event) differs from the model's facts")
                # the event closure on the last point and at the start
                for (vv, xx, TT) in ((iv, ixi, iT), (mu(vw, vp), vw, Tp)):
                    goals.append((close_goal("shock %s %s (%s, %s)" % (
                        ename, q(vv), q(xx), q(TT)), ev(vv, [xx, TT])).replace(
                            "<= ", "<= 1 / 10 ^ 12 + "),
                        dict(fn="shock", spec=spec, v=vv, xi=xx, T=TT)))
                    ctx.count("certified_shock_event")
            else:
                iv, ixi, iT = 0.0, 0.0, 0.0
            ctx.count("front_state_branch", bucket=label)
            # front state chosen by the code vs the generated frontState
            branch = "A" if vp * vw - float(th.csqHighT(Tp)) > 0 else (
                "B" if vw == vp else "C")
            cond = "mu %s (mu %s %s) * %s - csqHighT %s %s" % (
                q(vw), q(vw), q(vp), q(vw), ename, q(Tp))
            args = "%s %s %s %s %s %s %s" % (ename, q(vw), q(vp), q(Tp), q(iv), q(ixi),
                                             q(iT))
            pre = "destruct (shock_front_state %s) as (A & B & C). " % args
            red = "cbv beta iota zeta delta [mu csqHighT %s]" % ename
            if branch == "A":
                pre += "rewrite A by (%s; interval). " % red
            elif branch == "B":
                pre += "destruct B as [B _]; [apply Rle_not_lt; %s; interval|lra|]. " \
                    "rewrite B. " % red
            else:
                pre += "rewrite C by first [lra | apply Rle_not_lt; %s; interval]. " % red
            want = (c["vmShock"], c["xiShock"], c["TmShock"])
            for i, proj in enumerate(("fst (fst (%s))", "snd (fst (%s))", "snd (%s)")):
                yq = Fraction(float(want[i]))
                tol = abs(yq) * Fraction(1, 10 ** 9) + Fraction(1, 10 ** 13)
                goals.append((
                    "Goal Rabs (%s - %s) <= %s.\nProof. %scbn [fst snd]. ev. Qed." % (
                        proj % ("frontState " + args), pyrx.rlit(yq), pyrx.rlit(tol), pre),
                    dict(fn="frontState", branch=branch, spec=spec, vw=vw, vp=vp, Tp=Tp)))
                ctx.count("certified_front_state")
            # TiiShock at a few temperatures
            for t in (tn, Tn * 0.7, Tn * 1.3):
                goals.append((close_goal("TiiShock %s %s %s %s %s" % (
                    ename, q(c["vmShock"]), q(c["xiShock"]), q(c["TmShock"]), q(t)), f(t))
                    .replace("<= ", "<= 1 / 10 ^ 11 + "),
                    dict(fn="TiiShock", spec=spec, cells={k2: float(v2) for k2, v2 in
                                                         c.items() if k2 != "self"}, t=t)))
                ctx.count("certified_TiiShock")
        # (3) kappa: integrand sampled by the code, and its assembly
        for vw in (min(0.5, vJ - 0.05), min(vJ + 0.03, 0.97)):
            with Capture() as cap:
                kap = hy.efficiencyFactor(vw)
            total = 0.0
            for (kw, r), ivp in zip(cap.simps, [i for i in cap.ivps
                                                if i[0].__name__ == "shockDE"][-len(cap.simps):]):
                sol = ivp[4]
                rare = ivp[3].get("args") == (False,)
                which = "RW" if rare else "SW"
                if not np.array_equal(np.asarray(kw["x"]), sol.y[0]):
                    ctx.broken.append("correspondence: simpson does not integrate over xi")
                for i in sorted(set([0, len(sol.t) // 2, len(sol.t) - 1])):
                    w = float(th.wLowT(sol.y[1, i]) if rare else th.wHighT(sol.y[1, i]))
                    goals.append((close_goal(
                        "kappa%s_integrand %s %s %s (kappa%s_enthalpy %s %s)" % (
                            which, ename, q(sol.y[0, i]), q(sol.t[i]), which, ename,
                            q(sol.y[1, i])), kw["y"][i]).replace("<= ", "<= 1 / 10 ^ 14 + "),
                        dict(fn="kappa_integrand", which=which, spec=spec, vw=vw, i=i)))
                    ctx.count("certified_kappa_integrand")
                part = "kappa%s_of %s %s %s" % (which, ename, q(vw), q(r))
                pv = (-4 if rare else 4) * r / (vw ** 3 * float(th.wHighT(Tn)) *
                                                  hy.template.alN)
                total += pv
                goals.append((close_goal(part, pv), dict(fn="kappa_of", which=which,
                                                         spec=spec, vw=vw)))
                ctx.count("certified_kappa_assembly")
            if abs(total - kap) > 1e-12 * max(1.0, abs(kap)):
                ctx.fail_input("efficiencyFactor(%r) = %r is not kappaSW + kappaRW = %r of "
                               "its own quadratures" % (vw, kap, total),
                               dict(kind="kappa_assembly", spec=spec, vw=vw),
                               key="kappa-assembly")
    if not proved:
        return
    hdr = EVAL_HDR % dict(envs=" ".join("e%d" % k for k in range(len(specs))),
                          defs="\n".join(envs))
    nfiles = 4
    files = []
    for j in range(nfiles):
        chunk = goals[j::nfiles]
        text = hdr + "\n".join(g for g, _ in chunk) + "\n"
        files.append((chunk, ctx.write("Cases/Eval_%d.v" % j, text)))
    import subprocess
    procs = [(chunk, p, subprocess.Popen(["timeout", "600", "coqc"] + ctx.coq_args() + [p],
                                         cwd=ctx.bdir, stdout=subprocess.PIPE,
                                         stderr=subprocess.PIPE, text=True))
             for chunk, p in files]
    for chunk, p, pr in procs:
        out, err = pr.communicate()
        if pr.returncode != 0:
            import re
            m = re.search(r"line (\d+)", err)
            which = None
            if m:
                ln = int(m.group(1))
                text = open(p).read().splitlines()
                upto = "\n".join(text[:ln])
                idx = upto.count("\nGoal ") - 1
                if 0 <= idx < len(chunk):
                    which = chunk[idx][1]
            ctx.broken.append("correspondence: certified evaluation %s" % (
                which["fn"] if which else "?"))
            ctx.log("certified evaluation failed:", json.dumps(which, default=str),
                    vlib.tail(err, 5))
    ctx.sample(dict(certified_goals=len(goals), example=goals[0][1]))


# ----------------------------------------------------------------------------------------
# direct validation: the property on the real code

TOL_TN = 5e-5        # oracle vs Tn at the returned matching, default tolerances (1e-6/1e-10)
TOL_TN_TIGHT = 5e-8  # the same with solver tolerances 1e-9/1e-12 (no loosening anywhere)
FRONT_AT_WALL = 2e-3        # |v+ vw - cs^2(T+)| below this: front about to reach the wall
TOL_TN_FRONT_AT_WALL = 2e-4  # default tolerances
TOL_TN_FRONT_AT_WALL_TIGHT = 5e-6
TOL_TN_AT_VJ_TIGHT = 2e-5   # at vw == vJ exactly the code uses the template matching at
#                             template.vJ - 1e-6 by design (1.7e-6 whatever the tolerance)
TOL_SHOCK = 2e-5     # oracle vs solveHydroShock on the same (vw, v+, T+), default
TOL_SHOCK_TIGHT = 1e-7
TOL_MOM = 2e-5
TOL_KAPPA = 2e-3     # kappa with solver tolerance 1e-11 (Simpson over the solve_ivp nodes)
KAPPA_RTOL = 1e-11
WORST = {}
CLASS_JUMP = "findMatching-root-on-jump"

# inputs on which the UNCHANGED code violates the property (class CLASS_JUMP, registered in
# known_findings.json); replayed first in both tiers
KNOWN_INPUTS = [
    (dict(kind="twostep", ab=0.184, asy=0.087, musq=0.336, Tn=0.51), 0.011, 1e-6, 1e-10),
    (dict(kind="twostep", ab=0.185, asy=0.102, musq=0.392, Tn=0.529), 0.007, 1e-6, 1e-10),
    (dict(kind="template", psiN=0.9327, alN=0.02342, cs2=0.3127, cb2=0.3094, Tn=1.0), 0.005,
     1e-6, 1e-10),
    (dict(kind="template", psiN=0.9734, alN=0.00946, cs2=0.2559, cb2=0.2115, Tn=0.01), 0.003,
     1e-6, 1e-10),
    (dict(kind="template", psiN=0.9884, alN=0.00443, cs2=0.2721, cb2=0.2707, Tn=0.01), 0.021,
     1e-6, 1e-10),
    (dict(kind="template", psiN=0.8367, alN=0.05526, cs2=0.3021, cb2=0.2236, Tn=0.01),
     0.6227008, 1e-9, 1e-12),
]


def rel(a, b):
    return abs(a - b) / max(abs(b), 1e-300)


def worst(name, value, case):
    if value > WORST.get(name, (0.0, None))[0]:
        WORST[name] = (value, case)


def tight(hy):
    return hy.rtol < 1e-8


def find_matching(hy, vw):
    """findMatching with a note whether the template fallback was used (hy.success is left
    as the code sets it)"""
    used = []
    orig = hy.template.findMatching
    hy.template.findMatching = lambda v: (used.append(v), orig(v))[1]
    try:
        res = hy.findMatching(vw)
    finally:
        del hy.template.findMatching
    return res, bool(used)


def shooting_residual(hy, vw, x):
    """the function whose zero findMatching returns, rebuilt from the public methods
    (Props/C03.v: shootResidual), relative to Tn"""
    _vp, _vm, T, _Tm = hy.matchDeflagOrHyb(vw, x)
    return hy.solveHydroShock(vw, x, T) / hy.Tnucl - 1.0


def clean_guess(eos, vw, vp, template_vMin=0.0):
    """The initial guess [T+, T-] that the UNCHANGED matchDeflagOrHyb builds for a prescribed
    v+ (template-model estimate, hydrodynamics.py:414-452 and matchDeflagOrHybInitial),
    recomputed by the harness from the spec's EOS alone.  For alpha_n < 1/3 the template model
    has vMin = 0 and the template branch is taken for every vw."""
    Tn = eos.Tnucl
    alN = eos.alN()
    if not alN < 1.0 / 3:
        # the template model then has a minimal velocity of its own (a shooting root): only the
        # THRESHOLD of the branch is taken from the solver's template object, the estimate
        # itself is recomputed here
        if template_vMin is None:
            return None
        if not vw > template_vMin:
            return [Tn, 0.99 * Tn]
    cb2, cs2 = float(eos.csqLowT(Tn)), float(eos.csqHighT(Tn))
    psiN = float(eos.wLowT(Tn)) / float(eos.wHighT(Tn))
    m_, n_ = 1 + 1 / cs2, 1 + 1 / cb2
    cb = math.sqrt(cb2)
    vJ = cb * (1 + math.sqrt(3 * alN * (1 - cb2 + 3 * cb2 * alN))) / (1 + 3 * cb2 * alN)
    vwT = min(vw, vJ - 1e-6)
    vpT = min(vp, vwT)
    vm = min(vwT, cb)
    al = ((vm - vpT) * (cb2 - vm * vpT)) / (3 * cb2 * vm * (1 - vpT ** 2))
    sign = np.sign((1 - 3 * alN) * m_ - n_) * np.sign((1 - 3 * al) * m_ - n_)
    wp = sign * (abs((1 - 3 * alN) * m_ - n_) + 1e-100) / (abs((1 - 3 * al) * m_ - n_) + 1e-100)
    plain = [min(1.1, 1 / math.sqrt(1 - min(vw ** 2, cb2))) * Tn, Tn]
    try:
        with np.errstate(all="ignore"):
            Tp = Tn * wp ** (1 / m_)
            ap = 3 / (m_ * Tn ** m_)
            am = 3 * psiN / (n_ * Tn ** n_)
            Tm = float(((ap * vpT * m_ * (1 - vm ** 2) * Tp ** m_) /
                        (am * vm * n_ * (1 - vpT ** 2))) ** (1 / n_))
        g = [float(Tp), Tm]
    except Exception:
        g = plain
    if any(isinstance(x, complex) or x != x for x in g):
        g = plain
    if g[0] <= g[1]:
        g[0] = 1.01 * g[1]
    return g


class GuessSpy:
    """records the initial guess (in temperatures) of every scipy root call made by
    matchDeflagOrHyb while active"""

    def __init__(self, hy):
        import WallGo.hydrodynamics as H
        self.H, self.hy, self.guesses = H, hy, []

    def __enter__(self):
        self.orig = self.H.root

        def root(f, x0, *a, **k):
            self.guesses.append([float(t) for t in self.hy._inverseMappingT(x0)])
            return self.orig(f, x0, *a, **k)
        self.H.root = root
        return self

    def __exit__(self, *exc):
        self.H.root = self.orig
        return False


def code_final_bracket(hy, vw, vp):
    """The final bracket of the code's own brentq run on shockTnuclDiff, from the evaluations
    it made (findMatching is re-run with root_scalar wrapped; deterministic): the two
    evaluation points of opposite sign closest to each other, as ((xa, fa/Tn), (xb, fb/Tn)),
    if they are no further apart than brentq's stopping width 4(rtol v+ + atol) and the
    returned v+ is one of them; else None"""
    import WallGo.hydrodynamics as H
    evals = []
    orig = H.root_scalar

    def rs(f, *a, **k):
        if getattr(f, "__name__", "") != "shockTnuclDiff":
            return orig(f, *a, **k)
        del evals[:]

        def g(x):
            y = f(x)
            evals.append((float(x), float(y) / hy.Tnucl))
            return y
        return orig(g, *a, **k)
    H.root_scalar = rs
    try:
        res = hy.findMatching(vw)
    except Exception:
        return None
    finally:
        H.root_scalar = orig
    if res[0] is None or abs(res[0] - vp) > 1e-15:
        return None
    neg = [e for e in evals if e[1] < 0]
    pos = [e for e in evals if e[1] > 0]
    if not neg or not pos:
        return None
    a, b = min(((p, q) for p in neg for q in pos), key=lambda pq: abs(pq[0][0] - pq[1][0]))
    if abs(a[0] - b[0]) > 4 * (hy.rtol * vp + hy.atol) or min(abs(a[0] - vp),
                                                              abs(b[0] - vp)) > 1e-15:
        return None
    return a, b


def root_on_jump(hy, vw, vp, miss, eos):
    """Class rule of the registered finding CLASS_JUMP, measured on the live object.  The
    recorded mechanism: the inner 2x2 hybr solve, STARTED FROM THE UNCHANGED CODE'S OWN
    template guess, hops between solutions as v+ varies, so the shooting function
    shockTnuclDiff has a jump and brentq converges onto it.  All of:
      (b) the shooting residual rebuilt from the public methods equals the observed miss at
          the returned v+ (the returned matching is the root finder's answer);
      (c) a JUMP at the resolution of the code's root finder: the final bracket of the code's
          own brentq run (its two closest evaluations of opposite sign, no wider than
          4(rtol v+ + atol), one of them the returned v+) differs by >= half the miss -- or,
          when the discontinuity is wide enough to be probed from outside: bisection on the
          rebuilt residual inside v+(1 +- 1e-4) down to the width 2(rtol v+ + atol) at which
          brentq stops: across that interval the residual still differs by >= half the miss;
      (d) at v+ and on both sides of the jump the inner solve was started from the guess the
          harness recomputes for the unchanged code (clean_guess, to 1e-8): a degraded initial
          guess is a different mechanism.
    Returns (is_class, why_not)."""
    try:
        with GuessSpy(hy) as spy:
            d0 = shooting_residual(hy, vw, vp)
        g0 = spy.guesses[-1] if spy.guesses else None
    except Exception:
        return False, "shooting residual not computable at v+"
    if abs(d0 - miss) > 0.05 * abs(miss) + 1e-9:
        return False, "returned v+ is not the root finder's answer"

    def f(x):
        with GuessSpy(hy) as sp2:
            r = shooting_residual(hy, vw, x)
        return r, (sp2.guesses[-1] if sp2.guesses else None)
    # (c) first from the code's OWN evaluations: the final bracket of its brentq run
    own = code_final_bracket(hy, vw, vp)
    if own is not None:
        (xa, fa), (xb, fb) = own
        if abs(fa - fb) >= 0.5 * abs(miss):
            for x in (vp, xa, xb):
                g = f(x)[1]
                want = clean_guess(eos, vw, x, hy.template.vMin)
                if want is None or g is None or any(abs(p_ - q_) > 1e-8 * abs(q_)
                                                    for p_, q_ in zip(g, want)):
                    return False, "inner solve not started from the unchanged code's guess " \
                        "(%r vs %r)" % (g, want)
            return True, ""
    try:
        lo, hi = vp * (1 - 1e-4), vp * (1 + 1e-4)
        (a, ga), (b, gb) = f(lo), f(hi)
        if a * b >= 0:
            # the sign change may sit closer to v+
            for d in (1e-5, 1e-6, 1e-7):
                lo, hi = vp * (1 - d), vp * (1 + d)
                (a, ga), (b, gb) = f(lo), f(hi)
                if a * b < 0:
                    break
            else:
                return False, "no sign change of the shooting residual next to v+"
        # down to the resolution of the code's own root finder (brentq stops at 2(xtol+rtol x))
        width = 2 * (hy.rtol * vp + hy.atol)
        for _ in range(60):
            if hi - lo <= width:
                break
            mid = 0.5 * (lo + hi)
            m, gm = f(mid)
            if m * a > 0:
                lo, a, ga = mid, m, gm
            else:
                hi, b, gb = mid, m, gm
    except Exception:
        return False, "shooting residual not computable next to v+"
    if abs(a - b) < 0.5 * abs(miss):
        return False, "sign change resolved by the root finder (no jump at its resolution)"
    for x, g in ((vp, g0), (lo, ga), (hi, gb)):
        want = clean_guess(eos, vw, x, hy.template.vMin)
        if want is None or g is None or any(abs(p - q) > 1e-8 * abs(q) for p, q in zip(g, want)):
            return False, "inner solve not started from the unchanged code's guess (%r vs %r)" % (
                g, want)
    return True, ""


CLASS_PINNED = "narrow-temperature-window-matching"
_DEFAULT_SOLVERS = {}


def pinned_at_window(spec, hy, vw, Tp, Tm):
    """Class rule of the registered finding CLASS_PINNED (family of non-default temperature
    windows only): the window alone is the cause -- a default-window solver for the same EOS
    and the same wall velocity reaches Tn, and both temperatures of ITS matching lie strictly
    inside the narrow window (2 % margin), so the narrow-window solver had a solution within
    its bounds (typically it returns a temperature pinned at a window end, or a solve started
    from a guess clipped by the tan map that hopped elsewhere)"""
    lo, hi = hy.TMinHydro, hy.TMaxHydro
    key = json.dumps(spec, sort_keys=True)
    if key not in _DEFAULT_SOLVERS:
        _DEFAULT_SOLVERS[key] = make_hydro(spec)[1]
    ref = _DEFAULT_SOLVERS[key]
    try:
        vp0, _vm0, Tp0, Tm0 = ref.findMatching(vw)
        tn, _ = oracle_Tn(OwnEOS(spec), vw, vp0, Tp0)
    except Exception:
        return False
    return rel(tn, ref.Tnucl) < 1e-4 and lo * 1.02 < Tm0 < hi / 1.02 and \
        lo * 1.02 < Tp0 < hi / 1.02


def check_matching_reaches_Tn(ctx, spec, eos, hy, vw, tag="", edge=False):
    """the deflagration/hybrid clause at one wall velocity.  `eos`: the oracle's own EOS.
    edge=True: a sample in the sliver above a root-found vMin -- judged like any other,
    except that a result the code itself flags (Hydrodynamics.success False) is a diagnostic"""
    Tn = hy.Tnucl
    case = dict(spec=spec, vw=vw, rtol=hy.rtol, atol=hy.atol)
    try:
        (vp, vm, Tp, Tm), fallback = find_matching(hy, vw)
    except Exception as ex:
        if edge:
            ctx.count("edge_above_vMin", case, bucket="raise")
            EDGE_BAD.append(dict(spec=spec, vw=vw, d=vw - hy.vMin, raised=repr(ex)[:120]))
            return None
        ctx.fail_input("findMatching(%r) raised %s inside the window; %s" % (
            vw, repr(ex)[:160], spec), dict(kind="raise", tb=traceback.format_exc()[-800:],
                                            **case), key="raises:" + spec["kind"])
        return None
    flagged = not bool(hy.success)
    tolT = TOL_TN_TIGHT if tight(hy) else TOL_TN
    tolS = TOL_SHOCK_TIGHT if tight(hy) else TOL_SHOCK
    at_vJ = vw == hy.vJ
    if at_vJ and tight(hy):
        tolT = TOL_TN_AT_VJ_TIGHT
    if tag == ":window" and (flagged or vp is None):
        # narrow-window family: a result the code flags itself is a diagnostic
        ctx.count("narrow_window_flagged_by_the_code", case)
        return None
    if not edge and flagged and gate_lo(hy) != GATE_SLOW and vw < hy.vMin + 3 * MARGIN_VMIN:
        edge = True        # grid point inside the sliver above a root-found vMin
    if edge and (flagged or vp is None):
        ctx.count("edge_above_vMin", case, bucket="flagged by the code:%.0e" % (vw - hy.vMin))
        EDGE_BAD.append(dict(spec=spec, vw=vw, d=vw - hy.vMin, vp=vp, Tp=Tp,
                             success=not flagged, fallback=fallback))
        return None
    ctx.count(("edge_above_vMin" if edge else "matching_reaches_Tn") + tag, case,
              bucket="%s:%s" % (spec["kind"], "at vJ" if at_vJ else (
                  "last 1e-4" if vw > hy.vJ - 1e-4 else (
                      "strip" if vw > hy.vJ - 1e-2 else (
                          "slow" if vw < SLOW_WALL else (
                              "hybrid" if vw ** 2 > float(eos.csqLowT(Tm or Tn))
                              else "deflag"))))))
    if vp is None:
        ctx.fail_input("findMatching(%r) returned None inside [%g, vJ] for %s" % (
            vw, gate_lo(hy), spec), dict(kind="no_matching", **case),
            key="no-matching:" + spec["kind"])
        return None
    try:
        tn, (xiS, vS, TS, I) = oracle_Tn(eos, vw, vp, Tp)
    except RuntimeError as ex:
        ctx.fail_input("flow from the returned (v+,T+) never reaches a shock front: %s; "
                       "vw=%r %s" % (ex, vw, spec), dict(kind="no_front", vp=vp, Tp=Tp,
                                                         **case), key="no-front")
        return None
    miss = tn / Tn - 1.0
    # type-changing threshold: the shock front about to coincide with the wall (v+ vw ->
    if abs(vp * vw - float(eos.csqHighT(Tp))) < (2.5 * FRONT_AT_WALL if tight(hy) else
                                                  FRONT_AT_WALL):
        # default pass 2e-4; tight pass 5e-6: the shooting function steepens there (slope up to
        # ~1e3 per relative v+, measured 6e-7 at rtol 1e-9), it is still 40x below the default
        tolT = max(tolT, TOL_TN_FRONT_AT_WALL_TIGHT if tight(hy) else TOL_TN_FRONT_AT_WALL)
        ctx.count("near_front_at_wall" + tag)
        wkey = "Tn_front_at_wall" + tag
    else:
        wkey = "Tn" + tag + (":at_vJ" if at_vJ else "")
    if abs(miss) <= tolT:
        worst(wkey, abs(miss), case)
    if abs(miss) > tolT and tag == ":window" and pinned_at_window(spec, hy, vw, Tp, Tm):
        ABSORBED.append(dict(spec=spec, vw=vw, window=(hy.TMaxHydro / Tn, hy.TMinHydro / Tn),
                             miss=miss, key=CLASS_PINNED))
        ctx.fail_input(
            "Hydrodynamics(tmax=%g, tmin=%g): vw=%.6f: the flow from the returned matching (T+="
            "%.6g T-=%.6g; window [%.6g, %.6g]) reaches T=%.8g ahead of the front, not Tn=%.8g "
            "(rel %.2e); the default-window matching reaches Tn and lies strictly inside this "
            "window; %s" % (
                hy.TMaxHydro / Tn, hy.TMinHydro / Tn, vw, Tp, Tm, hy.TMinHydro, hy.TMaxHydro,
                tn, Tn, abs(miss), spec),
            dict(kind="Tn", vp=vp, Tp=Tp, tmax=hy.TMaxHydro / Tn, tmin=hy.TMinHydro / Tn,
                 **case), key=CLASS_PINNED)
        return vp, vm, Tp, Tm
    if abs(miss) > tolT:
        known, why_not = root_on_jump(hy, vw, vp, miss, eos)
        if known:
            ABSORBED.append(dict(spec=spec, vw=vw, rtol=hy.rtol, miss=miss))
            ctx.log("attributed to %s: vw=%.7f miss %.2e rtol %g %s" % (
                CLASS_JUMP, vw, miss, hy.rtol, spec))
        ctx.fail_input(
            "vw=%.7f: integrating from the returned v+=%.8f T+=%.8f to the front and "
            "crossing it gives T=%.10g ahead, not Tn=%.10g (rel %.2e)%s%s%s; %s [rtol %g]" % (
                vw, vp, Tp, tn, Tn, abs(miss),
                " [template fallback used]" if fallback else "",
                " [Hydrodynamics.success is False]" if flagged else "",
                " [v+ sits on a jump of the code's own shooting function]" if known else
                " [not the registered jump class: %s]" % why_not,
                spec, hy.rtol),
            dict(kind="Tn", vp=vp, Tp=Tp, got=tn, **case),
            key=CLASS_JUMP if known else "Tn-not-reached:%s%s" % (
                spec["kind"], ":fallback" if fallback else ""))
    # the code's own shock solution on the same data
    try:
        tn_code = hy.solveHydroShock(vw, vp, Tp)
    except Exception as ex:
        ctx.fail_input("solveHydroShock raised %r at vw=%r v+=%r T+=%r; %s" % (
            ex, vw, vp, Tp, spec), dict(kind="shock_raise", vp=vp, Tp=Tp, **case),
            key="solveHydroShock-raises")
        return vp, vm, Tp, Tm
    ctx.count("solveHydroShock_vs_oracle", case)
    worst("shock" + tag, rel(tn_code, tn), case)
    if rel(tn_code, tn) > tolS:
        ctx.fail_input(
            "solveHydroShock(vw=%.6f, v+=%.8f, T+=%.8f) = %.10g but the independent "
            "integration gives %.10g (rel %.2e); %s" % (vw, vp, Tp, tn_code, tn,
                                                       rel(tn_code, tn), spec),
            dict(kind="shock", vp=vp, Tp=Tp, got=tn_code, want=tn, **case),
            key="solveHydroShock:" + spec["kind"])
    if const_cs(spec) and vS > 1e-6:
        m = mu(xiS, vS)
        w1, p1 = float(eos.wHighT(tn_code)), float(eos.pHighT(tn_code))
        w2, p2 = float(eos.wHighT(TS)), float(eos.pHighT(TS))
        M1 = w1 * xiS * xiS / (1 - xiS * xiS) + p1
        M2 = w2 * m * m / (1 - m * m) + p2
        ctx.count("momentum_flux_const_cs", case)
        worst("momentum", abs(M1 - M2) / (abs(w1) + abs(w2)), case)
        if abs(M1 - M2) > TOL_MOM * (abs(w1) + abs(w2)):
            ctx.fail_input("momentum flux jumps across the front: %.10g vs %.10g at "
                           "vw=%r; %s" % (M1, M2, vw, spec),
                           dict(kind="momentum", vp=vp, Tp=Tp, **case),
                           key="momentum-flux")
    return vp, vm, Tp, Tm


EDGE_BAD = []
KAPPA_DEFAULT = []
ABSORBED = []


def check_free_shock(ctx, spec, eos, hy, branch):
    """solveHydroShock on (vw, v+, T+) that do not come from a matching, on each of its three
    branches; the returned temperature must also be a zero of the closure TiiShock that the
    code handed to its root finder (bracket loop / brentq / secant section)"""
    rng = ctx.rng
    Tn = hy.Tnucl
    vw = rng.uniform(0.05, min(0.95, hy.vJ + 0.1))
    Tp = Tn * rng.uniform(0.9, 1.5)
    cs2 = float(eos.csqHighT(Tp))
    if branch == "integrated":
        vp = rng.uniform(0.02, 0.98) * min(vw, cs2 / vw)
    elif branch == "rest":
        vp = vw
    else:                                   # front at the wall: v+ vw > cs^2(T+)
        vw = rng.uniform(math.sqrt(cs2) + 0.02, 0.95)
        vp = rng.uniform(cs2 / vw * 1.01, min(vw * 0.999, 0.99))
        if not cs2 / vw < vp < vw:
            return
    case = dict(spec=spec, vw=vw, vp=vp, Tp=Tp, branch=branch, rtol=hy.rtol, atol=hy.atol)
    try:
        tn, _ = oracle_Tn(eos, vw, vp, Tp)
    except Exception:              # outside the domain of the statement: no flow / no front
        ctx.count("free_shock_skipped", case)
        return
    try:
        with Capture() as cap:
            tn_code = hy.solveHydroShock(vw, vp, Tp)
    except Exception as ex:
        ctx.fail_input("solveHydroShock(vw=%.6f, v+=%.8f, T+=%.8f) raised %s although the "
                       "flow reaches the front and T=%.8g ahead of it; %s" % (
                           vw, vp, Tp, repr(ex)[:120], tn, spec),
                       dict(kind="shock", want=tn, **case), key="solveHydroShock-raises")
        return
    ctx.count("free_shock", case, bucket="%s:%s" % (spec["kind"], branch))
    worst("free_shock:" + branch, rel(tn_code, tn), case)
    if rel(tn_code, tn) > (TOL_SHOCK_TIGHT if tight(hy) else TOL_SHOCK):
        ctx.fail_input("solveHydroShock(vw=%.6f, v+=%.8f, T+=%.8f) = %.10g [%s branch] but the "
                       "independent integration gives %.10g (rel %.2e); %s" % (
                           vw, vp, Tp, tn_code, branch, tn, rel(tn_code, tn), spec),
                       dict(kind="shock", got=tn_code, want=tn, **case),
                       key="solveHydroShock:" + spec["kind"])
    fT = [r for r in cap.roots if getattr(r[0], "__name__", "") == "TiiShock"]
    if not fT:
        ctx.fail_input("solveHydroShock did not hand TiiShock to root_scalar; %s" % spec,
                       dict(kind="shock", **case), key="TiiShock-not-solved")
        return
    f = fT[-1][0]
    res = abs(float(f(tn_code)))
    scale = abs(float(eos.wHighT(tn_code)))
    worst("TiiShock_residual", res / scale, case)
    if res > 1e-4 * scale:
        ctx.fail_input("solveHydroShock returned %.10g where its own TiiShock = %.3e (enthalpy "
                       "scale %.3e) [%s branch]; %s" % (tn_code, res, scale, branch, spec),
                       dict(kind="shock", got=tn_code, **case), key="TiiShock-residual")


def check_detonation(ctx, spec, eos, hy, vw):
    case = dict(spec=spec, vw=vw)
    try:
        vp, vm, Tp, Tm = hy.findMatching(vw)
    except Exception as ex:
        ctx.fail_input("findMatching(%r) raised %s for a detonation; %s" % (
            vw, repr(ex)[:160], spec), dict(kind="deton", **case),
            key="detonation-raises:" + spec["kind"])
        return None
    ctx.count("detonation_front", case, bucket=spec["kind"])
    if vp != vw or Tp != hy.Tnucl:
        ctx.fail_input("detonation vw=%r: plasma in front is disturbed: v+=%r T+=%r Tn=%r; %s"
                       % (vw, vp, Tp, hy.Tnucl, spec), dict(kind="deton", **case),
                       key="detonation-front")
    return vp, vm, Tp, Tm


def check_kappa(ctx, spec, eos, hy, hy_default, vw):
    """hy has solver tolerance KAPPA_RTOL; hy_default the default one (diagnostic).  Besides the
    value, the plan of efficiencyFactor is measured on the live call (Props/C03.v kappa_plan):
    which waves are integrated, from which state, with which terminal event."""
    case = dict(spec=spec, vw=vw, rtol=hy.rtol, atol=hy.atol)
    try:
        vp, vm, Tp, Tm = hy.findMatching(vw)
        if vp is None:
            raise RuntimeError("findMatching returned None")
        with Capture() as cap:
            kap = hy.efficiencyFactor(vw)
    except Exception as ex:
        ctx.fail_input("efficiencyFactor(%r) raised %s inside the window; %s" % (
            vw, repr(ex)[:160], spec), dict(kind="kappa", **case),
            key="kappa-raises:" + spec["kind"])
        return
    try:
        want, ksw, krw = oracle_kappa(eos, vw, vp, vm, Tp, Tm)
    except Exception as ex:
        ctx.log("kappa oracle failed (%r) at vw=%r %s" % (ex, vw, spec))
        ctx.count("kappa_oracle_failed", case)
        return
    kind = "deton" if vp == vw else ("hybrid" if krw else "deflag")
    ctx.count("kappa", case, bucket="%s:%s" % (spec["kind"], kind))
    worst("kappa", rel(kap, want), case)
    if abs(kap - want) > TOL_KAPPA * abs(want) + 1e-9:
        ctx.fail_input("efficiencyFactor(%.7f) = %.8g but the kinetic-energy integral of the "
                       "flow profile is %.8g (shock %.6g + rarefaction %.6g) [solver rtol "
                       "%g]; %s" % (vw, kap, want, ksw, krw, hy.rtol, spec),
                       dict(kind="kappa", got=kap, want=want, **case),
                       key="kappa:" + spec["kind"])
    # the plan, measured
    ivps = [i for i in cap.ivps if getattr(i[0], "__name__", "") == "shockDE" and
            i[5] == "efficiencyFactor"]
    sw = [i for i in ivps if i[3].get("args") in (None, (True,))]
    rw = [i for i in ivps if i[3].get("args") == (False,)]
    want_sw = vp != vw and vp * vw < float(eos.csqHighT(Tp))
    want_rw = vw ** 2 > float(eos.csqLowT(Tm))
    bad = None
    if bool(sw) != want_sw or len(sw) > 1:
        bad = "shock wave %sintegrated although v+ vw - cs^2(T+) = %.3e, v+ %s vw" % (
            "" if sw else "NOT ", vp * vw - float(eos.csqHighT(Tp)), "==" if vp == vw else "!=")
    elif bool(rw) != want_rw or len(rw) > 1:
        bad = "rarefaction wave %sintegrated although vw^2 - cb^2(T-) = %.3e" % (
            "" if rw else "NOT ", vw ** 2 - float(eos.csqLowT(Tm)))
    else:
        for lab, lst, v0, T0, ev in (("shock", sw, mu(vw, vp), Tp, True),
                                     ("rarefaction", rw, mu(vw, vm), Tm, False)):
            for i in lst:
                span, y0, kw = i[1], i[2], i[3]
                e = kw.get("events")
                if abs(span[0] - v0) > 1e-14 or y0 != [vw, T0] or not 0 < span[1] <= 1e-6:
                    bad = "%s wave integrated from v=%r (xi,T)=%r down to %r, expected " \
                        "v=%r (xi,T)=%r" % (lab, span[0], y0, span[1], v0, [vw, T0])
                elif ev and (e is None or not getattr(e, "terminal", False) or abs(
                        e(0.3, [0.7, Tp]) - (mu(0.7, 0.3) * 0.7 - float(
                            eos.csqHighT(Tp)))) > 1e-12):
                    bad = "shock wave integrated without the terminal front event"
                elif not ev and e is not None:
                    bad = "rarefaction wave integrated with an event"
                elif kw.get("rtol") != hy.rtol or kw.get("atol") != 0:
                    bad = "%s wave integrated with rtol=%r atol=%r" % (lab, kw.get("rtol"),
                                                                      kw.get("atol"))
    ctx.count("kappa_plan", case)
    if bad:
        ctx.fail_input("efficiencyFactor(%.7f): %s; %s" % (vw, bad, spec),
                       dict(kind="kappa", **case), key="kappa-plan")
    if hy_default is not None:
        check_kappa_default(ctx, spec, eos, hy_default, vw, want, kind)


CLASS_KAPPA = "kappa-default-tolerance"
TOL_KAPPA_DEFAULT = 1e-2


def check_kappa_default(ctx, spec, eos, hy, vw, want, kind):
    """the same clause with the DEFAULT solver tolerance.  Registered finding CLASS_KAPPA: the
    value is Simpson's rule over the few nodes solve_ivp happened to take, off by up to 18 %.
    Class rule: the returned number IS Simpson's rule, with the oracle's own integrand and
    prefactor, over the nodes of the code's own solve_ivp solutions (to 1e-9) -- i.e. nothing
    but the discretisation is wrong; anything else keeps the key kappa:<family>."""
    from scipy.integrate import simpson as own_simpson
    case = dict(spec=spec, vw=vw, rtol=hy.rtol, atol=hy.atol)
    try:
        with Capture() as cap:
            kd = hy.efficiencyFactor(vw)
    except Exception as ex:
        ctx.fail_input("efficiencyFactor(%r) raised %s inside the window [default tolerance]; %s"
                       % (vw, repr(ex)[:160], spec), dict(kind="kappa", **case),
                       key="kappa-raises:" + spec["kind"])
        return
    ctx.count("kappa_default_rtol", None, bucket="%s:err%s" % (
        kind, ">1e-2" if rel(kd, want) > TOL_KAPPA_DEFAULT else "<=1e-2"))
    if rel(kd, want) <= TOL_KAPPA_DEFAULT:
        worst("kappa_default_rtol:" + kind, rel(kd, want), case)
        return
    pre = 4.0 / (vw ** 3 * eos.alN() * float(eos.wHighT(eos.Tnucl)))
    rebuilt = 0.0
    for i in cap.ivps:
        if getattr(i[0], "__name__", "") != "shockDE" or i[5] != "efficiencyFactor":
            continue
        sol, rare = i[4], i[3].get("args") == (False,)
        w = np.array([float(eos.wLowT(t) if rare else eos.wHighT(t)) for t in sol.y[1]])
        y = sol.y[0] ** 2 * sol.t ** 2 / (1 - sol.t ** 2) * w
        rebuilt += (-1 if rare else 1) * pre * float(own_simpson(y=y, x=sol.y[0]))
    discretisation_only = abs(rebuilt - kd) <= 1e-9 * abs(kd)
    if discretisation_only:
        KAPPA_DEFAULT.append(dict(spec=spec, vw=vw, got=kd, want=want, rtol=hy.rtol))
    ctx.fail_input("efficiencyFactor(%.7f) = %.8g with the default solver tolerance but the "
                   "kinetic-energy integral of its flow profile is %.8g (rel %.2e)%s; %s" % (
                       vw, kd, want, rel(kd, want),
                       " [= Simpson over the %d+ nodes solve_ivp took: discretisation only]" %
                       min(len(i[4].t) for i in cap.ivps if i[5] == "efficiencyFactor")
                       if discretisation_only else "", spec),
                   dict(kind="kappa", got=kd, want=want, **case),
                   key=CLASS_KAPPA if discretisation_only else "kappa:" + spec["kind"])


def kappa_points(ctx, eos, hy, grid, full):
    """wall velocities at which kappa is checked: always a deflagration, the near-Jouguet
    strip, a generic hybrid, both sides of cb, detonations near vJ and near 1; the whole grid
    for `full`"""
    cb = math.sqrt(float(eos.csqLowT(eos.Tnucl)))
    lo, vJ = gate_lo(hy), hy.vJ
    pts = [grid[len(grid) // 3], vJ - 3e-4, 0.5 * (max(cb, lo) + vJ), vJ + 1e-3,
           vJ + 0.5 * (0.99 - vJ)]
    if full:
        pts += list(grid) + [vJ - 1e-4, vJ - 1e-3, cb - 1e-3, cb + 1e-3, 0.99]
    else:
        pts += [ctx.rng.choice([vJ - 1e-4, vJ - 1e-3, cb - 1e-3, cb + 1e-3, 0.99])]
    # vJ of this solver is itself a root (rtol): stay 1e-5 away from the type change
    return sorted(set(v for v in pts if lo <= v <= 0.99 and abs(v - vJ) >= 1e-5))


def config_families(ctx, specs):
    import WallGo
    cfg = WallGo.Config().configHydrodynamics
    want = (cfg.tmax, cfg.tmin, cfg.relativeTol, cfg.absoluteTol)
    picks, seen = [], set()
    for sp in specs:
        if sp["kind"] not in seen or (len(picks) < ctx.n(4, 12) and ctx.rng.random() < 0.2):
            picks.append(sp)
            seen.add(sp["kind"])
    for spec in picks:
        th = make_eos(spec)
        m = WallGo.WallGoManager()
        m._initHydrodynamics(th)
        hy = m.hydrodynamics
        got = (float(hy.TMaxHydro / hy.Tnucl), float(hy.TMinHydro / hy.Tnucl), hy.rtol, hy.atol)
        case = dict(spec=spec, path="WallGoManager._initHydrodynamics")
        ctx.count("through_manager", case, bucket=spec["kind"])
        if any(abs(a - b) > 1e-12 * abs(b) for a, b in zip(got, (10.0, 0.01, 1e-6, 1e-10))) or \
                any(abs(a - b) > 1e-12 * abs(b) for a, b in zip(got, want)):
            ctx.fail_input("the manager built Hydrodynamics with (tmax, tmin, rtol, atol) = %r; "
                           "configHydrodynamics says %r, the sampled configuration is (10, 0.01, "
                           "1e-6, 1e-10); %s" % (got, want, spec), dict(kind="manager", **case),
                           key="manager-config")
        if not gate_lo(hy) < hy.vJ - 2e-2:
            continue
        eos = OwnEOS(spec)
        lo, vJ = gate_lo(hy), hy.vJ
        for vw in (lo, 0.01, 0.05, 0.2, 0.4, 0.5 * (lo + vJ), vJ - 5e-2, vJ - 1e-3):
            if lo <= vw < vJ:
                check_matching_reaches_Tn(ctx, spec, eos, hy, vw, tag=":manager")
    for k, spec in enumerate(picks):
        for tmax, tmin in ((2.0, 0.5), (3.0, 0.3), (1.5, 0.8))[k % 3:][:ctx.n(1, 3)]:
            try:
                _th, hy = make_hydro(spec, tmax=tmax, tmin=tmin)
            except Exception as ex:
                ctx.fail_input("Hydrodynamics(tmax=%g, tmin=%g) raised %s; %s" % (
                    tmax, tmin, repr(ex)[:120], spec), dict(kind="raise", spec=spec, tmax=tmax,
                                                            tmin=tmin),
                    key="raises-window:" + spec["kind"])
                continue
            if not gate_lo(hy) < hy.vJ - 2e-2:
                continue
            eos = OwnEOS(spec)
            lo, vJ = gate_lo(hy), hy.vJ
            ctx.count("narrow_window", dict(spec=spec, tmax=tmax, tmin=tmin))
            if lo != GATE_SLOW:
                lo += 1e-1       # the unconverged sliver above a root-found vMin is wider here
            for vw in (lo, 0.01, 0.05, 0.2, 0.4, 0.55, vJ - 5e-2, vJ - 1e-3):
                if lo <= vw < vJ:
                    check_matching_reaches_Tn(ctx, spec, eos, hy, vw, tag=":window")


# recorded inputs of CLASS_PINNED: (spec, tmax, tmin, vw)
KNOWN_WINDOW_INPUTS = [
    (dict(kind="bag", psi=0.8, Tn=0.8), 2.0, 0.5, 0.4),
    (dict(kind="template", psiN=0.9, alN=0.1, cs2=0.32, cb2=0.29, Tn=100.0), 2.0, 0.5, 0.2),
]


def replay_known(ctx):
    for spec, tmax, tmin, vw in KNOWN_WINDOW_INPUTS:
        try:
            _th, hy = make_hydro(spec, tmax=tmax, tmin=tmin)
            check_matching_reaches_Tn(ctx, spec, OwnEOS(spec), hy, vw, tag=":window")
            ctx.count("known_input_replayed", dict(spec=spec, vw=vw, tmax=tmax, tmin=tmin))
        except Exception as ex:
            ctx.fail_input("replay of a recorded input raised %r; %s vw=%r" % (ex, spec, vw),
                           dict(kind="raise", spec=spec, vw=vw, tmax=tmax, tmin=tmin),
                           key="raises:" + spec["kind"])
    for spec, vw, rtol, atol in KNOWN_INPUTS:
        try:
            _th, hy = make_hydro(spec, rtol, atol)
            check_matching_reaches_Tn(ctx, spec, OwnEOS(spec), hy, vw,
                                      tag="_tight" if rtol < 1e-8 else "")
            ctx.count("known_input_replayed", dict(spec=spec, vw=vw, rtol=rtol))
        except Exception as ex:
            ctx.fail_input("replay of a recorded input raised %r; %s vw=%r" % (ex, spec, vw),
                           dict(kind="raise", spec=spec, vw=vw, rtol=rtol, atol=atol),
                           key="raises:" + spec["kind"])


def direct(ctx):
    WORST.clear()
    del EDGE_BAD[:]
    del KAPPA_DEFAULT[:]
    del ABSORBED[:]
    replay_known(ctx)
    specs = eos_specs(ctx)
    rng = ctx.rng
    seen_kind = set()
    for n, spec in enumerate(specs):
        try:
            th, hy = make_hydro(spec)
        except Exception as ex:
            ctx.log("EOS skipped (constructor raised %r): %s" % (ex, spec))
            ctx.count("eos_skipped", spec)
            continue
        eos = OwnEOS(spec)
        if not (gate_lo(hy) < hy.vJ - 2e-2):
            ctx.count("eos_no_window", spec)
            continue
        if n < 3:
            ctx.sample(dict(eos=spec, vJ=hy.vJ, vMin=hy.vMin))
        grid = vw_grid(ctx, hy)
        for vw in grid:
            check_matching_reaches_Tn(ctx, spec, eos, hy, vw)
        for vw in edge_grid(hy):
            check_matching_reaches_Tn(ctx, spec, eos, hy, vw, edge=True)
        for k in range(ctx.n(6, 24)):
            check_free_shock(ctx, spec, eos, hy, ("integrated", "integrated", "rest",
                                                  "front_at_wall")[k % 4])
        for vw in [hy.vJ + 1e-5, hy.vJ + 1e-3, hy.vJ + (0.99 - hy.vJ) * rng.random(),
                   0.99]:
            if hy.vJ < vw < 1:
                check_detonation(ctx, spec, eos, hy, vw)
        try:
            _th, hyk = make_hydro(spec, rtol=KAPPA_RTOL, atol=1e-13)
        except Exception as ex:
            ctx.fail_input("Hydrodynamics(rtol=%g) raised %r; %s" % (KAPPA_RTOL, ex, spec),
                           dict(kind="raise", spec=spec), key="raises:" + spec["kind"])
            continue
        full = spec["kind"] not in seen_kind or (not ctx.quick and n % 6 == 0)
        seen_kind.add(spec["kind"])
        for vw in kappa_points(ctx, eos, hyk, grid, full):
            check_kappa(ctx, spec, eos, hyk, hy if not full else None, vw)
    # other call path and other configurations: the EOS through the manager (config defaults),
    # and narrower temperature windows
    config_families(ctx, specs)
    # tight solver tolerances: the same statement at 1e-9, nowhere loosened
    stride = max(1, len(specs) // ctx.n(9, 60))
    for spec in specs[::stride]:
        try:
            th, hy = make_hydro(spec, rtol=1e-9, atol=1e-12)
        except Exception:
            continue
        eos = OwnEOS(spec)
        if not (gate_lo(hy) < hy.vJ - 2e-2):
            continue
        for vw in vw_grid(ctx, hy)[::ctx.n(2, 1)]:
            check_matching_reaches_Tn(ctx, spec, eos, hy, vw, tag="_tight")
        for k in range(ctx.n(4, 20)):
            check_free_shock(ctx, spec, eos, hy, ("integrated", "rest", "front_at_wall",
                                                  "integrated")[k % 4])
    for k in sorted(WORST):
        ctx.log("worst observed %-28s %.3e  %s" % (k, WORST[k][0], json.dumps(
            WORST[k][1], default=str)[:160]))
    ctx.cov["worst_observed"] = {k: v[0] for k, v in WORST.items()}
    if EDGE_BAD:
        ctx.log("NOTE: %d matchings in the sliver above a root-found vMin are flagged by the "
                "code itself (success False / None) -- diagnostics, listed in the evidence" %
                len(EDGE_BAD))
        ctx.cov["edge_above_vMin_flagged"] = EDGE_BAD[:12]
    ctx.cov["kappa_default_tolerance"] = KAPPA_DEFAULT[:12]
    ctx.cov["absorbed_by_%s" % CLASS_JUMP] = ABSORBED[:40]


def _private_build(ctx):
    """Work in build/<pid>.<ospid>: another `./check C03` / try_mutant run started meanwhile
    wipes build/<pid> (Ctx does rmtree) and would break the late Coq steps of a long run.
    The directory is moved back to build/<pid> at the end."""
    import os
    shared = ctx.bdir
    ctx.bdir = "%s.%d" % (shared, os.getpid())
    os.makedirs(ctx.bdir, exist_ok=True)
    return shared


def _publish_build(ctx, shared):
    import shutil
    private = ctx.bdir
    try:
        shutil.rmtree(shared, ignore_errors=True)
        shutil.move(private, shared)
    except Exception:
        shutil.rmtree(private, ignore_errors=True)
    ctx.bdir = shared


def run(ctx):
    shared = _private_build(ctx)
    try:
        _run(ctx)
    finally:
        _publish_build(ctx, shared)


def _run(ctx):
    srcs = [vlib.read_src(n) for n in ("hydrodynamics.py", "hydrodynamicsTemplateModel.py",
                                       "helpers.py")]
    gen_ok = True
    try:
        text, info = gen_hydro_shock.generate_c03(*srcs)
        mfacts, defaults = gen_hydro_shock.manager_hydro_facts(vlib.read_src("manager.py"),
                                                               vlib.read_src("config.py"))
        if [float(defaults[k]) for k in ("tmax", "tmin", "relativeTol", "absoluteTol")] != \
                [10.0, 0.01, 1e-6, 1e-10]:
            raise pyrx.TranslateError(
                "ConfigHydrodynamics defaults %r are not the configuration the harness samples "
                "(10, 0.01, 1e-6, 1e-10)" % defaults)
        info["facts"].append("WallGoManager._initHydrodynamics: " + mfacts["call"] +
                             "; defaults " + json.dumps(mfacts["defaults"]))
        ctx.write("HydroShock.v", text, sources=dict(
            files=["src/WallGo/hydrodynamics.py", "src/WallGo/hydrodynamicsTemplateModel.py",
                   "src/WallGo/helpers.py"], sha=[vlib.sha(s) for s in srcs],
            spans=info["spans"], preconditions=info["preconditions"], facts=info["facts"]))
    except pyrx.TranslateError as e:
        ctx.log("translator failed:", e)
        ctx.broken.append("translator: %s" % e)
        gen_ok = False
    proved = gen_ok and ctx.prove(extra=["HydroShock.v"])
    ctx.trusted += ["tools/pyrx.py + tools/gen_hydro_shock.py (AST translator; structural "
                    "checks of the scipy plumbing around the translated formulas)",
                    "Interval tactic (certified evaluation)",
                    "the independent xi-integrator of tools/props/C03.py (oracle)"]
    try:
        correspondence(ctx, proved)
    except Exception as ex:
        ctx.log("correspondence raised", traceback.format_exc())
        ctx.broken.append("correspondence: harness raised %r" % ex)
    direct(ctx)
    ctx.log("known-finding hits: %r" % (getattr(ctx, "known_count", {}),))
    ctx.cov["rule"] = (
        "EOS: two-step toy model (fixed + random couplings, Tn 0.5..0.95 Tc), bag (psi 0.5.."
        "0.98), template (random alpha_n, psi_n, cs2, cb2; Tn in {0.01, 1, 100}); the oracle "
        "evaluates the EOS, alpha_n and the existence of each wave from the spec's analytic "
        "p, p', p'' (no WallGo code). Per EOS the deflagration/hybrid window is gated from "
        "2e-3 when vMin = vBracketLow, else from vMin + %g (the sliver below is judged too, "
        "except results the code flags itself with success False), up to and including vJ: "
        "~35 wall velocities incl. slow walls 2e-3..4e-2, >= 12 in the strip vJ-1e-2..vJ, "
        "3 in the last 1e-4 and vJ itself; default (1e-6/1e-10) and tight (1e-9/1e-12) "
        "solver tolerances; detonations vJ+1e-5..0.99; free (vw,v+,T+) triples on all "
        "three branches of solveHydroShock with the TiiShock residual asserted; kappa (value "
        "and measured plan) at >= 6 velocities per EOS and on the whole grid for one EOS per "
        "family. Tolerances: Tn %.0e default (2e-4 within |v+ vw - cs^2(T+)| < 2e-3) / %.0e "
        "tight everywhere (2e-5 at vw == vJ where the code uses the template matching at "
        "template.vJ - 1e-6 by design), shock %.0e, momentum %.0e, kappa %.0e (relative). "
        "Exceptions and None results inside the window are failing inputs. distinct = "
        "distinct (EOS, vw, tolerances)." % (
            MARGIN_VMIN, TOL_TN, TOL_TN_TIGHT, TOL_SHOCK, TOL_MOM, TOL_KAPPA))
    ctx.assumptions += [
        "solve_ivp follows shockDE to its rtol and stops at the terminal event (validated: "
        "independent integrator in xi agrees on every sampled input)",
        "root_scalar returns a zero of TiiShock / of shockTnuclDiff (validated through the "
        "end-to-end Tn check)",
        "simpson over the solve_ivp nodes approximates the integral (validated to %.0e)" %
        TOL_KAPPA]


def replay(rep):
    print(json.dumps({k: v for k, v in rep.items() if k != "tb"}, indent=1))
    spec = rep.get("spec")
    if not spec:
        return 0
    th, hy = make_hydro(spec, rep.get("rtol", 1e-6), rep.get("atol", 1e-10))
    vw = rep.get("vw")
    print("vJ", hy.vJ, "vMin", hy.vMin)
    if rep.get("kind") in ("Tn", "no_front", "no_matching", "momentum"):
        vp, vm, Tp, Tm = hy.findMatching(vw)
        tn, st = oracle_Tn(th, vw, vp, Tp)
        print("findMatching(%r) =" % vw, (vp, vm, Tp, Tm))
        print("oracle: front at xi=%r v=%r T=%r; temperature ahead %r; Tn = %r; rel %.3e" % (
            st[0], st[1], st[2], tn, th.Tnucl, rel(tn, th.Tnucl)))
        return 1 if rel(tn, th.Tnucl) > (TOL_TN_TIGHT if tight(hy) else TOL_TN) else 0
    if rep.get("kind") == "shock":
        a = hy.solveHydroShock(vw, rep["vp"], rep["Tp"])
        b, _ = oracle_Tn(th, vw, rep["vp"], rep["Tp"])
        print("solveHydroShock", a, "oracle", b, "rel %.3e" % rel(a, b))
        return 1 if rel(a, b) > (TOL_SHOCK_TIGHT if tight(hy) else TOL_SHOCK) else 0
    if rep.get("kind") == "kappa":
        vp, vm, Tp, Tm = hy.findMatching(vw)
        a = hy.efficiencyFactor(vw)
        b = oracle_kappa(OwnEOS(spec), vw, vp, vm, Tp, Tm)
        print("efficiencyFactor", a, "oracle", b, "rel %.3e" % rel(a, b[0]))
        return 1 if abs(a - b[0]) > (TOL_KAPPA if hy.rtol < 1e-9 else 1e-2) * abs(b[0]) \
            + 1e-9 else 0
    if rep.get("kind") == "deton":
        print(hy.findMatching(vw))
    return 0
