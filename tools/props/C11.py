"""C11 -- a traced phase is one genuine minimum, tabulated only where it exists."""
import json
import logging
import math
import subprocess
import traceback
from fractions import Fraction

import numpy as np

import gen_trace
import pyrx
import vlib
import wgmodels

EXPLANATION = (
    "tools/gen_trace.py (typed, fail-closed; every top-level statement of tracePhase is "
    "whitelisted, scipyKwargs pinned, no rebinding of parameters) regenerates from "
    "freeEnergy.py / thermodynamics.py / all modules of the package: the ODE right-hand side "
    "and the spinodal test, the first table entry and the assert before the loops, the body "
    "of the stepping loop as named straight-line segments with its shape, the joining of the "
    "two sweeps, clamps, kept flags and the range/flag bookkeeping, the stepping loop of "
    "findCriticalTemperature with the bracket given to brentq, and how every tracePhase call "
    "binds its arguments. Coq proves, for ALL behaviours of the external numerics: the ODE "
    "keeps a critical point critical (one field, any C2 potential); the spinodal test is "
    "positivity of ALL Hessian eigenvalues (= positive definiteness for two fields, in any "
    "rotated basis; a diagonal test is refuted); the loop body has exactly the shape "
    "[update, break, update, break, continue, update] and a sweep ends only because RK45 is "
    "no longer running, its step failed, spinodalEvent <= 0 at the current point, or the "
    "stall test holds (exhaustive); with re-minimisation every entry the loop writes passed "
    "the test AT the tabulated field value and carries findLocalMinimum's potential there "
    "(without: _partial, with the acceptance threshold |grad V|/T0^3 <= rTol in the model); "
    "entry 0 is findLocalMinimum's output from the user's guess (the assert only fixes the "
    "common sign of the eigenvalues: _partial, a maximum passes); the joined table is "
    "strictly sorted and its three columns stay attached row by row; reported range = table "
    "-/+ 2dT; an end is flagged iff the table stops short of the clamped request or the flag "
    "was set before and the request reaches the previous end; the traced table is frozen; a "
    "successful Tc search hands brentq a bracket with a sign change inside the coexistence "
    "range (orientation _partial); every tracePhase call keeps spinodal detection on. The "
    "closed-form oracles are proved and compared with tools/wgmodels.py and the traced "
    "potential by certified interval evaluation; the generated range/flag model is compared "
    "inside Coq with what the implementation reports on real traces (first, wider and "
    "narrower second calls). The property is then evaluated on the real tracer: one- and "
    "two-field closed-form models (rotated basis, three unit systems), exact and "
    "approximate starting guesses, production-size sweeps (> 4000 nodes), histories on one "
    "object (re-traces, direct evaluations), default arguments, phaseTracerFirstStep, "
    "pre-traced and on-demand findCriticalTemperature: gradient, Hessian, branch identity, "
    "free energy, flags, margins, node spacing, interpolation error, refusal outside the "
    "table, Tc, orientation and the brentq bracket. Known findings are matched by narrow "
    "class rules (model family, unit system, history, distance of the hop from the spinodal); "
    "the hop rate per bucket is in the evidence (hop_rate).")

logging.getLogger().setLevel(logging.CRITICAL)


# =====================================================================================
# closed-form models
# =====================================================================================

class Phase:
    """Closed-form phase: location, the open temperature interval on which it is a genuine
    minimum, and whether it still exists as a critical point beyond each end."""

    def __init__(self, name, loc, Tlo, Thi):
        self.name, self.loc, self.Tlo, self.Thi = name, loc, Tlo, Thi


class Quartic1:
    """V = D (T^2-T0^2) phi^2 - E T phi^3 + lam/4 phi^4 - g pi^2/90 T^4 in units `unit`
    (Lib.PhaseTrace Part B is the proof of the closed forms used here)."""
    nf = 1

    def __init__(self, D=0.2, E=0.05, lam=0.1, T0=80.0, g=100.0, unit=1.0):
        self.par = dict(D=D, E=E, lam=lam, T0=T0, g=g, unit=unit)
        self.pot = wgmodels.quartic1(D=D, E=E, lam=lam, T0=T0, g=g, unit=unit)
        self.ex = wgmodels.quartic1_exact(**self.pot.params)
        self.D, self.E, self.lam, self.T0, self.g = D, E, lam, T0 * unit, g
        self.Tscale = T0 * unit
        self.fscale = T0 * unit
        self.unit = unit
        ex = self.ex
        self.phases = {
            "sym": Phase("sym", lambda T: np.array([0.0]), ex["Tspin_sym"], math.inf),
            "broken": Phase("broken", lambda T: np.array([self.phi_b(T)]), 0.0,
                            ex["Tspin_broken"]),
        }
        self.Tc = ex["Tc"]
        self.low, self.high = "broken", "sym"

    def phi_b(self, T):
        disc = 9 * self.E ** 2 * T ** 2 - 8 * self.lam * self.D * (T ** 2 - self.T0 ** 2)
        return (3 * self.E * T + math.sqrt(max(disc, 0.0))) / (2 * self.lam)

    def V(self, x, T):
        return self.ex["V"](float(x[0]), T)

    def grad(self, x, T):
        p = float(x[0])
        return np.array([2 * self.D * (T ** 2 - self.T0 ** 2) * p - 3 * self.E * T * p ** 2
                         + self.lam * p ** 3])

    def hess(self, x, T):
        p = float(x[0])
        return np.array([[2 * self.D * (T ** 2 - self.T0 ** 2) - 6 * self.E * T * p
                          + 3 * self.lam * p ** 2]])

    def describe(self):
        return dict(model="quartic1", **self.par)


class TwoField:
    """Z2 x Z2 two-field quartic in a field basis rotated by theta w.r.t. the mass basis:
       V = -g T^4 + mua2/2 a^2 + la/4 a^4 + mub2/2 b^2 + lb/4 b^4 + lab/4 a^2 b^2,
       mua2 = ca (T^2 - Ta^2), mub2 = cb (T^2 - Tb^2),  (p1,p2) = R(theta) (a,b).
    Phases (closed form): B = (0, sqrt(-mub2/lb)) minimum while m_a^2 = mua2 - lab mub2/(2lb)
    > 0 and mub2 < 0; A = (sqrt(-mua2/la), 0) minimum while mub2 - lab mua2/(2la) > 0 and
    mua2 < 0."""
    nf = 2

    def __init__(self, theta=0.0, ca=0.3, Ta=120.0, la=0.12, cb=0.1, Tb=160.0, lb=0.2,
                 lab=0.5, g=10.0, unit=1.0):
        import WallGo
        from WallGo import EffectivePotential
        self.par = dict(theta=theta, ca=ca, Ta=Ta, la=la, cb=cb, Tb=Tb, lb=lb, lab=lab, g=g,
                        unit=unit)
        Ta, Tb = Ta * unit, Tb * unit
        self.th, self.ca, self.Ta, self.la = theta, ca, Ta, la
        self.cb, self.Tb, self.lb, self.lab, self.g = cb, Tb, lb, lab, g
        self.unit = unit
        self.Tscale = Ta
        self.fscale = Ta
        c, s = math.cos(theta), math.sin(theta)
        self.R = np.array([[c, -s], [s, c]])          # p = R (a,b)
        me = self

        class Pot(EffectivePotential):
            fieldCount = 2
            effectivePotentialError = 1e-15

            def evaluate(self, fields, temperature):
                p = np.asarray(fields)
                a = c * p[..., 0] + s * p[..., 1]
                b = -s * p[..., 0] + c * p[..., 1]
                T = np.asarray(temperature)
                return np.asarray(-g * T ** 4 + 0.5 * me.mua2(T) * a ** 2
                                  + 0.25 * la * a ** 4 + 0.5 * me.mub2(T) * b ** 2
                                  + 0.25 * lb * b ** 4 + 0.25 * lab * a ** 2 * b ** 2)

        self.pot = Pot()
        # spinodals: m_a^2(T) = (ca - k) T^2 - (ca Ta^2 - k Tb^2), k = lab cb / (2 lb)
        k = lab * cb / (2 * lb)
        TsB = math.sqrt((ca * Ta ** 2 - k * Tb ** 2) / (ca - k))
        kk = lab * ca / (2 * la)
        TsA = math.sqrt((cb * Tb ** 2 - kk * Ta ** 2) / (cb - kk))
        # B is a minimum for TsB < T < Tb (if ca > k), A for T < min(TsA, Ta) (if cb < kk)
        assert ca > k and cb < kk and TsB < Tb and TsA < Ta
        self.TsA, self.TsB = TsA, TsB
        self.phases = {
            "B": Phase("B", lambda T: self.R @ np.array([0.0, math.sqrt(
                max(-self.mub2(T), 0.0) / lb)]), TsB, Tb),
            "A": Phase("A", lambda T: self.R @ np.array([math.sqrt(
                max(-self.mua2(T), 0.0) / la), 0.0]), 0.0, TsA),
        }
        # crossing of the free energies: mua2^2/la = mub2^2/lb
        ra, rb = ca / math.sqrt(la), cb / math.sqrt(lb)
        # -mua2/sqrt(la) = -mub2/sqrt(lb)  (both negative masses)
        self.Tc = math.sqrt((ra * Ta ** 2 - rb * Tb ** 2) / (ra - rb))
        self.low, self.high = "A", "B"

    def mua2(self, T):
        return self.ca * (T ** 2 - self.Ta ** 2)

    def mub2(self, T):
        return self.cb * (T ** 2 - self.Tb ** 2)

    def ab(self, x):
        return self.R.T @ np.asarray(x, dtype=float)

    def V(self, x, T):
        a, b = self.ab(x)
        return (-self.g * T ** 4 + 0.5 * self.mua2(T) * a ** 2 + 0.25 * self.la * a ** 4
                + 0.5 * self.mub2(T) * b ** 2 + 0.25 * self.lb * b ** 4
                + 0.25 * self.lab * a ** 2 * b ** 2)

    def grad(self, x, T):
        a, b = self.ab(x)
        gab = np.array([self.mua2(T) * a + self.la * a ** 3 + 0.5 * self.lab * a * b ** 2,
                        self.mub2(T) * b + self.lb * b ** 3 + 0.5 * self.lab * a ** 2 * b])
        return self.R @ gab

    def hess(self, x, T):
        a, b = self.ab(x)
        h = np.array([[self.mua2(T) + 3 * self.la * a ** 2 + 0.5 * self.lab * b ** 2,
                       self.lab * a * b],
                      [self.lab * a * b,
                       self.mub2(T) + 3 * self.lb * b ** 2 + 0.5 * self.lab * a ** 2]])
        return self.R @ h @ self.R.T

    def describe(self):
        return dict(model="twofield", **self.par)


def build_model(desc):
    d = dict(desc)
    kind = d.pop("model")
    m = Quartic1(**d) if kind == "quartic1" else TwoField(**d)
    import WallGo
    m.pot.configureDerivatives(WallGo.VeffDerivativeSettings(
        temperatureVariationScale=1.0 * m.unit, fieldValueVariationScale=10.0 * m.unit))
    return m


# =====================================================================================
# the property evaluated on one trace
# =====================================================================================

def trace(m, phase, Tstart, TMin, TMax, dT, rTol, paranoid, spinodal=True, guess=0.0,
          defaults=False, firstStep=None):
    """`guess`: relative error of the starting guess (the API documents an APPROXIMATE
    position of the phase); `defaults`: call tracePhase(TMin, TMax, dT) and let rTol,
    spinodal, paranoid take their defaults; `firstStep`: phaseTracerFirstStep, documented
    as a fraction of dT"""
    from WallGo import Fields
    from WallGo.freeEnergy import FreeEnergy
    ph = m.phases[phase]
    fe = FreeEnergy(m.pot, Tstart, Fields(ph.loc(Tstart) * (1.0 + guess)))
    if defaults:
        fe.tracePhase(TMin, TMax, dT)
    elif firstStep is not None:
        fe.tracePhase(TMin, TMax, dT, rTol=rTol, spinodal=spinodal, paranoid=paranoid,
                      phaseTracerFirstStep=firstStep)
    else:
        fe.tracePhase(TMin, TMax, dT, rTol=rTol, spinodal=spinodal, paranoid=paranoid)
    return fe


def check_table(m, phase, fe, cfg, report):
    """`report(key, what, extra)` is called for every failed clause; returns #clauses."""
    ph = m.phases[phase]
    T = np.asarray(fe._interpolationPoints, dtype=float)
    tab = np.asarray(fe._interpolationValues, dtype=float)
    dT, rTol = cfg["dT"], cfg["rTol"]
    TMin, TMax = max(cfg["TMin"], 0.0), cfg["TMax"]
    # what the USER asked for (decides whether an end may be flagged); after a previous trace
    # the call itself works on the request clamped to the previous range (decides coverage)
    UMin, UMax = max(cfg.get("TMinUser", TMin), 0.0), cfg.get("TMaxUser", TMax)
    n = 0
    Ts, fs = m.Tscale, m.fscale
    # overshoot of the spinodal that the stop test cannot avoid: the last accepted point has a
    # positive smallest eigenvalue of the finite-difference Hessian, so it can only lie beyond
    # the exact spinodal by a rounding-size amount
    # (without effective re-minimisation -- BFGS's absolute gtol in small units -- the accepted
    # gradient error rTol translates into an overshoot of a few rTol, relative)
    slack = max(1e-4, 30 * rTol) * Ts
    # the accepted point passed the test on the FINITE-DIFFERENCE Hessian at a position that is
    # itself only accurate to the tracer tolerance: the exact smallest eigenvalue there may be
    # negative by (third derivative) x (position error) + finite-difference rounding, about
    # 1e-7 T^2 (model); same safety factor as the position tolerance
    eig_model = 1e-7 * Ts ** 2
    eig_floor = -EIG_SAFETY * eig_model
    lo_exist, hi_exist = ph.Tlo - slack, ph.Thi + slack
    # ---- sortedness, no two nodes a few ulp apart ---------------------------------------
    n += 2
    if not np.all(np.diff(T) > 0):
        report("table-not-sorted", "tabulated temperatures are not strictly increasing",
               dict(T=T.tolist()[:20]))
    elif len(T) > 1 and float(np.min(np.diff(T))) <= 1e-12 * cfg["Tstart"]:
        k = int(np.argmin(np.diff(T)))
        report("duplicate-node-degrades-interpolation",
               "table nodes %r and %r are %.3g apart (RK45's final micro-step onto the end of "
               "the range stored as a separate node): the spline is ill-conditioned at that "
               "end" % (T[k], T[k + 1], T[k + 1] - T[k]), dict(T=float(T[k])))
    if len(T) > 1 and float(np.max(np.diff(T))) > dT * (1 + 1e-9) + 1e-12 * Ts:
        k = int(np.argmax(np.diff(T)))
        report("node-spacing-exceeds-dT", "table nodes %.10g and %.10g are %.4g apart, more "
               "than the maximal step dT=%.4g" % (T[k], T[k + 1], T[k + 1] - T[k], dT), {})
    n += 1
    # ---- every tabulated point --------------------------------------------------------
    beyond_min, beyond_other, beyond_trans = [], [], []
    worst = dict(grad=0.0, field=0.0, veff=0.0)
    for Ti, row in zip(T, tab):
        x, v = row[:-1], row[-1]
        H = m.hess(x, Ti)
        emin = float(np.linalg.eigvalsh(H)[0])
        n += 1
        if not (lo_exist <= Ti <= hi_exist):
            # the traced phase does not exist here: what has been tabulated instead?
            rec = (float(Ti), x.tolist(), emin)
            if emin <= 0:
                beyond_other.append(rec)            # a saddle / maximum / non-minimum
            else:
                g = m.grad(x, Ti)
                step = float(np.linalg.norm(np.linalg.solve(H, g)))
                # (how accurately the OTHER phase's minimum is located is not the point here:
                # 1e-4 of the field scale separates "a minimum" from "in transit")
                tolx = max(TOL_SAFETY * err_model(m, rTol, 1.0, v, emin), 1e-4 * fs)
                # genuine minimum of ANOTHER phase, or a point in transit to it
                (beyond_min if step <= tolx else beyond_trans).append(rec)
            continue
        worst["eig"] = max(worst.get("eig", 0.0), -emin / eig_model)
        if emin <= eig_floor:
            report("tabulated-non-minimum",
                   "tabulated point T=%.10g fields=%s has smallest exact Hessian eigenvalue "
                   "%.4g <= 0" % (Ti, x.tolist(), emin), dict(T=float(Ti), x=x.tolist()))
            continue
        if not (ph.Tlo < Ti < ph.Thi):
            # inside the slack zone but beyond the exact spinodal: no critical point exists
            # there, only the positive curvature (checked above) is required
            continue
        # gradient: a Newton step H^-1 g measures the distance to the true critical point
        g = m.grad(x, Ti)
        try:
            step = float(np.linalg.norm(np.linalg.solve(H, g)))
        except np.linalg.LinAlgError:
            step = math.inf
        exact = ph.loc(Ti)
        dist = float(min(np.linalg.norm(x - exact), np.linalg.norm(x + exact)
                         if m.nf == 2 else math.inf))
        # tolerance: the tracer's own (absolute tolerance rTol*max(|phi0|,T0), BFGS gtol
        # rTol) amplified by the softness of the minimum
        soft = max(1.0, (0.02 * Ts ** 2) / max(emin, 1e-300))
        # + what BFGS with forward-difference gradients can resolve: the rounding noise of
        # the gradient, eps |V| / sqrt(eps), divided by the curvature
        model = err_model(m, rTol, soft, v, emin)
        tolx = TOL_SAFETY * model
        worst["grad"] = max(worst["grad"], step / model)
        near_end = min(abs(Ti - ph.Tlo), abs(Ti - ph.Thi)) < 3 * slack
        if not (near_end and dist > 2 * tolx + step):      # (those are hops, counted below)
            worst["field"] = max(worst["field"], dist / (2 * model + step))
        if step > tolx:
            report("gradient-not-zero",
                   "tabulated point T=%.10g fields=%s is %.3g (Newton step) away from a "
                   "critical point, tolerance %.3g" % (Ti, x.tolist(), step, tolx),
                   dict(T=float(Ti), x=x.tolist(), err=step, noise=fd_noise(v, emin),
                        size=float(np.linalg.norm(x))))
        elif dist > 2 * tolx + step and min(abs(Ti - ph.Tlo), abs(Ti - ph.Thi)) < 3 * slack:
            # a genuine minimum of another phase right at the spinodal: same event as a hop
            beyond_min.append((float(Ti), x.tolist(), emin))
        elif dist > 2 * tolx + step:
            report("wrong-branch",
                   "tabulated point T=%.10g fields=%s is a critical point but not the traced "
                   "phase %s (closed form %s)" % (Ti, x.tolist(), phase, exact.tolist()),
                   dict(T=float(Ti), x=x.tolist()))
        vex = m.V(x, Ti)
        rel = abs(v - vex) / max(abs(vex), 1e-300)
        worst["veff"] = max(worst["veff"], rel / 1e-9)
        if rel > 1e-9:
            report("veff-not-potential-at-minimum",
                   "tabulated free energy %.15g at T=%.10g differs from V(fields)=%.15g" %
                   (v, Ti, vex), dict(T=float(Ti), x=x.tolist(), v=float(v)))
    if beyond_other:
        Ti, x, emin = beyond_other[len(beyond_other) // 2]
        report("tabulated-non-minimum",
               "%d tabulated points lie outside the range (%.8g, %.8g) where phase %s is a "
               "minimum and are not minima of anything, e.g. T=%.10g fields=%s smallest exact "
               "Hessian eigenvalue %.4g" % (len(beyond_other), ph.Tlo, ph.Thi, phase, Ti, x,
                                            emin), dict(T=Ti, x=x, count=len(beyond_other)))
    # which end(s) of the table left the range where the phase exists
    bad_lo = any(r[0] < ph.Tlo for r in beyond_min + beyond_other + beyond_trans)
    bad_hi = any(r[0] > ph.Thi for r in beyond_min + beyond_other + beyond_trans)
    history = cfg.get("history", "single")
    if beyond_min:
        # genuine minima of another phase beyond a spinodal of the traced one: the tracer
        # stepped over the spinodal and went on (points in transit belong to the same event).
        # The recorded finding is narrow: one tracePhase call on a fresh object, one-field
        # quartic (first-order spinodal: the other minimum is what BFGS slides into), the hop
        # happens AT the spinodal (the last node on the branch is within two steps of it).
        Ti, x, emin = beyond_min[len(beyond_min) // 2]
        on = T[(T > ph.Tlo) & (T < ph.Thi)]
        dist = min([abs(on.max() - ph.Thi) if bad_hi and len(on) else math.inf,
                    abs(on.min() - ph.Tlo) if bad_lo and len(on) else math.inf])
        # The recorded finding, by mechanism (any model): ONE tracePhase call produced the hop
        # and it happened AT a spinodal of the traced phase (the last node on the branch is
        # within two steps of it).  How OFTEN it happens is bounded separately (hop_rate).
        key = "trace-hops-phase-at-spinodal"
        if history != "single":
            key = "hop-after-history"
        elif dist > 2 * dT + 3 * slack:
            key = "hop-away-from-spinodal"
        elif cfg.get("nohop"):
            key = "hop-where-recorded-tree-stops"
        report(key,
               "%d tabulated points lie beyond the spinodal of phase %s (a minimum only for "
               "%.8g < T < %.8g) and are genuine minima of ANOTHER phase, e.g. T=%.10g "
               "fields=%s: the tracer stepped over the spinodal and continued without "
               "flagging the end (last node on the branch %.3g from the spinodal)" % (
                   len(beyond_min), phase, ph.Tlo, ph.Thi, Ti, x, dist),
               dict(T=Ti, x=x, count=len(beyond_min)))
    elif beyond_trans:
        # recorded finding: small unit system (BFGS's absolute gtol makes the re-minimisation
        # a no-op), one-field quartic, single call
        Ti, x, emin = beyond_trans[len(beyond_trans) // 2]
        key = "tabulated-beyond-spinodal"
        if history != "single":
            key = "beyond-spinodal-after-history"
        elif m.nf == 1 and m.unit >= 100:
            # large units: scipy's absolute finite-difference step is rounding noise, the
            # re-minimisation cannot move the point (recorded separately)
            key = "minimiser-noop-in-large-units"
        elif m.nf != 1 or m.unit > 1e-2:
            key = "tabulated-beyond-spinodal-other-units"
        report(key,
               "%d tabulated points lie outside the range (%.8g, %.8g) where phase %s exists "
               "and are not critical points, e.g. T=%.10g fields=%s" % (
                   len(beyond_trans), ph.Tlo, ph.Thi, phase, Ti, x),
               dict(T=Ti, x=x, count=len(beyond_trans)))
    hopped = bool(beyond_min or beyond_other or beyond_trans)
    worst["hopped"] = 1.0 if hopped else 0.0
    if hopped:
        # points of the other phase inside the slack zone belong to the same event
        report.drop_near(ph.Tlo, ph.Thi, 0.01 * Ts)
    # ---- ends, margins, flags ---------------------------------------------------------
    mn, mx = fe.minPossibleTemperature, fe.maxPossibleTemperature
    n += 1
    if mn[0] != T.min() + 2 * dT or mx[0] != T.max() - 2 * dT:
        report("margin", "reported range [%r, %r] is not the table [%r, %r] -/+ 2 dT" % (
            mn[0], mx[0], T.min(), T.max()), {})
    for end, req, ureq, tabT, flag, spin_T, sgn in (
            ("lower", TMin, UMin, T.min(), mn[1], ph.Tlo, +1),
            ("upper", TMax, UMax, T.max(), mx[1], ph.Thi, -1)):
        n += 1
        past = (ureq < spin_T - slack) if sgn > 0 else (ureq > spin_T + slack)
        if (bad_lo if sgn > 0 else bad_hi):
            continue          # the wrong flag / range at this end is part of the hop finding
        if past:
            # the minimum ceases to exist inside the requested range
            if not flag:
                report("end-not-flagged",
                       "%s end: requested %.8g lies beyond the spinodal %.8g but the end "
                       "%.8g of the table is not flagged as a genuine disappearance" % (
                           end, req, spin_T, tabT), dict(end=end))
            gap = sgn * (tabT - spin_T)
            # (a request clamped by a previous range can end before the spinodal)
            if gap > 2 * dT + 0.02 * Ts + max(0.0, sgn * (req - spin_T)):
                report("stops-early",
                       "%s end: table stops at %.8g, %.4g away from the spinodal %.8g "
                       "(step %.3g)" % (end, tabT, gap, spin_T, dT), dict(end=end))
        else:
            if flag:
                report("end-flagged-wrongly",
                       "%s end: the phase exists on the whole requested range (to %.8g, "
                       "spinodal %.8g) but the end %.8g is flagged as a disappearance" % (
                           end, req, spin_T, tabT), dict(end=end))
            if abs(tabT - req) > 1e-9 * Ts:
                report("range-not-covered",
                       "%s end: table ends at %.10g, requested %.10g, phase exists there" % (
                           end, tabT, req), dict(end=end))
    # did the initial findLocalMinimum move away from the user's (perturbed) guess at all?
    nomove, kink = False, False
    if cfg.get("guess"):
        k0 = int(np.argmin(np.abs(T - cfg["Tstart"])))
        g0 = ph.loc(cfg["Tstart"]) * (1.0 + cfg["guess"])
        moved = float(np.linalg.norm(tab[k0][:-1] - g0))
        nomove = moved <= 0.2 * abs(cfg["guess"]) * float(np.linalg.norm(g0))
        start_err = float(np.linalg.norm(tab[k0][:-1] - ph.loc(cfg["Tstart"])))
        # a start node that is still off (by no more than the guess was) is a kink in the table
        kink = (100 * rTol + 1e-5) * fs < start_err <= 2.0 * abs(cfg["guess"]) * float(
            np.linalg.norm(g0))
    # ---- interpolation ------------------------------------------------------------------
    if mx[0] > mn[0]:
        inner = T[(T >= mn[0]) & (T <= mx[0])]
        if hopped:
            # only the part on the branch, five nodes away from the end that left it
            inner = inner[(inner > ph.Tlo) & (inner < ph.Thi)]
            inner = inner[(5 if bad_lo else 0): (len(inner) - 5 if bad_hi else len(inner))]
            # (and three steps: the spline carries the jump at the hop back into the branch)
            if bad_lo:
                inner = inner[inner > ph.Tlo + 3 * dT]
            if bad_hi:
                inner = inner[inner < ph.Thi - 3 * dT]
        k0 = np.arange(len(inner) - 1)
        if len(k0) > 40:
            k0 = k0[:: len(k0) // 40]
        pts = [(0.5 * (inner[k] + inner[k + 1]), inner[k + 1] - inner[k]) for k in k0]
        for Tend in ([] if hopped else [mn[0], mx[0]]):
            k = int(np.searchsorted(T, Tend))
            k = min(max(k, 1), len(T) - 1)
            pts.append((Tend, T[k] - T[k - 1]))
        fV = lambda t: m.V(ph.loc(t), t)
        # two abscissae a few ulp apart (RK45's last micro-step onto t_bound) make the spline
        # oscillate near that end: its own failure class
        dup = bool(np.any(np.diff(T) < 1e-12 * Ts))
        ikey = "duplicate-node-degrades-interpolation" if dup else "interpolation-error"
        for Tm, h in pts:
            if not (ph.Tlo < Tm < ph.Thi):
                continue
            n += 1
            r = fe(float(Tm))
            x = np.asarray(r.fieldsAtMinimum, dtype=float).ravel()
            v = float(np.asarray(r.veffValue).ravel()[0])
            exact = ph.loc(Tm)
            H = m.hess(exact, Tm)
            emin = float(np.linalg.eigvalsh(H)[0])
            soft = max(1.0, (0.02 * Ts ** 2) / max(emin, 1e-300))
            # tracer tolerance + cubic-spline bound (5/384) h^4 max|d4f/dT4| for the actual
            # node spacing (the 2 dT margin is what keeps d4f/dT4 bounded near a spinodal)
            room = 0.2 * min(Tm - ph.Tlo, ph.Thi - Tm, Tm)
            hh = min(1e-2 * Ts, room)
            d4x = max(np.max(np.abs(_d4(ph.loc, t, hh))) for t in (Tm - 2 * hh, Tm, Tm + 2 * hh))
            d4v = max(abs(_d4(fV, t, hh)) for t in (Tm - 2 * hh, Tm, Tm + 2 * hh))
            hn = max(h, 1e-12)
            model = err_model(m, rTol, soft, v, emin)
            base = TOL_SAFETY * model
            spl = (5 / 384) * hn ** 4
            tolx = base + TOL_SAFETY * spl * d4x
            d = float(min(np.linalg.norm(x - exact), np.linalg.norm(x + exact)
                          if m.nf == 2 else math.inf))
            worst["interp"] = max(worst.get("interp", 0.0), d / (model + spl * d4x))
            if d > tolx:
                report(ikey,
                       "interpolated fields at T=%.10g are %s, closed form %s: error %.3g > "
                       "%.3g" % (Tm, x.tolist(), exact.tolist(), d, tolx),
                       dict(T=float(Tm), err=d, noise=fd_noise(v, emin),
                            size=float(np.linalg.norm(exact)),
                            nomove=nomove or (kink and abs(Tm - cfg["Tstart"]) <= 3 * dT)))
            vex = m.V(exact, Tm)
            # V is stationary at the minimum: error quadratic in the field error
            modelv = max(1e-9, rTol) * abs(vex) + 10 * max(emin, 0.02 * Ts ** 2) * model ** 2 \
                + spl * d4v
            tolv = TOL_SAFETY * modelv
            worst["interpv"] = max(worst.get("interpv", 0.0), abs(v - vex) / modelv)
            if abs(v - vex) > tolv:
                report(ikey if dup else "interpolation-error-veff",
                       "interpolated free energy at T=%.10g is %.15g, closed form %.15g "
                       "(tolerance %.3g)%s" % (Tm, v, vex, tolv, "; the table has two nodes "
                                               "%.3g apart" % float(np.min(np.diff(T)))
                                               if dup else ""), dict(T=float(Tm)))
        # outside the reported range the object must refuse
        for Tout in (mn[0] - 3 * dT, mx[0] + 3 * dT):
            n += 1
            try:
                fe(float(Tout))
                if not (T.min() <= Tout <= T.max()):
                    report("evaluates-outside-table",
                           "FreeEnergy(%.8g) returns a value outside its table [%.8g, %.8g]"
                           % (Tout, T.min(), T.max()), dict(T=float(Tout)))
            except Exception:
                pass
    return n, worst


class CaseTimeout(Exception):
    pass


class time_limit:
    """the tracer's loops are Python loops: a signal exception interrupts a trace that does not
    terminate.  The budget is CPU time of this process (ITIMER_PROF), so a loaded machine does
    not turn a slow case into a failure (normal traces need 0.05 - 6 s of CPU)."""

    def __init__(self, seconds):
        self.seconds = seconds

    def __enter__(self):
        import signal

        def handler(signum, frame):
            raise CaseTimeout()
        self.old = signal.signal(signal.SIGPROF, handler)
        signal.setitimer(signal.ITIMER_PROF, self.seconds)

    def __exit__(self, *a):
        import signal
        signal.setitimer(signal.ITIMER_PROF, 0)
        signal.signal(signal.SIGPROF, self.old)
        return False


LIMIT = 40.0          # CPU seconds per trace


def _d4(f, t, h):
    """fourth derivative by central differences"""
    return (f(t - 2 * h) - 4 * f(t - h) + 6 * f(t) - 4 * f(t + h) + f(t + 2 * h)) / h ** 4


# Error model of the position of a tabulated minimum (absolute, in field units), the same in
# every unit system:
#   tracer tolerance  (30 rTol + 1e-6) * field scale   RK45 rtol/atol and the acceptance tests
#                                                      accumulated over the sweep; measured on
#                                                      the unchanged tree: 34..50 rTol for
#                                                      rTol >= 1e-6, floor 1.2e-6 at rTol 1e-8
#   x softness        curvature scale / smallest eigenvalue (errors grow ~1/H near a spinodal)
# No allowance for "minimiser noise": a minimiser that cannot resolve the minimum is a defect
# (family `perturbed guess`), not a tolerance.
# TOL_SAFETY = 3 x the worst observed error/model on the unchanged tree (HEAD 03e0115): 2.7 for
# the VERIF_SEED=6 case (quartic1, unit 1e-3, paranoid off, rTol 1e-8: RK45's accumulated
# error, the re-minimisation being a no-op in small units), <= 1.7 over seeds 1..8 x 3 unit
# systems x 4 tolerances.  Every run records its own worst ratios ("worst_error_over_model").
TOL_SAFETY = 8.0
# negative exact eigenvalue at an accepted point: worst observed 2.12 x 1e-7 T^2 (thorough tier)
EIG_SAFETY = 7.0


def err_model(m, rTol, soft, v, emin):
    return (30 * rTol + 1e-6) * m.fscale * soft


def note_worst(ctx, worst, cfg=None):
    cov = getattr(ctx, "cov", None)
    if cov is None or not worst:
        return
    big = {k: round(float(v), 2) for k, v in worst.items()
           if k != "eig" and float(v) > 0.4 * TOL_SAFETY}
    if big and cfg is not None and hasattr(ctx, "log"):
        ctx.log("close to tolerance (error/model, tolerance at %g):" % TOL_SAFETY, big,
                json.dumps(cfg, sort_keys=True))
    w = cov.setdefault("worst_error_over_model", {})
    for k, v in worst.items():
        w[k] = max(float(w.get(k, 0.0)), float(v))


def make_reporter(fails):
    def report(key, what, extra):
        fails.append((key, what, extra))

    def drop_near(lo, hi, w):
        fails[:] = [f for f in fails if not (
            f[0] in ("wrong-branch", "gradient-not-zero") and "T" in f[2] and
            (abs(f[2]["T"] - lo) < w or abs(f[2]["T"] - hi) < w))]
    report.drop_near = drop_near
    return report


def hop_bucket(m, cfg):
    return "%s/%s/paranoid=%s/unit=%g" % (cfg["model"]["model"], cfg.get("phase", "tc"),
                                          cfg["paranoid"], m.unit)


def hop_class(m, cfg):
    return "%s/paranoid=%s" % (cfg["model"]["model"], cfg["paranoid"])


def note_hop(ctx, m, cfg, worst):
    """hop rate per bucket goes into the evidence (how often the known event occurs); the rate
    per class (model family x paranoid) among the CANDIDATES - requests that reach past a
    spinodal of the traced phase - is bounded at the end of the run (hop_rate_bound)"""
    cov = getattr(ctx, "cov", None)
    hopped = bool(worst.pop("hopped", 0.0)) if worst else False
    if cov is None:
        return hopped
    r = cov.setdefault("hop_rate", {}).setdefault(hop_bucket(m, cfg), [0, 0])
    r[1] += 1
    r[0] += int(hopped)
    ph = m.phases.get(cfg.get("phase"))
    if ph is not None and (cfg["TMin"] < ph.Tlo or cfg["TMax"] > ph.Thi) and \
            not cfg.get("guess") and cfg.get("history", "single") == "single":
        c = cov.setdefault("hop_class", {}).setdefault(hop_class(m, cfg), [0, 0])
        c[1] += 1
        c[0] += int(hopped)
    return hopped


# Recorded rate of the known step-over-the-spinodal events among candidate requests, per class,
# on the unchanged tree (HEAD b7aa83d, 2400 random cases): see HOP_P0.  A run whose count is
# incompatible with TWICE that rate (binomial tail < 1e-3) reports hop-rate-above-recorded.
HOP_P0 = {"quartic1/paranoid=False": 0.094, "quartic1/paranoid=True": 0.117,
          "twofield/paranoid=False": 0.002, "twofield/paranoid=True": 0.002}


def binom_tail(n, h, p):
    """P(X >= h), X ~ Binomial(n, p)"""
    return sum(math.comb(n, k) * p ** k * (1 - p) ** (n - k) for k in range(h, n + 1))


def hop_rate_bound(ctx):
    for cls, (h, n) in sorted(ctx.cov.get("hop_class", {}).items()):
        p = min(0.95, 2 * HOP_P0.get(cls, 0.0) + 0.02)
        tail = binom_tail(n, h, p) if n else 1.0
        ctx.cov.setdefault("hop_class_tail", {})[cls] = [h, n, round(p, 3), float("%.3g" % tail)]
        if tail < 1e-3:
            ctx.fail_input("class %s: %d of %d candidate requests (past a spinodal) left their "
                           "branch; recorded rate %.3f, bound %.3f, binomial tail %.2g" % (
                               cls, h, n, HOP_P0.get(cls, 0.0), p, tail),
                           dict(kind="rate", cls=cls, hops=h, candidates=n),
                           key="hop-rate-above-recorded")


def fd_noise(v, emin):
    """how far scipy's BFGS can be off because of rounding in its forward-difference gradient
    (absolute step 1.49e-8): 2 eps_mach |V| / step / curvature"""
    return 2 * 2.2e-16 * abs(v) / 1.4901161193847656e-08 / max(emin, 1e-300)


def noop_displacement(m, cfg, T):
    """how far findLocalMinimum (tol = the tracer's) moves the EXACT minimum at temperature T"""
    from WallGo import Fields
    ph = m.phases[cfg["phase"]] if "phase" in cfg else None
    if ph is None or not (ph.Tlo < T < ph.Thi):
        return 0.0
    x0 = ph.loc(T)
    try:
        x, _ = m.pot.findLocalMinimum(Fields(x0), T, tol=cfg["rTol"])
        return float(np.linalg.norm(np.asarray(x, dtype=float).ravel() - x0))
    except Exception:
        return 0.0


def guess_growth(m, cfg, size):
    """|x(Tstart)| times how much an offset at the start can have grown along the branch
    (where the branch shrinks like sqrt(Tb^2 - T^2) an offset grows like |x0| / |x|)"""
    size0 = float(np.linalg.norm(m.phases[cfg["phase"]].loc(cfg["Tstart"])))
    return max(size, size0 * max(1.0, size0 / max(size, 1e-300)))


MINIMISER_KEYS = ("gradient-not-zero", "interpolation-error", "interpolation-error-veff",
                  "wrong-branch")


def classify(m, cfg, key, extra=None):
    """narrow class rules of the findings recorded for histories / perturbed guesses"""
    extra = extra or {}
    if cfg.get("guess") and m.unit < 100 and key in ("gradient-not-zero", "interpolation-error") \
            and "err" in extra and extra["err"] <= min(extra["noise"],
                                                       abs(cfg["guess"]) * extra["size"]):
        # recorded: from an APPROXIMATE guess the minimiser has to move, and its
        # forward-difference gradient (absolute step 1.49e-8, potential with an O(T^4)
        # offset) is only good to ~1e-5 relative: the error is inside that noise bound and
        # below the error of the guess
        return "minimiser-noise-limits-accuracy"
    if not cfg.get("guess") and m.unit >= 100 and cfg.get("paranoid") and \
            key in ("gradient-not-zero", "interpolation-error") and "err" in extra and \
            extra["err"] <= 1e-3 * extra["size"] and \
            extra["err"] <= 3 * noop_displacement(m, cfg, extra["T"]):
        # same defect with an exact guess: in large units the paranoid re-minimisation moves
        # the accurate ODE point by the rounding noise of its forward-difference gradient -
        # MEASURED: findLocalMinimum started at the exact minimum moves it by that much
        return "minimiser-noop-in-large-units"
    if cfg.get("guess") and m.unit >= 100 and "err" in extra and (
            (key == "gradient-not-zero" and
             extra["err"] <= 2.0 * abs(cfg["guess"]) * guess_growth(m, cfg, extra["size"])) or
            (key == "interpolation-error" and
             (extra["err"] <= 2.0 * abs(cfg["guess"]) * guess_growth(m, cfg, extra["size"])
              or extra.get("nomove")))):
        # recorded: in LARGE units scipy's absolute finite-difference step is rounding noise and
        # findLocalMinimum does not move.  A tabulated point keeps at most the error of the
        # guess (carried along the branch; 2: the Newton step over-estimates the distance);
        # a larger interpolation error counts only when it is MEASURED that the start node still
        # sits on / near the user's guess (a kink in the table, which the spline overshoots
        # within three steps of the start)
        return "minimiser-noop-in-large-units"
    near = cfg.get("Tstart") is not None and "TMin" in cfg and min(
        abs(cfg["Tstart"] - cfg["TMin"]), abs(cfg["TMax"] - cfg["Tstart"])) <= (
        max(1.0, cfg.get("firstStep") or 0.0) * cfg["dT"] * (1 + 1e-9))
    if key == "raises" and cfg.get("firstStep") is not None and near and \
            "first_step" in str(extra.get("exc", "")):
        # recorded: first_step = phaseTracerFirstStep*dT is not clamped to the distance to the
        # end of the sweep
        return "first-step-exceeds-distance-to-end"
    if key in ("end-flagged-wrongly", "range-not-covered") and near and \
            cfg.get("history", "single") == "single" and extra.get("end") == "lower":
        # recorded: a downward sweep of ONE node is dropped (`len(TList) > 1`), the table
        # starts at the start temperature and the lower end is flagged
        return "one-node-sweep-dropped"
    if cfg.get("firstStep") is not None and key == "raises":
        # documented as a fraction of dT, handed to scipy as an absolute step
        return "first-step-not-in-units-of-dT"
    if cfg.get("history") == "retrace" and key == "end-flagged-wrongly":
        return "stale-flag-after-retrace"
    return key


def emit(ctx, m, cfg, fails, kind, prefix=""):
    seen = set()
    noop = any(classify(m, cfg, k, e) == "minimiser-noop-in-large-units" for k, _, e in fails)
    for key, what, extra in fails:
        if noop and key == "interpolation-error-veff" and cfg.get("guess") and m.unit >= 100:
            # the free energy at a position that carries the (bounded) error of the guess
            key = "minimiser-noop-in-large-units"
        key = classify(m, cfg, key, extra)
        if key in seen:
            continue
        seen.add(key)
        ctx.fail_input("%s%s [%s]" % (prefix, what, json.dumps(cfg, sort_keys=True)),
                       dict(kind=kind, cfg=cfg, clause=key, extra=extra), key=key)


def judge_refusal(ctx, m, cfg, phase, TMin, TMax, report):
    """tracePhase refused with "Temperature range negative: decrease dT".  That is legitimate
    only when the part of the request on which the phase exists is not longer than the two
    2 dT margins (theorem tail_assert_is_margin_test); a valid request must not be refused."""
    ph = m.phases[phase]
    lo, hi = max(TMin, ph.Tlo, 0.0), min(TMax, ph.Thi)
    room = hi - lo
    cov = getattr(ctx, "cov", None)
    if cov is not None:
        r = cov.setdefault("refusals", {})
        b = hop_bucket(m, dict(cfg, phase=phase))
        r[b] = r.get(b, 0) + 1
    ctx.count("trace_refused_dT", cfg)
    if room > 4 * cfg["dT"] * (1 + 1e-9) + 2 * max(1e-4, 30 * cfg["rTol"]) * m.Tscale:
        report("refused-valid-request",
               "tracePhase refused (\"decrease dT\") a request on which phase %s exists over "
               "%.6g = %.1f dT (start %.8g, request [%.8g, %.8g], dT %.4g)" % (
                   phase, room, room / cfg["dT"], cfg["Tstart"], TMin, TMax, cfg["dT"]), {})


def guarded(report, what, fn):
    """run one call of the code under test; every exception is judged, none skipped"""
    try:
        with time_limit(LIMIT):
            return True, fn()
    except CaseTimeout:
        report("trace-does-not-terminate", "%s did not return within %g s of CPU time" % (
            what, LIMIT), {})
    except AssertionError as ex:
        if "decrease dT" in str(ex):
            return False, "refused"
        report("raises", "%s raised %r" % (what, ex), {})
    except np.linalg.LinAlgError as ex:
        report("raises-linalgerror-at-spinodal", "%s raised %r instead of stopping at the "
               "spinodal" % (what, ex), {})
    except Exception as ex:
        report("raises", "%s raised %r" % (what, ex), dict(exc=repr(ex)))
    return False, None


def run_trace_case(ctx, cfg, tag):
    """cfg: model description + phase, Tstart, TMin, TMax, dT, rTol, paranoid [, guess]"""
    m = build_model(cfg["model"])
    fails = []
    report = make_reporter(fails)
    ok, fe = guarded(report, "tracePhase", lambda: trace(
        m, cfg["phase"], cfg["Tstart"], cfg["TMin"], cfg["TMax"], cfg["dT"], cfg["rTol"],
        cfg["paranoid"], guess=cfg.get("guess", 0.0), defaults=cfg.get("defaults", False),
        firstStep=cfg.get("firstStep")))
    if not ok and fe == "refused":
        judge_refusal(ctx, m, cfg, cfg["phase"], cfg["TMin"], cfg["TMax"], report)
    worst = {}
    if ok:
        n, worst = check_table(m, cfg["phase"], fe, cfg, report)
        hop_ = note_hop(ctx, m, cfg, worst)
        if not cfg.get("guess") and not hop_:     # (other error regimes)
            note_worst(ctx, worst, cfg)
        for _ in range(n):
            ctx.count("direct_" + tag)
    ph = m.phases[cfg["phase"]]
    past = ("below" if cfg["TMin"] < ph.Tlo else "") + ("above" if cfg["TMax"] > ph.Thi
                                                        else "")
    ctx.count("trace_" + tag, cfg, bucket="%s/%s/paranoid=%s/past=%s" % (
        cfg["model"]["model"], cfg["phase"], cfg["paranoid"], past or "none"))
    emit(ctx, m, cfg, fails, "trace")
    return worst


def run_history_case(ctx, cfg):
    """Several operations on ONE FreeEnergy object, then the property on its final state.
    cfg["ops"]: ["trace", TMin, TMax] | ["eval", lo, hi, n] (n direct evaluations, not
    interpolated, in one array call)."""
    from WallGo import Fields
    from WallGo.freeEnergy import FreeEnergy
    m = build_model(cfg["model"])
    ph = m.phases[cfg["phase"]]
    fails = []
    report = make_reporter(fails)
    fe = FreeEnergy(m.pot, cfg["Tstart"], Fields(ph.loc(cfg["Tstart"])))
    req, ntrace, evald, extended = None, 0, False, False
    for op in cfg["ops"]:
        if op[0] == "trace":
            prev = (float(fe.minPossibleTemperature[0]), float(fe.maxPossibleTemperature[0]))
            ok, r = guarded(report, "tracePhase(%g, %g)" % (op[1], op[2]),
                            lambda: fe.tracePhase(op[1], op[2], cfg["dT"], rTol=cfg["rTol"],
                                                  paranoid=cfg["paranoid"]))
            if not ok:
                if r == "refused":
                    judge_refusal(ctx, m, cfg, cfg["phase"], max(prev[0], op[1]),
                                  min(prev[1], op[2]), report)
                break
            # what this call was asked for, after the documented clamp by the previous range
            req = (min(max(prev[0], op[1]), cfg["Tstart"]),
                   max(min(prev[1], op[2]), cfg["Tstart"]))
            ureq = (op[1], op[2])
            ntrace += 1
            if ntrace == 1:
                # the first call is a single trace like any other: judge it as such, and if
                # its table already left the branch the later operations only inherit that
                sub1 = dict(cfg, TMin=req[0], TMax=req[1], history="single")
                n1, w1 = check_table(m, cfg["phase"], fe, sub1, report)
                for _ in range(n1):
                    ctx.count("direct_history")
                if note_hop(ctx, m, sub1, w1):
                    ctx.count("history_case", cfg, bucket="%s/first-trace-left-branch" %
                              cfg["model"]["model"])
                    emit(ctx, m, sub1, fails, "history")
                    return
                if fails:
                    emit(ctx, m, sub1, fails, "history")
                    return
        else:
            before = np.asarray(fe._interpolationPoints, dtype=float).copy()
            ok, r = guarded(report, "FreeEnergy(linspace(%g, %g, %d), False)" % tuple(op[1:]),
                            lambda: fe(np.linspace(op[1], op[2], int(op[3])), False))
            if not ok:
                break
            evald = True
            after = np.asarray(fe._interpolationPoints, dtype=float)
            ctx.count("direct_history")
            if len(after) != len(before) or not np.array_equal(after, before):
                new = after[(after < before.min()) | (after > before.max())]
                if len(new):
                    extended = True
                    probe = ""
                    for Tp in (ph.Thi + 0.02 * m.Tscale, ph.Tlo - 0.02 * m.Tscale):
                        if after.min() <= Tp <= after.max() and not (ph.Tlo < Tp < ph.Thi):
                            try:
                                rr = fe(float(Tp))
                                probe = "; FreeEnergy(%.8g) now returns fields %s although the " \
                                        "phase does not exist there" % (Tp, np.asarray(
                                            rr.fieldsAtMinimum).ravel().tolist())
                            except Exception:
                                pass
                    report("direct-evaluation-extends-table",
                           "after %d direct evaluations on [%g, %g] the traced table [%.8g, "
                           "%.8g] has become [%.8g, %.8g] (%d nodes added outside it by "
                           "untracked minimisation); min/maxPossibleTemperature still %r, %r"
                           % (op[3], op[1], op[2], before.min(), before.max(), after.min(),
                              after.max(), len(new), fe.minPossibleTemperature,
                              fe.maxPossibleTemperature) + probe, {})
    # (after an untracked extension the table is no longer the tracer's: one event, one key)
    if req is not None and fe.hasInterpolation() and not extended:
        sub = dict(cfg, TMin=req[0], TMax=req[1], TMinUser=ureq[0], TMaxUser=ureq[1],
                   history="evals" if evald else ("retrace" if ntrace > 1 else "single"))
        n, worst = check_table(m, cfg["phase"], fe, sub, report)
        worst.pop("hopped", None)
        if not fails:
            note_worst(ctx, worst)
        for _ in range(n):
            ctx.count("direct_history")
        cfg = dict(cfg, history=sub["history"])
    ctx.count("history_case", cfg, bucket="%s/%s" % (cfg["model"]["model"],
                                                    "+".join(o[0] for o in cfg["ops"])))
    emit(ctx, m, cfg, fails, "history")


# =====================================================================================
# configurations
# =====================================================================================

def q1_cfgs(rng, count, units=(1.0,)):
    out = []
    for _ in range(count):
        unit = rng.choice(units)
        D = rng.choice([0.15, 0.2, 0.3])
        E = rng.choice([0.03, 0.05])
        lam = rng.choice([0.08, 0.1, 0.15])
        T0 = rng.choice([60.0, 80.0, 100.0])
        md = dict(model="quartic1", D=D, E=E, lam=lam, T0=T0, g=100.0, unit=unit)
        ex = wgmodels.quartic1_exact(D, E, lam, T0 * unit, 100.0)
        T1, Tc = ex["Tspin_broken"], ex["Tc"]
        phase = rng.choice(["broken", "sym"])
        if phase == "broken":
            Tstart = rng.choice([0.85 * T0 * unit, 0.5 * (T0 * unit + Tc), Tc,
                                 T1 - 0.2 * (T1 - Tc)])
            TMin = rng.choice([0.5, 0.8]) * T0 * unit
            TMax = rng.choice([T1 + 0.3 * T0 * unit, T1 + 0.02 * T0 * unit,
                               Tstart + 0.5 * (T1 - Tstart)])
        else:
            Tstart = rng.choice([Tc, T1, 1.2 * T1])
            TMin = rng.choice([0.7 * T0 * unit, T0 * unit - 0.02 * T0 * unit,
                               T0 * unit + 0.5 * (Tstart - T0 * unit)])
            TMax = rng.choice([1.3, 2.0]) * T1
        out.append(dict(model=md, phase=phase, Tstart=Tstart, TMin=TMin, TMax=TMax,
                        dT=rng.choice([0.001, 0.004, 0.01, 0.03]) * T0 * unit,
                        rTol=rng.choice([1e-4, 1e-5, 1e-6, 1e-8]),
                        paranoid=rng.choice([True, False])))
    return out


def tf_cfgs(rng, count, units=(1.0,)):
    out = []
    for _ in range(count):
        unit = rng.choice(units)
        theta = rng.choice([0.0, 0.6, -1.0, 0.3, 2.2])
        md = dict(model="twofield", theta=theta, unit=unit)
        m = TwoField(theta=theta, unit=unit)
        phase = rng.choice(["B", "A"])
        if phase == "B":       # exists on (TsB, Tb); keep away from the 2nd-order end Tb
            Tstart = rng.choice([0.6, 0.8]) * (m.Tb - m.TsB) * 1.0 + m.TsB * 1.0
            Tstart = m.TsB + rng.choice([0.3, 0.6]) * (m.Tb - m.TsB)
            TMin = rng.choice([m.TsB - 0.3 * m.Ta, m.TsB - 0.03 * m.Ta,
                               m.TsB + 0.5 * (Tstart - m.TsB)])
            TMax = Tstart + rng.choice([0.2, 0.5]) * (m.Tb - Tstart)
        else:                  # exists on (0, TsA)
            Tstart = rng.choice([0.5, 0.8]) * m.TsA
            TMin = rng.choice([0.3, 0.45]) * m.TsA
            TMax = rng.choice([m.TsA + 0.2 * m.Ta, m.TsA + 0.02 * m.Ta,
                               Tstart + 0.5 * (m.TsA - Tstart)])
        out.append(dict(model=md, phase=phase, Tstart=Tstart, TMin=TMin, TMax=TMax,
                        dT=rng.choice([0.002, 0.004, 0.01]) * m.Ta,
                        rTol=rng.choice([1e-4, 1e-5, 1e-6, 1e-8]),
                        paranoid=rng.choice([True, False])))
    return out


# =====================================================================================
# critical temperature (phases traced on demand by findCriticalTemperature)
# =====================================================================================

def tc_cfgs(rng, count, units=(1.0,)):
    out = []
    for _ in range(count):
        unit = rng.choice(units)
        if rng.random() < 0.5:
            D = rng.choice([0.15, 0.2, 0.3])
            E = rng.choice([0.03, 0.05])
            lam = rng.choice([0.08, 0.1])
            T0 = rng.choice([60.0, 80.0])
            md = dict(model="quartic1", D=D, E=E, lam=lam, T0=T0, g=100.0, unit=unit)
            ex = wgmodels.quartic1_exact(D, E, lam, T0 * unit, 100.0)
            lo, hi, Tc = T0 * unit, ex["Tspin_broken"], ex["Tc"]
        else:
            theta = rng.choice([0.0, 0.6, -1.0, 2.2])
            md = dict(model="twofield", theta=theta, unit=unit)
            m = TwoField(theta=theta, unit=unit)
            lo, hi, Tc = m.TsB, m.TsA, m.Tc
        Tn = lo + rng.choice([0.35, 0.5, 0.65]) * (hi - lo)
        past = rng.choice(["both", "none", "low", "high"])
        Wmin = lo - 0.25 * (hi - lo) if past in ("both", "low") else lo + 0.1 * (Tc - lo)
        Wmax = hi + 0.25 * (hi - lo) if past in ("both", "high") else hi - 0.1 * (hi - Tc)
        out.append(dict(model=md, Tn=Tn, Wmin=Wmin, Wmax=Wmax,
                        dT=rng.choice([0.002, 0.005, 0.01]) * (hi - lo) * 3,
                        rTol=rng.choice([1e-5, 1e-6, 1e-8]),
                        paranoid=rng.choice([True, False]),
                        pretraced=rng.random() < 0.3))
    return out


def run_tc_case(ctx, cfg):
    from WallGo import Fields, Thermodynamics
    m = build_model(cfg["model"])
    low, high = m.phases[m.low], m.phases[m.high]
    fails = []
    report = make_reporter(fails)
    th = Thermodynamics(m.pot, cfg["Tn"], Fields(low.loc(cfg["Tn"])),
                        Fields(high.loc(cfg["Tn"])))
    if cfg.get("fresh"):
        pass                 # untouched object: window [0, inf]
    elif cfg.get("pretraced"):
        # the usual path (WallGoManager): both phases traced beforehand over the window
        for fe in (th.freeEnergyHigh, th.freeEnergyLow):
            ok, _ = guarded(report, "tracePhase", lambda: fe.tracePhase(
                cfg["Wmin"], cfg["Wmax"], cfg["dT"], rTol=cfg["rTol"],
                paranoid=cfg["paranoid"]))
    else:
        for fe in (th.freeEnergyHigh, th.freeEnergyLow):
            fe.minPossibleTemperature[0] = cfg["Wmin"]
            fe.maxPossibleTemperature[0] = cfg["Wmax"]
    Tc = None
    import scipy.optimize
    orig = scipy.optimize.root_scalar
    seen_br = []

    def spy(f, *a, **k):
        if "bracket" in k:
            lo, hi = k["bracket"]
            seen_br.append((float(lo), float(hi), float(f(lo)), float(f(hi))))
        return orig(f, *a, **k)
    scipy.optimize.root_scalar = spy
    try:
        with time_limit(15.0 if cfg.get("fresh") else 2 * LIMIT):
            try:
                Tc = th.findCriticalTemperature(cfg["dT"], cfg["rTol"], cfg["paranoid"])
            finally:
                scipy.optimize.root_scalar = orig
    except CaseTimeout:
        if cfg.get("fresh"):
            report("tc-on-fresh-object-never-returns", "findCriticalTemperature on a fresh "
                   "Thermodynamics object (window [0, inf]) did not return within 15 s of CPU "
                   "time: tracePhase integrates towards TMax = inf", {})
            emit(ctx, m, cfg, fails, "tc", prefix="findCriticalTemperature: ")
            return
        report("trace-does-not-terminate", "findCriticalTemperature did not return within "
               "%g s of CPU time" % (2 * LIMIT), {})
    except AssertionError as ex:
        if "decrease dT" in str(ex):
            ctx.count("tc_refused_dT", cfg)
            for name in (m.high, m.low):
                judge_refusal(ctx, m, dict(cfg, Tstart=cfg["Tn"]), name, cfg["Wmin"],
                              cfg["Wmax"], report)
        else:
            report("tc-raises", "findCriticalTemperature raised %r" % ex, {})
    except np.linalg.LinAlgError as ex:
        report("raises-linalgerror-at-spinodal", "findCriticalTemperature raised %r instead of "
               "stopping the trace at the spinodal" % ex, {})
    except Exception as ex:
        if cfg.get("fresh") and type(ex).__name__ == "WallGoError":
            ctx.count("tc_fresh_refused_loudly", cfg)     # a loud refusal is acceptable
            return
        report("tc-raises", "findCriticalTemperature raised %r" % ex, {})
    if cfg.get("fresh"):
        # (no finite window to judge tables against; what matters is that the call came back)
        ctx.count("tc_fresh_returned", cfg)
        emit(ctx, m, cfg, fails, "tc", prefix="findCriticalTemperature: ")
        return
    for lo, hi, flo, fhi in seen_br:
        # conclusion of theorem tc_bracket_has_sign_change on the running code
        ctx.count("direct_tc_bracket")
        cmin = max(th.freeEnergyHigh.minPossibleTemperature[0],
                   th.freeEnergyLow.minPossibleTemperature[0])
        cmax = min(th.freeEnergyHigh.maxPossibleTemperature[0],
                   th.freeEnergyLow.maxPossibleTemperature[0])
        if not (np.sign(flo) != np.sign(fhi) and cmin < lo and hi <= cmax * (1 + 1e-12)
                and abs((hi - lo) - cfg["dT"]) <= 1e-9 * m.Tscale):
            report("tc-bracket", "bracket (%.12g, %.12g) given to brentq: f=%.6g, %.6g, "
                   "coexistence range (%.12g, %.12g), step %.6g" % (lo, hi, flo, fhi, cmin, cmax,
                                                                  cfg["dT"]), {})
    hopped = False
    for name, fe in ((m.high, th.freeEnergyHigh), (m.low, th.freeEnergyLow)):
        if not fe.hasInterpolation():
            continue
        sub = dict(cfg, phase=name, Tstart=cfg["Tn"], TMin=cfg["Wmin"], TMax=cfg["Wmax"])
        before = len(fails)
        n, w_ = check_table(m, name, fe, sub, report)
        hopped = note_hop(ctx, m, sub, w_) or hopped
        if not hopped:
            note_worst(ctx, w_, sub)
        for _ in range(n):
            ctx.count("direct_tc_tables")
    # Tc is judged also when a trace left its branch beyond a spinodal: the crossing lies
    # between the spinodals, where both tables are on their branches
    if Tc is not None:
        ctx.count("direct_tc")
        tol = (1e-6 + 100 * cfg["rTol"]) * m.Tc + 0.05 * cfg["dT"] * (cfg["dT"] / m.Tscale) ** 2
        known_hop = any(f[0] == "trace-hops-phase-at-spinodal" for f in fails)
        if not hopped:
            note_worst(ctx, dict(tc=abs(Tc - m.Tc) / tol))
        if abs(Tc - m.Tc) > tol:
            # after a hop of the recorded class both tables describe the SAME phase beyond the
            # spinodal, their difference is rounding noise and the downward search from TMax
            # stops at a noise sign change: a consequence of that finding, said once there
            report("trace-hops-phase-at-spinodal" if known_hop else "tc-wrong",
                   "critical temperature %.12g, closed form %.12g (tolerance %.3g)%s" % (
                       Tc, m.Tc, tol, "; consequence of a trace that hopped onto the other "
                       "phase beyond a spinodal" if known_hop else ""), dict(Tc=Tc))
        else:
            # orientation: the low-temperature phase is favoured below Tc
            d = 0.5 * min(m.Tc - max(th.freeEnergyHigh.minPossibleTemperature[0],
                                     th.freeEnergyLow.minPossibleTemperature[0]), 0.02 * m.Tc)
            if d > 0:
                fl = float(np.asarray(th.freeEnergyLow(Tc - d).veffValue).ravel()[0])
                fh = float(np.asarray(th.freeEnergyHigh(Tc - d).veffValue).ravel()[0])
                ctx.count("direct_tc")
                if not fl < fh:
                    report("tc-orientation", "below Tc=%.10g the low-temperature phase is not "
                           "favoured: F_low=%.15g, F_high=%.15g at T=%.10g" % (Tc, fl, fh,
                                                                             Tc - d), {})
    ctx.count("tc_case", cfg, bucket="%s/paranoid=%s" % (cfg["model"]["model"],
                                                         cfg["paranoid"]))
    emit(ctx, m, cfg, fails, "tc", prefix="findCriticalTemperature: ")


# =====================================================================================
# certified comparison of the proved closed forms with the harness oracle and the model
# =====================================================================================

def dec(x):
    """exact rational of a decimal literal such as 0.15 (what the Coq statement uses)"""
    return Fraction(repr(float(x)))


def oracle_file(rng, count):
    from WallGo import Fields
    goals, rows = [], []
    for _ in range(count):
        D = rng.choice([0.15, 0.2, 0.3])
        E = rng.choice([0.03, 0.05])
        lam = rng.choice([0.08, 0.1, 0.15])
        T0 = rng.choice([60.0, 80.0, 100.0])
        ex = wgmodels.quartic1_exact(D, E, lam, T0, 100.0)
        pot = wgmodels.quartic1(D=D, E=E, lam=lam, T0=T0, g=100.0)
        args = " ".join(pyrx.rlit(dec(v)) for v in (D, E, lam, T0))
        T = Fraction(int((T0 + rng.random() * 0.9 * (ex["Tspin_broken"] - T0)) * 64), 64)
        phi = Fraction(rng.randint(1, 200 * 16), 16)
        y_phi = ex["phi_broken"](float(T))
        y_v = float(np.asarray(pot.evaluate(Fields([float(phi)]), float(T))).ravel()[0])

        def goal(term, y, unfold, rel=1e-9):
            q = Fraction(y)
            tol = abs(q) * Fraction(rel) + Fraction(1, 10 ** 12)
            return "Goal Rabs (%s - %s) <= %s.\nProof. unfold %s. interval with (i_prec 90). " \
                   "Qed." % (term, pyrx.rlit(q), pyrx.rlit(tol), unfold)
        goals.append(goal("phi_b %s %s" % (args, pyrx.rlit(T)), y_phi, "phi_b, qdisc"))
        goals.append(goal("sqrt (T1sq %s)" % args, ex["Tspin_broken"], "T1sq"))
        goals.append(goal("sqrt (Tcsq %s)" % args, ex["Tc"], "Tcsq"))
        goals.append(goal("qV %s %s %s - 100 * PI ^ 2 / 90 * %s ^ 4" % (
            args, pyrx.rlit(phi), pyrx.rlit(T), pyrx.rlit(T)), y_v, "qV"))
        rows.append(dict(D=D, E=E, lam=lam, T0=T0, T=str(T), phi=str(phi), phi_b=y_phi,
                         Tspin=ex["Tspin_broken"], Tc=ex["Tc"], V=y_v))
    hdr = ("From Coq Require Import Reals Lra.\nFrom Interval Require Import Tactic.\n"
           "From WG Require Import Lib.PhaseTrace.\nLocal Open Scope R_scope.\n")
    return hdr + "\n".join(goals) + "\n", rows


BIG = Fraction(10) ** 40          # stands for np.inf in min(self.maxPossibleTemperature[0], TMax)


def book_goal(k, T, dT, TMinReq, TMaxReq, prior, after, T0):
    """Coq goal: the GENERATED clamp/tail model, evaluated on the table the implementation
    produced, gives exactly the range and flags the implementation reports."""
    L = [Fraction(float(t)) for t in T]
    M, N = min(L), max(L)
    q = pyrx.rlit
    a0 = Fraction(prior[0][0])
    b0 = BIG if math.isinf(prior[1][0]) else Fraction(prior[1][0])
    st0 = "(mk_ranges %s %s %s %s)" % (q(a0), str(prior[0][1]).lower(), q(b0),
                                      str(prior[1][1]).lower())
    want_min, want_max = M + 2 * Fraction(dT), N - 2 * Fraction(dT)
    lst = "[" + "; ".join(q(x) for x in L) + "]"
    goal = """Definition L%(k)d : list R := %(lst)s.
Goal let st' := after_trace L%(k)d %(dT)s %(tmin)s %(tmax)s %(t0)s %(st0)s in
  minT st' = %(wmin)s /\\ maxT st' = %(wmax)s /\\ minFlag st' = %(fa)s /\\ maxFlag st' = %(fb)s.
Proof.
  intros st'.
  assert (Lm : lmin L%(k)d = %(M)s).
  { apply lmin_is; [unfold L%(k)d; do %(iM)d right; left; reflexivity
                   |unfold L%(k)d; repeat (apply Forall_cons; [lra|]); apply Forall_nil]. }
  assert (LM : lmax L%(k)d = %(N)s).
  { apply lmax_is; [unfold L%(k)d; do %(iN)d right; left; reflexivity
                   |unfold L%(k)d; repeat (apply Forall_cons; [lra|]); apply Forall_nil]. }
  destruct (tail_values L%(k)d %(dT)s (clamp_TMin %(st0)s %(tmin)s %(t0)s) (clamp_TMax %(st0)s %(tmax)s %(t0)s)
              (keep_min %(st0)s %(tmin)s) (keep_max %(st0)s %(tmax)s) %(st0)s) as [A [B [C D]]].
  unfold st', after_trace. rewrite A, B, C, D, Lm, LM.
  unfold clamp_TMin, clamp_TMax, keep_min, keep_max. cbn [minT maxT minFlag maxFlag andb].
  assert (RT : forall x y, x < y -> Rltb x y = true) by (intros; apply Rltb_true; assumption).
  assert (RF : forall x y, y <= x -> Rltb x y = false) by (intros; apply Rltb_false; assumption).
  assert (LT : forall x y, x <= y -> Rleb x y = true) by (intros; apply Rleb_true; assumption).
  assert (LF : forall x y, y < x -> Rleb x y = false) by (intros; apply Rleb_false; assumption).
  unfold Rmax, Rmin;
    repeat match goal with
      | |- context [Rle_dec ?x ?y] => destruct (Rle_dec x y)
      | H : context [Rle_dec ?x ?y] |- _ => destruct (Rle_dec x y)
      end;
    try lra; try (exfalso; lra);
    repeat match goal with
      | |- context [Rltb ?x ?y] => first [rewrite (RT x y) by lra | rewrite (RF x y) by lra]
      | |- context [Rleb ?x ?y] => first [rewrite (LT x y) by lra | rewrite (LF x y) by lra]
      end;
    cbn [orb andb]; repeat split; try reflexivity; lra.
Qed.
"""
    cmin = min(max(a0, Fraction(TMinReq)), Fraction(T0))
    cmax = max(min(b0, Fraction(TMaxReq)), Fraction(T0))
    fa = (cmin < M) or (bool(prior[0][1]) and Fraction(TMinReq) <= a0)
    fb = (N < cmax) or (bool(prior[1][1]) and b0 <= Fraction(TMaxReq))
    return goal % dict(
        k=k, lst=lst, dT=q(Fraction(dT)), tmin=q(Fraction(TMinReq)), tmax=q(Fraction(TMaxReq)),
        st0=st0, t0=q(Fraction(T0)), wmin=q(want_min), wmax=q(want_max), fa=str(bool(after[0][1])).lower(),
        fb=str(bool(after[1][1])).lower(), M=q(M), N=q(N), iM=L.index(M), iN=L.index(N)), \
        (float(want_min), float(want_max), fa, fb)


def book_file(ctx, rng, count):
    """real traces (short tables) -> one Coq file; also a second call on the same object
    (history: the clamps use the previous range, flags are never cleared)"""
    from WallGo import Fields
    from WallGo.freeEnergy import FreeEnergy
    goals, k = [], 0
    tries = 0
    while k < count and tries < 10 * count:
        tries += 1
        cfg = (q1_cfgs if rng.random() < 0.5 else tf_cfgs)(rng, 1)[0]
        m = build_model(cfg["model"])
        cfg["dT"] = 0.03 * m.Tscale
        ph = m.phases[cfg["phase"]]
        fe = FreeEnergy(m.pot, cfg["Tstart"], Fields(ph.loc(cfg["Tstart"])))
        calls = [(cfg["TMin"], cfg["TMax"])]
        r2 = rng.random()
        if r2 < 0.35:     # second call with a wider request on the traced object
            calls.append((cfg["TMin"] - 0.1 * m.Tscale, cfg["TMax"] + 0.1 * m.Tscale))
        elif r2 < 0.7:    # ... or a narrower one around the start
            calls.append((cfg["Tstart"] - 0.3 * (cfg["Tstart"] - cfg["TMin"]),
                          cfg["Tstart"] + 0.3 * (cfg["TMax"] - cfg["Tstart"])))
        for TMinReq, TMaxReq in calls:
            prior = ([float(fe.minPossibleTemperature[0]), bool(fe.minPossibleTemperature[1])],
                     [float(fe.maxPossibleTemperature[0]), bool(fe.maxPossibleTemperature[1])])
            try:
                with time_limit(LIMIT):
                    fe.tracePhase(TMinReq, TMaxReq, cfg["dT"], rTol=cfg["rTol"],
                                  paranoid=cfg["paranoid"])
            except Exception:
                break
            T = np.asarray(fe._interpolationPoints, dtype=float)
            if len(T) > 90:
                break
            after = ([float(fe.minPossibleTemperature[0]), bool(fe.minPossibleTemperature[1])],
                     [float(fe.maxPossibleTemperature[0]), bool(fe.maxPossibleTemperature[1])])
            g, (wmin, wmax, fa, fb) = book_goal(k, T, cfg["dT"], TMinReq, TMaxReq, prior, after,
                                                cfg["Tstart"])
            ctx.count("bookkeeping_model_vs_impl", dict(cfg=cfg, req=[TMinReq, TMaxReq]),
                      bucket="call%d/flags=%s%s" % (len(goals) and calls.index(
                          (TMinReq, TMaxReq)), int(after[0][1]), int(after[1][1])))
            # the floating-point side: the reported numbers are the model's up to rounding
            if abs(after[0][0] - wmin) > 1e-12 * abs(wmin) or \
                    abs(after[1][0] - wmax) > 1e-12 * abs(wmax):
                ctx.fail_input("reported range [%r, %r] differs from table -/+ 2 dT = [%r, %r]"
                               % (after[0][0], after[1][0], wmin, wmax),
                               dict(kind="trace", cfg=cfg), key="margin")
            goals.append(g)
            k += 1
    hdr = ("From Coq Require Import Reals Lra List Bool.\n"
           "From WG Require Import Lib.PhaseTrace Model.TraceBook.\n"
           "From GenC11 Require Import TraceGen Props_C11.\nImport ListNotations.\n"
           "Local Open Scope R_scope.\n")
    return hdr + "\n".join(goals)


# =====================================================================================

# inputs that exposed defects which are now fixed in the code base (must stay quiet)
DIRECTED = [
    # 2ac5871: two table nodes ~1e-16 apart at the lower end, spline oscillation (1.3e-6 rel.)
    {"model": {"model": "twofield", "theta": 0.3, "unit": 0.001}, "phase": "B",
     "Tstart": 0.10400000000000001, "TMin": 0.092, "TMax": 0.11520000000000001,
     "dT": 0.00048, "rTol": 1e-06, "paranoid": False},
    # 03e0115: exactly singular finite-difference Hessian at the spinodal -> LinAlgError
    {"model": {"model": "quartic1", "D": 0.2, "E": 0.03, "lam": 0.1, "T0": 100.0, "g": 100.0,
               "unit": 1000.0}, "phase": "broken", "Tstart": 85000.0, "TMin": 50000.0,
     "TMax": 104631.60115815708, "dT": 1000.0, "rTol": 1e-08, "paranoid": False},
]


# production-size sweep: range/dT of several thousand (the manager's dT = scale * tol^0.25), a
# phase that exists on the whole range must be covered to its end and not flagged
DIRECTED_FINE = [
    {"model": {"model": "quartic1", "D": 0.2, "E": 0.05, "lam": 0.1, "T0": 80.0, "g": 100.0,
               "unit": 1.0}, "phase": "sym", "Tstart": 100.0, "TMin": 90.0, "TMax": 172.0,
     "dT": 0.016, "rTol": 1e-06, "paranoid": False},
]
# a paranoid two-field trace past a spinodal (second-order type: the re-minimiser stays on the
# saddle, the tracer must stop and flag) - any hop here is NOT the recorded finding
DIRECTED += [
    {"model": {"model": "twofield", "theta": -1.0, "unit": 1.0}, "phase": "A",
     "Tstart": 55.37749241945383, "TMin": 33.2264954516723, "TMax": 134.75498483890766,
     "dT": 0.24, "rTol": 1e-06, "paranoid": True},
]


# histories that exposed defects which are now fixed (c55f8fe stale end-of-phase flag after a
# narrower re-trace; 03a9a43 direct evaluations extended a traced table): must stay quiet
DIRECTED_HISTORY = [
    # 78524e4: the 2 dT margin of the first trace excluded the start temperature from the
    # clamped window of an identical second call (ValueError from the spline)
    {"model": {"model": "quartic1", "D": 0.2, "E": 0.05, "lam": 0.1, "T0": 80.0, "g": 100.0,
               "unit": 1.0}, "phase": "sym", "Tstart": 83.0,
     "ops": [["trace", 82.8, 90.0], ["trace", 82.8, 90.0]], "dT": 0.25, "rTol": 1e-06,
     "paranoid": True},
    {
        "model": {
            "model": "quartic1",
            "D": 0.2,
            "E": 0.05,
            "lam": 0.1,
            "T0": 80.0,
            "g": 100.0,
            "unit": 1.0
        },
        "phase": "broken",
        "Tstart": 70.0,
        "ops": [
            [
                "trace",
                60.0,
                95.0
            ],
            [
                "trace",
                65.0,
                80.0
            ]
        ],
        "dT": 0.5,
        "rTol": 1e-08,
        "paranoid": True
    },
    {
        "model": {
            "model": "quartic1",
            "D": 0.2,
            "E": 0.05,
            "lam": 0.1,
            "T0": 80.0,
            "g": 100.0,
            "unit": 1.0
        },
        "phase": "broken",
        "Tstart": 70.0,
        "ops": [
            [
                "trace",
                60.0,
                95.0
            ],
            [
                "eval",
                40.0,
                95.0,
                500
            ]
        ],
        "dT": 0.5,
        "rTol": 1e-08,
        "paranoid": True
    }
]


def history_cfgs(rng, count, units=(1.0,)):
    """several operations on one FreeEnergy object"""
    out = []
    for _ in range(count):
        unit = rng.choice(units)
        D, E, lam, T0 = rng.choice([0.15, 0.2, 0.3]), rng.choice([0.03, 0.05]), \
            rng.choice([0.08, 0.1]), rng.choice([60.0, 80.0])
        md = dict(model="quartic1", D=D, E=E, lam=lam, T0=T0, g=100.0, unit=unit)
        ex = wgmodels.quartic1_exact(D, E, lam, T0 * unit, 100.0)
        T1 = ex["Tspin_broken"]
        Tstart = 0.85 * T0 * unit
        lo, hi = 0.7 * T0 * unit, T1 + 0.1 * T0 * unit          # past the upper spinodal
        kind = rng.choice(["narrower", "narrower", "evals", "same"])
        if kind == "narrower":      # then a request that stays inside the phase
            ops = [["trace", lo, hi], ["trace", 0.75 * T0 * unit, 0.5 * (Tstart + T1)]]
        elif kind == "same":
            ops = [["trace", lo, hi], ["trace", lo, hi]]
        else:                       # direct evaluations straddling the table
            ops = [["trace", lo, hi], ["eval", 0.5 * T0 * unit, hi, 500]]
        out.append(dict(model=md, phase="broken", Tstart=Tstart, ops=ops,
                        dT=0.006 * T0 * unit, rTol=rng.choice([1e-6, 1e-8]),
                        paranoid=rng.choice([True, False])))
    return out


def path_cfgs(rng, count, units=(1.0,)):
    """other ways into the same code: all defaults, phaseTracerFirstStep (the manager passes
    it), ranges inside the phase"""
    out = []
    for cfg in q1_cfgs(rng, count, units) + tf_cfgs(rng, count, units):
        m = build_model(cfg["model"])
        ph = m.phases[cfg["phase"]]
        lo = max(ph.Tlo, 0.4 * m.Tscale)
        hi = ph.Thi if math.isfinite(ph.Thi) else 2.0 * m.Tscale
        cfg["Tstart"] = lo + 0.5 * (hi - lo)
        cfg["TMin"], cfg["TMax"] = lo + 0.25 * (hi - lo), lo + 0.75 * (hi - lo)
        if rng.random() < 0.5:
            cfg.update(defaults=True, rTol=1e-6, paranoid=True)     # the documented defaults
        else:
            cfg["firstStep"] = rng.choice([0.5, 0.1, 0.01])
        out.append(cfg)
    return out


# cbd1b7a: phaseTracerFirstStep was handed to scipy as an absolute step (ValueError in small
# units) although documented in units of dT
DIRECTED += [{"model": {"model": "quartic1", "D": 0.2, "E": 0.05, "lam": 0.1, "T0": 80.0, "g": 100.0, "unit": 0.001}, "phase": "broken", "Tstart": 0.07, "TMin": 0.06, "TMax": 0.08, "dT": 0.0005, "rTol": 1e-06, "paranoid": True, "firstStep": 0.5}]

# f522542 a one-node downward sweep was dropped and the lower end flagged; 393a5e7 first_step
# longer than the distance to the end raised in scipy (68788c6: DIRECTED_TC_FRESH)
DIRECTED += [{"model": {"model": "quartic1", "D": 0.2, "E": 0.05, "lam": 0.1, "T0": 80.0, "g": 100.0, "unit": 1.0}, "phase": "broken", "Tstart": 70.001, "TMin": 70.0, "TMax": 80.0, "dT": 0.5, "rTol": 1e-06, "paranoid": True, "nearEnd": 0.002}, {"model": {"model": "quartic1", "D": 0.2, "E": 0.05, "lam": 0.1, "T0": 80.0, "g": 100.0, "unit": 1.0}, "phase": "broken", "Tstart": 70.3, "TMin": 70.0, "TMax": 80.0, "dT": 0.5, "rTol": 1e-06, "paranoid": True, "firstStep": 1.0, "nearEnd": 0.6}]

# boundary values of the arguments (all fine on the unchanged tree); a start temperature
# OUTSIDE [TMin, TMax] is refused loudly (ValueError from the spline) and is not generated
_Q = {"model": "quartic1", "D": 0.2, "E": 0.05, "lam": 0.1, "T0": 80.0, "g": 100.0, "unit": 1.0}
DIRECTED += [
    dict(model=_Q, phase="broken", Tstart=70.0, TMin=70.0, TMax=80.0, dT=0.5, rTol=1e-6,
         paranoid=True),
    dict(model=_Q, phase="broken", Tstart=80.0, TMin=70.0, TMax=80.0, dT=0.5, rTol=1e-6,
         paranoid=False),
    dict(model=_Q, phase="broken", Tstart=70.0, TMin=0.0, TMax=80.0, dT=0.5, rTol=1e-6,
         paranoid=True),
    dict(model=_Q, phase="broken", Tstart=70, TMin=60, TMax=80, dT=1, rTol=1e-6,
         paranoid=True),
    # tight tolerances next to a spinodal, ranges that stay inside the phase: the table must
    # reach the request and must not be flagged (the reported range is the table -/+ 2 dT)
    dict(model={"model": "quartic1", "D": 0.2, "E": 0.03, "lam": 0.08, "T0": 80.0, "g": 100.0,
                "unit": 1.0}, phase="broken", Tstart=80.7665, TMin=72.0,
         TMax=0.999 * 82.65809276925162, dT=0.004 * 80.7665, rTol=1e-12, paranoid=False),
    dict(model={"model": "quartic1", "D": 0.3, "E": 0.03, "lam": 0.08, "T0": 80.0, "g": 100.0,
                "unit": 1.0}, phase="sym", Tstart=80.862, TMin=80.04, TMax=88.0,
         dT=0.004 * 80.862, rTol=1e-8, paranoid=True),
]


# requests past a spinodal on which the recorded tree stops at the spinodal and flags the end:
# a hop on one of THESE inputs is not the recorded finding (key hop-where-recorded-tree-stops)
DIRECTED_NOHOP = [
 dict(model=_Q,phase="broken",Tstart=70.0,TMin=60.0,TMax=95.0,dT=0.5,rTol=1e-8,paranoid=True),
 dict(model=_Q,phase="broken",Tstart=85.0,TMin=60.0,TMax=120.0,dT=0.3,rTol=1e-8,paranoid=True),
 dict(model=_Q,phase="broken",Tstart=85.0,TMin=60.0,TMax=120.0,dT=0.05,rTol=1e-8,paranoid=False),
 dict(model=_Q,phase="sym",Tstart=90.0,TMin=70.0,TMax=120.0,dT=0.3,rTol=1e-8,paranoid=True),
 dict(model=_Q,phase="sym",Tstart=90.0,TMin=70.0,TMax=120.0,dT=0.05,rTol=1e-8,paranoid=False),
 dict(model=dict(_Q, unit=1000.0),phase="broken",Tstart=85000.0,TMin=60000.0,TMax=120000.0,dT=300.0,rTol=1e-8,paranoid=False),
 dict(model={"model":"twofield","theta":0.6,"unit":1.0},phase="B",Tstart=104.0,TMin=60.0,TMax=132.0,dT=0.48,rTol=1e-6,paranoid=True),
 dict(model={"model":"twofield","theta":-1.0,"unit":1.0},phase="A",Tstart=55.37749241945383,TMin=33.2264954516723,TMax=134.75498483890766,dT=0.24,rTol=1e-6,paranoid=True),
 dict(model={"model":"twofield","theta":0.3,"unit":1.0},phase="B",Tstart=104.0,TMin=60.0,TMax=132.0,dT=0.24,rTol=1e-8,paranoid=False),
]


def near_end_cfgs(rng, count, units=(1.0,)):
    """start within a few solver steps of an end of the request (both ends, with and without
    phaseTracerFirstStep), range inside the phase"""
    out = []
    for cfg in q1_cfgs(rng, count, units) + tf_cfgs(rng, count, units):
        m = build_model(cfg["model"])
        ph = m.phases[cfg["phase"]]
        lo = max(ph.Tlo, 0.4 * m.Tscale)
        hi = ph.Thi if math.isfinite(ph.Thi) else 2.0 * m.Tscale
        cfg["TMin"], cfg["TMax"] = lo + 0.3 * (hi - lo), lo + 0.6 * (hi - lo)
        off = rng.choice([1e-3, 0.6, 1.0, 2.0]) * cfg["dT"]
        cfg["Tstart"] = cfg["TMin"] + off if rng.random() < 0.5 else cfg["TMax"] - off
        cfg["nearEnd"] = off / cfg["dT"]
        if rng.random() < 0.5:
            cfg["firstStep"] = rng.choice([1.0, 0.5])
        out.append(cfg)
    return out


def guess_cfgs(rng, count, units=(1.0,)):
    """the documented use: an APPROXIMATE starting guess (1-3 % off, inside the basin),
    ranges inside the phase"""
    out = []
    for cfg in q1_cfgs(rng, count, units) + tf_cfgs(rng, count, units):
        m = build_model(cfg["model"])
        ph = m.phases[cfg["phase"]]
        lo = max(ph.Tlo, 0.4 * m.Tscale)
        hi = ph.Thi if math.isfinite(ph.Thi) else 2.0 * m.Tscale
        cfg["Tstart"] = lo + 0.5 * (hi - lo)
        cfg["TMin"], cfg["TMax"] = lo + 0.25 * (hi - lo), lo + 0.75 * (hi - lo)
        cfg["guess"] = rng.choice([-0.03, -0.01, 0.01, 0.03])
        if cfg["phase"] == "sym":
            continue
        out.append(cfg)
    return out


# findCriticalTemperature tracing both phases itself from a window that extends past both
# spinodals, in a rotated two-field basis, with and without re-minimisation
DIRECTED_TC = [
    {"model": {"model": "twofield", "theta": 0.6, "unit": 1.0}, "Tn": 95.0, "Wmin": 60.0,
     "Wmax": 118.0, "dT": 0.5, "rTol": 1e-05, "paranoid": par} for par in (False, True)
]


def replay_cfg(ctx, cfg, tag):
    if "ops" in cfg:
        run_history_case(ctx, cfg)
    elif "Tn" in cfg:
        run_tc_case(ctx, cfg)
    else:
        run_trace_case(ctx, cfg, tag)


# the documented on-demand use: findCriticalTemperature on a FRESH Thermodynamics object
# (min/maxPossibleTemperature = [0, False], [inf, False]); it must return Tc or refuse loudly
DIRECTED_TC_FRESH = {"model": dict(_Q), "Tn": 83.0, "dT": 0.5, "rTol": 1e-06, "paranoid": True,
                     "fresh": True, "Wmin": 0.0, "Wmax": float("inf")}


def run(ctx):
    ok = True
    try:
        import glob
        import os
        others = {}
        for fpath in sorted(glob.glob(os.path.join(vlib.SRC, "**", "*.py"), recursive=True)):
            rel = os.path.relpath(fpath, vlib.SRC)
            with open(fpath) as fh:
                others[rel] = fh.read()
        text, spans, calls = gen_trace.generate(vlib.read_src("freeEnergy.py"),
                                                vlib.read_src("thermodynamics.py"),
                                                vlib.read_src("manager.py"), others)
        ctx.write("TraceGen.v", text, sources=dict(
            files=["src/WallGo/freeEnergy.py", "src/WallGo/thermodynamics.py",
                   "src/WallGo/manager.py"],
            sha=[vlib.sha(vlib.read_src(f)) for f in ("freeEnergy.py", "thermodynamics.py",
                                                      "manager.py")], spans=spans))
    except pyrx.TranslateError as e:
        ctx.log("translator failed:", e)
        ctx.broken.append("translator: %s" % e)
        ok = False
    proved = ok and ctx.prove(extra=["TraceGen.v"])
    ctx.trusted += ["tools/gen_trace.py (AST translator, fail-closed, typed)",
                    "Coquelicot (Derive_2d: chain rule for functions of two variables)",
                    "Interval tactic (certified evaluation of the closed forms)"]
    rng = ctx.rng
    # --- the proved closed forms are the oracle's and the traced model's ---------------
    text, rows = oracle_file(rng, ctx.n(4, 24))
    p = ctx.write("Cases/Oracle.v", text)
    pr = subprocess.Popen(["timeout", "600", "coqc"] + ctx.coq_args() + [p], cwd=ctx.bdir,
                          stdout=subprocess.PIPE, stderr=subprocess.PIPE, text=True)
    # --- the generated range/flag bookkeeping agrees with what the implementation reports
    pb = None
    if proved:
        try:
            pbf = ctx.write("Cases/Book.v", book_file(ctx, rng, ctx.n(4, 30)))
            pb = subprocess.Popen(["timeout", "900", "coqc"] + ctx.coq_args() + [pbf],
                                  cwd=ctx.bdir, stdout=subprocess.PIPE,
                                  stderr=subprocess.PIPE, text=True)
        except Exception as ex:
            ctx.log("bookkeeping correspondence raised", traceback.format_exc())
            ctx.broken.append("harness: bookkeeping correspondence raised %r" % ex)
    # --- direct validation on the real tracer -------------------------------------------
    units = (1.0, 1e-3, 1e3)
    for k in ctx.known.get("findings", []):
        if k.get("property") == "C11" and isinstance(k.get("replay"), dict) and \
                "model" in k["replay"]:
            try:
                replay_cfg(ctx, dict(k["replay"]), "known")
            except Exception as ex:
                ctx.log("replay of known finding raised", traceback.format_exc())
    for cfg in DIRECTED:
        try:
            run_trace_case(ctx, dict(cfg), "directed")
        except Exception as ex:
            ctx.log("directed case raised", traceback.format_exc())
            ctx.broken.append("harness: directed case raised %r" % ex)
    for cfg in DIRECTED_FINE:
        try:
            run_trace_case(ctx, dict(cfg), "fine")
        except Exception as ex:
            ctx.log("fine-step case raised", traceback.format_exc())
            ctx.broken.append("harness: fine-step case raised %r" % ex)
    for cfg in [dict(c) for c in DIRECTED_HISTORY] + history_cfgs(rng, ctx.n(6, 60), units):
        try:
            run_history_case(ctx, cfg)
        except Exception as ex:
            ctx.log("history case raised", traceback.format_exc())
            ctx.broken.append("harness: history case raised %r" % ex)
    for cfg in DIRECTED_NOHOP:
        try:
            run_trace_case(ctx, dict(cfg, nohop=True), "nohop")
        except Exception as ex:
            ctx.log("no-hop case raised", traceback.format_exc())
            ctx.broken.append("harness: no-hop case raised %r" % ex)
    for cfg in near_end_cfgs(rng, ctx.n(4, 40), units):
        try:
            run_trace_case(ctx, cfg, "nearend")
        except Exception as ex:
            ctx.log("near-end case raised", traceback.format_exc())
            ctx.broken.append("harness: near-end case raised %r" % ex)
    try:
        run_tc_case(ctx, dict(DIRECTED_TC_FRESH))
    except Exception as ex:
        ctx.log("fresh Tc case raised", traceback.format_exc())
        ctx.broken.append("harness: fresh Tc case raised %r" % ex)
    for cfg in path_cfgs(rng, ctx.n(4, 40), units):
        try:
            run_trace_case(ctx, cfg, "paths")
        except Exception as ex:
            ctx.log("path case raised", traceback.format_exc())
            ctx.broken.append("harness: path case raised %r" % ex)
    for cfg in guess_cfgs(rng, ctx.n(6, 60), units):
        try:
            run_trace_case(ctx, cfg, "guess")
        except Exception as ex:
            ctx.log("perturbed-guess case raised", traceback.format_exc())
            ctx.broken.append("harness: perturbed-guess case raised %r" % ex)
    cases = q1_cfgs(rng, ctx.n(24, 400), units) + tf_cfgs(rng, ctx.n(24, 400), units)
    for cfg in cases:
        try:
            run_trace_case(ctx, cfg, "trace")
        except Exception as ex:
            ctx.log("trace case raised", traceback.format_exc())
            ctx.broken.append("harness: trace case raised %r" % ex)
    ctx.sample(dict(trace_case=cases[0]))
    tcs = [dict(c) for c in DIRECTED_TC] + tc_cfgs(rng, ctx.n(12, 120), units)
    for cfg in tcs:
        try:
            run_tc_case(ctx, cfg)
        except Exception as ex:
            ctx.log("Tc case raised", traceback.format_exc())
            ctx.broken.append("harness: Tc case raised %r" % ex)
    ctx.sample(dict(tc_case=tcs[0]))
    hop_rate_bound(ctx)
    out, err = pr.communicate()
    for _ in range(4 * len(rows)):
        ctx.count("certified_oracle_eval")
    ctx.sample(dict(oracle=rows[0]))
    if pr.returncode != 0:
        ctx.broken.append("correspondence: closed forms proved in Lib.PhaseTrace differ from "
                          "tools/wgmodels.py / the traced potential")
        ctx.log("certified oracle evaluation failed", vlib.tail(err, 8))
    if pb is not None:
        out, err = pb.communicate()
        if pb.returncode != 0:
            ctx.broken.append("correspondence: generated clamp/tail model disagrees with the "
                              "range/flags reported by tracePhase")
            ctx.log("bookkeeping correspondence failed", vlib.tail(err, 8))
    ctx.cov["rule"] = (
        "trace cases: random one-field quartic (D,E,lam,T0 from small sets) and rotated "
        "two-field Z2xZ2 models (5 rotation angles) in 3 unit systems; phase, start "
        "temperature, requested range (inside the existence range / just past / far past a "
        "spinodal on either side), dT, rTol in 1e-4..1e-8, paranoid on/off; every tabulated "
        "point is checked (exact gradient via Newton step, exact Hessian eigenvalues, branch, "
        "free energy), then flags, margins, coverage, interpolation at up to 40 mid-points; "
        "Tc cases let findCriticalTemperature trace both phases itself from a naive window; "
        "distinct = distinct configuration tuple")
    ctx.assumptions += [
        "RK45 follows the ODE and BFGS converges to the local minimum nearest its start "
        "(validated on every generated case by the closed-form comparison)",
        "finite-difference Hessian / gradient equal the exact ones up to rounding (validated: "
        "the spinodal stop lands within 1e-4 T of the closed-form spinodal)",
        "scipy.linalg.eigvalsh returns the eigenvalues; scipy.linalg.solve solves (hypotheses "
        "of the theorems that use them)"]


def replay(rep):
    print(json.dumps({k: v for k, v in rep.items() if k != "extra"}, indent=1))
    cfg = rep.get("cfg")
    if not cfg:
        return 0

    class C:
        def count(self, *a, **k):
            pass

        def fail_input(self, what, r, key=None):
            print("FAILS [%s]: %s" % (key, what[:300]))
    replay_cfg(C(), cfg, "replay")
    return 0
