"""C07 -- results are covariant under a change of units."""
import json
import math
import multiprocessing
import os
import re
import time
import traceback
from fractions import Fraction

import numpy as np

import gen_thermo
import gen_units
import pyrx
import vlib
import wgmodels

EXPLANATION = (
    "Proof half: the closed-form layer of WallGo (all Thermodynamics EOS functions and "
    "setExtrapolate, the junction velocities, the self-similar fluid equations, the "
    "temperature-window map, the tanh wall profile, the plasma velocity and local "
    "temperature equation inside the wall, the Grid3Scales parameters) is regenerated from "
    "the sources by the pyrx translator and Coq proves for each function, for ALL inputs and "
    "ALL unit factors lam>0, that rescaled inputs give the old result times the power of lam "
    "belonging to its dimension (p,e,w~lam^4, dp~lam^3, ddp~lam^2, cs2/alpha/velocities "
    "invariant, extrapolation coefficient a~lam^(4-mu), lengths~1/lam). A dimensional analysis "
    "of the AST of seven modules emits every place where a pure number meets a dimensionful "
    "quantity (absolute tolerances, bounds, stored values, arguments); Coq proves the emitted "
    "list equal to the reviewed list, so a new absolute dimensionful tolerance or a lost unit "
    "conversion breaks an obligation. Metamorphic half: the same model is presented to the "
    "real WallGoManager in units rescaled by lam in {1e-2..1e2} (default and tightened "
    "tolerances); dimensionless outputs must agree within tolerances derived from the "
    "configuration and dimensionful ones scale by the proved power; the proved scaling laws "
    "are also evaluated directly on the implementation's own functions.")

REVIEWED_RE = re.compile(
    r'mk_site "([^"]*)" "([^"]*)" "([^"]*)" "([^"]*)" \((?:Some \(?(-?\d+)\)?%Z|None)\) (\d+)')

SRC_FILES = ["helpers.py", "hydrodynamics.py", "equationOfMotion.py", "grid3Scales.py"]


# =====================================================================================
# end-to-end metamorphic runs (each in its own process)
# =====================================================================================

YUKAWA = dict(kind="yukawa", Tn=1.0, sigma=0.0, msq=1.0 / 64, gamma=-0.15, lam=0.10, y=0.55,
              mf=0.0375, phase1=0.05, phase2=3.375, dTscale=0.125, phiscale=12.5,
              wallThicknessGuess=10.0, meanFreePathScale=5000.0)
# the same physics written with Tn = 4 (all dimensionful numbers x 4)
YUKAWA4 = dict(kind="yukawa", Tn=4.0, sigma=0.0, msq=0.25, gamma=-0.6, lam=0.10, y=0.55,
               mf=0.15, phase1=0.2, phase2=13.5, dTscale=0.5, phiscale=50.0,
               wallThicknessGuess=10.0, meanFreePathScale=5000.0)
QUARTIC = dict(kind="quartic1", Tn=83.0, D=0.2, E=0.05, lam=0.1, T0=80.0, g=100.0,
               dTscale=2.0, phiscale=50.0, wallThicknessGuess=5.0, meanFreePathScale=50.0)
MODELS = {"yukawa": YUKAWA, "yukawa4": YUKAWA4, "quartic1": QUARTIC}

TOLSETS = {
    # name -> (config overrides)
    "default": dict(errTol=1e-3, phaseTracerTol=1e-8, hydroRtol=1e-6, hydroAtol=1e-10),
    "tight": dict(errTol=2e-4, phaseTracerTol=1e-9, hydroRtol=1e-7, hydroAtol=1e-11),
}


class Setup:
    """One model object (and optionally one manager) that can be presented in several unit
    systems in turn: `present(u)` rescales every dimensionful parameter of the SAME potential
    object; `setup(u)` calls setupThermodynamicsHydrodynamics with rescaled inputs."""

    def __init__(self, spec, tols):
        import WallGo
        from WallGo import Fields, GenericModel, Particle
        self.spec, self.tols = spec, tols
        self.unit = None
        self.manager = None
        st = self

        if spec["kind"] == "yukawa":
            p = self.p = {}

            class Pot(WallGo.EffectivePotential):
                fieldCount = 1
                effectivePotentialError = 1e-15

                def evaluate(self, fields, temperature):
                    fields = Fields(fields)
                    phi = fields.getField(0)
                    f0 = -np.pi ** 2 / 90 * (1 + 4 * 7 / 8) * temperature ** 4
                    sigmaEff = p["sigma"] + (p["gamma"] + 4 * p["y"] * p["mf"]) * \
                        temperature ** 2 / 24
                    msqEff = p["msq"] + (p["lam"] + 4 * p["y"] ** 2) * temperature ** 2 / 24
                    return np.array(f0 + sigmaEff * phi + msqEff * phi ** 2 / 2
                                    + p["gamma"] * phi ** 3 / 6 + p["lam"] * phi ** 4 / 24)
            pot = Pot()

            def msq(fields):
                return (p["mf"] + p["y"] * fields.getField(0)) ** 2

            def dmsq(fields):
                return 2 * p["y"] * (p["mf"] + p["y"] * fields.getField(0))
        else:
            q = self.p = {}

            class Pot(WallGo.EffectivePotential):
                fieldCount = 1
                effectivePotentialError = 1e-15

                def evaluate(self, fields, temperature):
                    fields = Fields(fields)
                    phi = fields.getField(0)
                    T = np.asarray(temperature)
                    return (q["D"] * (T ** 2 - q["T0"] ** 2) * phi ** 2 - q["E"] * T * phi ** 3
                            + q["lam"] / 4 * phi ** 4 - q["g"] * math.pi ** 2 / 90 * T ** 4)
            pot = Pot()

            def msq(fields):
                return 0.25 * fields.getField(0) ** 2

            def dmsq(fields):
                return 0.5 * fields.getField(0)

        class Model(GenericModel):
            def __init__(self):
                self.effectivePotential = pot
                self.clearParticles()
                self.addParticle(Particle("top", index=1, msqVacuum=msq, msqDerivative=dmsq,
                                          statistics="Fermion", totalDOFs=12))

            @property
            def fieldCount(self):
                return 1

            def getEffectivePotential(self):
                return self.effectivePotential
        self.pot = pot
        self.model = Model()

    def present(self, u):
        spec = self.spec
        self.unit = u
        if spec["kind"] == "yukawa":
            self.p.update(sigma=spec["sigma"] * u ** 3, msq=spec["msq"] * u ** 2,
                          gamma=spec["gamma"] * u, lam=spec["lam"], y=spec["y"],
                          mf=spec["mf"] * u)
            self.ph1, self.ph2 = spec["phase1"] * u, spec["phase2"] * u
        else:
            self.p.update(D=spec["D"], E=spec["E"], lam=spec["lam"], T0=spec["T0"] * u,
                          g=spec["g"])
            ex = wgmodels.quartic1_exact(**self.p)
            self.ph1, self.ph2 = 0.0, ex["phi_broken"](spec["Tn"] * u)

    def new_manager(self):
        import logging
        import WallGo
        tols = self.tols
        manager = WallGo.WallGoManager()
        manager.setVerbosity(logging.ERROR)
        manager.config.configGrid.spatialGridSize = 20
        manager.config.configEOM.maxIterations = 25
        manager.config.configEOM.errTol = tols["errTol"]
        manager.config.configThermodynamics.phaseTracerTol = tols["phaseTracerTol"]
        manager.config.configHydrodynamics.relativeTol = tols["hydroRtol"]
        manager.config.configHydrodynamics.absoluteTol = tols["hydroAtol"]
        manager.registerModel(self.model)
        self.manager = manager
        # purity: no call may change the user's configuration object
        self.config0 = flat(manager.config, "config")
        return manager

    def setup(self, u, reuse_manager=False):
        import WallGo
        from WallGo import Fields
        spec = self.spec
        self.present(u)
        manager = self.manager if (reuse_manager and self.manager is not None) \
            else self.new_manager()
        phaseInfo = WallGo.PhaseInfo(temperature=spec["Tn"] * u,
                                     phaseLocation1=Fields([self.ph1]),
                                     phaseLocation2=Fields([self.ph2]))
        scales = WallGo.VeffDerivativeSettings(
            temperatureVariationScale=spec["dTscale"] * u,
            fieldValueVariationScale=[spec["phiscale"] * u])
        b1, b2 = flat(phaseInfo, "phaseInfo"), flat(scales, "veffDerivativeScales")
        manager.setupThermodynamicsHydrodynamics(phaseInfo, scales)
        self.input_mutations = mutated(b1, phaseInfo, "phaseInfo") + \
            mutated(b2, scales, "veffDerivativeScales")
        return manager


def flat(obj, prefix=""):
    """flatten a configuration / settings object (dataclasses, lists, tuples, dicts, numpy
    arrays, Fields) into {dotted field name: plain value} for comparison"""
    import dataclasses
    out = {}
    if dataclasses.is_dataclass(obj) and not isinstance(obj, type):
        for f in dataclasses.fields(obj):
            out.update(flat(getattr(obj, f.name), prefix + "." + f.name if prefix else f.name))
    elif isinstance(obj, dict):
        for k in obj:
            out.update(flat(obj[k], "%s[%r]" % (prefix, k)))
    elif isinstance(obj, np.ndarray):
        out[prefix] = np.asarray(obj, dtype=float).reshape(-1).tolist() \
            if obj.dtype.kind in "fiub" else repr(obj)
    elif isinstance(obj, (list, tuple)):
        for i, v in enumerate(obj):
            out.update(flat(v, "%s[%d]" % (prefix, i)))
        out[prefix + ".len"] = len(obj)
    elif isinstance(obj, (int, float, str, bool)) or obj is None:
        out[prefix] = obj
    else:
        out[prefix] = repr(obj)
    return out


def mutated(before, obj, label):
    """fields of an INPUT object (flattened snapshot `before`) changed by the calls made"""
    after = flat(obj, label)
    return ["%s: %r -> %r" % (k, before.get(k), after.get(k))
            for k in sorted(set(before) | set(after)) if before.get(k) != after.get(k)]


def uninterpolated(pot, manager, Tn):
    """EOS at Tn straight from EffectivePotential.findLocalMinimum + finite differences in T
    (no tracing, no spline): what WallGoManager.initTemperatureRange hands to the template
    model to estimate the temperature range.  Direct probe of the reviewed tolerance site
    `minimize(tol=tol)` (scipy's absolute finite-difference step and gradient tolerance)."""
    from WallGo import Thermodynamics
    th0 = Thermodynamics(pot, Tn, manager.phasesAtTn.phaseLocation2,
                         manager.phasesAtTn.phaseLocation1)
    th0.freeEnergyHigh.disableAdaptiveInterpolation()
    th0.freeEnergyLow.disableAdaptiveInterpolation()
    return dict(alpha0=float(th0.alpha(Tn)), csqHigh0=float(th0.csqHighT(Tn)),
                csqLow0=float(th0.csqLowT(Tn)))


def solve_case(job):
    """job = (model name, unit, tolerance set name, stages). Returns a dict of outputs in
    the units of the run (dimensionful ones are rescaled by the caller)."""
    name, unit, tolname, stages = job[:4]
    # history: units in which the SAME model object (mode "model": fresh manager each time;
    # mode "manager": the same manager too) was set up before the run that is reported
    history, mode = (job[4], job[5]) if len(job) > 4 else ((), "model")
    spec, tols = MODELS[name], TOLSETS[tolname]
    t0 = time.time()
    out = dict(model=name, unit=unit, tols=tolname, history=list(history), mode=mode)
    try:
        import WallGo
        st = Setup(spec, tols)
        for h in history:
            st.setup(h, reuse_manager=(mode == "manager"))
        manager = st.setup(unit, reuse_manager=(mode == "manager"))
        ds = st.pot.derivativeSettings
        out["dTscale"] = float(ds.temperatureVariationScale)
        out["phiscale"] = float(np.asarray(ds.fieldValueVariationScale).reshape(-1)[0])
        Tn = spec["Tn"] * unit
        th, hy = manager.thermodynamics, manager.hydrodynamics
        out.update(
            Tn=Tn, vJ=float(hy.vJ), alphaN=float(hy.template.alN),
            alpha=float(th.alpha(Tn)), csqHigh=float(th.csqHighT(Tn)),
            csqLow=float(th.csqLowT(Tn)), vMin=float(hy.vMin),
            pHigh=float(th.pHighT(Tn)), pLow=float(th.pLowT(Tn)),
            dpHigh=float(th.dpHighT(Tn)), ddpLow=float(th.ddpLowT(Tn)),
            eHigh=float(th.eHighT(Tn)), wLow=float(th.wLowT(Tn)),
            TMinHighT=float(th.TMinHighT), TMaxHighT=float(th.TMaxHighT),
            TMinLowT=float(th.TMinLowT), TMaxLowT=float(th.TMaxLowT),
            muMinLowT=float(th.muMinLowT), aMinLowT=float(th.aMinLowT),
            epsilonMinLowT=float(th.epsilonMinLowT),
            muMaxHighT=float(th.muMaxHighT), aMaxHighT=float(th.aMaxHighT),
            epsilonMaxHighT=float(th.epsilonMaxHighT),
            # the minima located by EffectivePotential.findLocalMinimum at Tn (first field)
            phase1=float(np.asarray(manager.phasesAtTn.phaseLocation1).reshape(-1)[0]),
            phase2=float(np.asarray(manager.phasesAtTn.phaseLocation2).reshape(-1)[0]),
            **uninterpolated(st.pot, manager, Tn),
            # did the tracer stop before the requested end of the range (spinodal)?
            early=dict(TMinHighT=bool(th.freeEnergyHigh.minPossibleTemperature[1]),
                       TMaxHighT=bool(th.freeEnergyHigh.maxPossibleTemperature[1]),
                       TMinLowT=bool(th.freeEnergyLow.minPossibleTemperature[1]),
                       TMaxLowT=bool(th.freeEnergyLow.maxPossibleTemperature[1])))
        if "lte" in stages:
            out["vwLTE"] = float(manager.wallSpeedLTE())
        if "wall" in stages:
            settings = WallGo.WallSolverSettings(
                bIncludeOffEquilibrium=False,
                meanFreePathScale=spec["meanFreePathScale"],
                wallThicknessGuess=spec["wallThicknessGuess"])
            s0 = flat(settings, "wallSolverSettings")

            def wall(tag):
                res = manager.solveWall(settings)
                if res.wallVelocity is None:
                    raise RuntimeError("solveWall returned no wall velocity (message: %s)" % (
                        getattr(res, "message", None),))
                out.update({"success" + tag: bool(res.success),
                            "vw" + tag: float(res.wallVelocity),
                            "vwLTEres" + tag: float(res.wallVelocityLTE),
                            "width" + tag: float(res.wallWidths[0]),
                            "offset" + tag: float(res.wallOffsets[0]),
                            "Tplus" + tag: float(res.temperaturePlus),
                            "Tminus" + tag: float(res.temperatureMinus)})
            wall("")
            if "wall2" in stages:
                # history: the same call again on the same manager must give the same answer
                try:
                    wall("2")
                except Exception as ex:
                    out["raised2"] = "%s: %s" % (type(ex).__name__, str(ex)[:200])
            st.input_mutations += mutated(s0, settings, "wallSolverSettings")
        out["mutated"] = mutated(st.config0, manager.config, "config") + st.input_mutations
    except Exception as ex:          # a run that raises is itself an output to compare
        out["raised"] = "%s: %s" % (type(ex).__name__, str(ex)[:200])
        out["trace"] = traceback.format_exc()[-1500:]
        try:
            out["mutated"] = mutated(st.config0, st.manager.config, "config") + \
                getattr(st, "input_mutations", [])
        except Exception:
            pass
    out["seconds"] = round(time.time() - t0, 1)
    return out


MODELS["quarticwide"] = dict(kind="quartic1", Tn=1.8, D=0.2, E=0.12, lam=0.1, T0=1.0, g=100.0,
                             dTscale=0.02, phiscale=1.0, wallThicknessGuess=5.0,
                             meanFreePathScale=50.0)
# Is the Jouguet point inside the temperature range over which the low-T phase exists?
# (Yukawa: the low-T phase ends at 1.133 Tn, below the Jouguet T-, so vJ there is computed
# from the extrapolated EOS and is outside the property's quantifier.)
JOUGUET_INSIDE = {"yukawa": False, "yukawa4": False, "quarticwide": True}

# quantity -> (mass dimension, kind of tolerance)
DIMLESS = ["vw2", "offset2", "vw", "vwLTE", "vJ", "alphaN", "alpha", "csqHigh", "csqLow", "vMin", "offset",
           "muMinLowT", "csqLowExt"]
DIMFUL = {"width2": -1, "Tplus2": 1, "Tminus2": 1, "width": -1, "Tplus": 1, "Tminus": 1, "pHigh": 4, "pLow": 4, "dpHigh": 3,
          "ddpLow": 2, "eHigh": 4, "wLow": 4, "TMinLowT": 1, "TMinHighT": 1, "pLowExt": 4,
          "TMaxHighT": 1, "TMaxLowT": 1,
          # the finite-difference / tracer scales actually in use by the potential
          "dTscale": 1, "phiscale": 1}


def tolerance_for(q, tols):
    """tolerances derived from the configuration of the run (relative unless noted)"""
    eT, pT, hR = tols["errTol"], tols["phaseTracerTol"], tols["hydroRtol"]
    eos = max(1e3 * pT, 100 * hR)
    if q.endswith("2") and q[:-1] in ("vw", "offset", "width", "Tplus", "Tminus"):
        q = q[:-1]               # second call on the same manager: same tolerances
    if q == "vw":
        return 3 * eT            # absolute: root_scalar(xtol=errTol) in both runs + pressure tol
    if q in ("Tplus", "Tminus"):
        return 2 * eT
    if q == "width":
        return max(10 * eT, 5e-3)
    if q == "offset":
        return max(10 * eT, 5e-3)
    if q in ("vwLTE", "vJ", "vMin"):
        return eos
    if q in ("dTscale", "phiscale"):
        return 1e-12             # inputs: must arrive unchanged
    if q in ("TMinLowT", "TMinHighT"):
        return 1e-2              # end of the traced range: set by the tracer's step
    if q in ("TMaxLowT", "TMaxHighT"):
        # upper ends come from the template-model estimate times the configured safety
        # factor (configThermodynamics.tmax = 1.2): half of that 20% margin
        return 0.1
    if q in ("muMinLowT", "csqLowExt", "pLowExt"):
        return 1e-3              # extrapolation: second derivative at the range end
    return eos


def compare_runs(ctx, ref, run, tols, tolname):
    """dimensionless outputs equal, dimensionful ones scaled by lam^d"""
    name, lam = run["model"], run["unit"] / ref["unit"]
    hist = dict(history=run.get("history", []), mode=run.get("mode", "model"))
    if hist["history"]:
        tolname = "%s; same %s first set up in units %s" % (
            tolname, hist["mode"], ",".join("x%g" % h for h in hist["history"]))
    bad = []
    if ("raised" in ref) != ("raised" in run):
        r = run if "raised" in run else ref
        ctx.fail_input(
            "%s [%s]: the run with unit factor %g raises (%s) while the run with unit "
            "factor %g succeeds" % (name, tolname, r["unit"], r["raised"],
                                    (ref if r is run else run)["unit"]),
            dict(kind="metamorphic", model=name, tols=run["tols"],
                 units=[ref["unit"], run["unit"]], quantity="raises", raised=r["raised"],
                 **hist), key="metamorphic:raises")
        return ["raises"]
    if "raised" in ref:
        return []
    # Premise of the property: both phases exist over the temperature range the solver asks
    # for.  When a phase ends at a spinodal inside that range the tracer should stop there
    # (it reports that it stopped early), but it may also hop onto the other phase and go on
    # (known finding C11 trace-hops-phase-at-spinodal), and which of the two happens is not
    # unit independent.  Signature: one run stopped early at this end, the other run's range
    # extends well beyond that point.  Such a pair is outside the quantifier: logged and
    # counted, not compared.
    for end in ("TMinHighT", "TMaxHighT", "TMinLowT", "TMaxLowT"):
        a, b = ref[end] / ref["Tn"], run[end] / run["Tn"]
        if abs(a - b) <= 0.1 * min(abs(a), abs(b)):
            continue
        sign = 1 if "Max" in end else -1
        short, long_ = (ref, run) if sign * (a - b) < 0 else (run, ref)
        if short.get("early", {}).get(end) and not long_.get("early", {}).get(end):
            ctx.count("metamorphic_outside_quantifier", bucket=end)
            ctx.log("  outside the quantifier: %s/Tn = %.4f (units x%g) vs %.4f (units x%g): a "
                    "phase ends at a spinodal inside the requested range; the tracer stopped "
                    "there in one unit system and hopped onto the other phase in the other "
                    "(known finding C11); alphaN %.7g vs %.7g, vJ %.5f vs %.5f, vw %s vs %s"
                    % (end, a, ref["unit"], b, run["unit"], ref["alphaN"], run["alphaN"],
                       ref["vJ"], run["vJ"], ref.get("vw"), run.get("vw")))
            return ["(outside quantifier: %s)" % end]
    # Direct probe of the reviewed site `minimize(tol=tol)` in EffectivePotential.
    # findLocalMinimum (scipy's BFGS differentiates Veff with an ABSOLUTE step 1.49e-8 and
    # stops on an absolute gradient): is the EOS at Tn computed without tracing/spline
    # (findLocalMinimum + unit-covariant finite differences in T only) covariant?
    probe = max(abs(ref[k] - run[k]) / abs(ref[k]) for k in ("alpha0", "csqHigh0", "csqLow0"))
    PROBE_TOL = 1e-4
    ctx.count("probe_findLocalMinimum", bucket="dev<1e-4" if probe < PROBE_TOL else "dev>=1e-4")
    # The un-interpolated EOS only serves to choose the temperature range that is traced;
    # deviations of EOS-derived outputs are attributed to it only if it is itself off AND
    # the traced ranges of the two runs differ (the visible mechanism).  Outputs of the wall
    # solution and the inputs (variation scales) are never attributed.
    EOS_Q = {"alphaN", "alpha", "csqHigh", "csqLow", "vJ", "vMin", "vwLTE", "muMinLowT", "pHigh",
             "pLow", "dpHigh", "ddpLow", "eHigh", "wLow", "TMinLowT", "TMinHighT", "TMaxLowT",
             "TMaxHighT"}
    ranges_differ = any(
        abs(ref[e] / ref["Tn"] - run[e] / run["Tn"]) > 0.02 * abs(ref[e] / ref["Tn"])
        for e in ("TMinHighT", "TMaxHighT", "TMinLowT", "TMaxLowT"))
    if probe >= PROBE_TOL:
        what = ("%s [%s tolerances]: the EOS at Tn computed without tracing/interpolation "
                "(EffectivePotential.findLocalMinimum + finite differences in T; what "
                "WallGoManager.initTemperatureRange feeds the template model) is not unit "
                "covariant: alpha %.7g vs %.7g, cs2_high %.7g vs %.7g, cs2_low %.7g vs %.7g "
                "between units x%g and x%g (relative deviation %.2g > %.0e)%s" % (
                    name, tolname, ref["alpha0"], run["alpha0"], ref["csqHigh0"],
                    run["csqHigh0"], ref["csqLow0"], run["csqLow0"], ref["unit"], run["unit"],
                    probe, PROBE_TOL, "; traced ranges differ" if ranges_differ else ""))
        # The probe alone is not a failure: the un-interpolated EOS only chooses the traced
        # range.  EOS-stage deviations in this pair are attributed to the site (class rule of
        # the known finding site:findLocalMinimum-absolute-step) below.
        ctx.count("probe_offending_pairs", bucket="x%g" % lam)
        ctx.log("  note: " + what)
    attributed = []
    for q in DIMLESS + list(DIMFUL):
        if q not in ref or q not in run:
            continue
        if q == "vJ" and not JOUGUET_INSIDE.get(name, True):
            continue
        d = DIMFUL.get(q, 0)
        a, b = ref[q], run[q] / lam ** d
        tol = tolerance_for(q, tols)
        dev = abs(a - b) if q in ("vw", "offset", "vw2", "offset2") else \
            abs(a - b) / max(abs(a), 1e-300)
        ctx.count("metamorphic_compare", bucket=q)
        if not dev <= tol:
            bad.append(q)
            if probe >= PROBE_TOL and ranges_differ and q in EOS_Q:
                attributed.append((q, a, b, d, dev, tol))
                continue
            ctx.fail_input(
                "%s [%s tolerances]: %s = %.10g in units x%g but %.10g (rescaled by "
                "lam^%d) in units x%g: deviation %.3g > %.3g" % (
                    name, tolname, q, a, ref["unit"], b, d, run["unit"], dev, tol),
                dict(kind="metamorphic", model=name, tols=run["tols"], **hist,
                     units=[ref["unit"], run["unit"]], quantity=q, reference=a, rescaled=b,
                     dimension=d, deviation=dev, tolerance=tol),
                key="metamorphic:%s" % q)
    if attributed:
        # the minima themselves are not covariant in this pair: everything downstream of
        # findLocalMinimum is attributed to that site (one failure class)
        ctx.fail_input(
            "%s [%s tolerances]: the un-interpolated EOS at Tn (findLocalMinimum + finite "
            "differences, as used by initTemperatureRange for the template model) is not unit "
            "covariant: alpha/cs2 deviate by %.2g between units x%g and x%g (scipy's absolute "
            "finite-difference step / gradient tolerance in minimize); downstream: %s" % (
                name, tolname, probe, ref["unit"], run["unit"],
                "; ".join("%s %.7g vs %.7g (dev %.2g > %.2g)" % (q, a, b, dev, tol)
                          for q, a, b, d, dev, tol in attributed)),
            dict(kind="metamorphic", model=name, tols=run["tols"], **hist,
                 units=[ref["unit"], run["unit"]], quantity="findLocalMinimum",
                 probe=probe, downstream=[x[0] for x in attributed]),
            key="site:findLocalMinimum-absolute-step")
    if "success" in ref and "success" in run and ref["success"] != run["success"]:
        bad.append("success")
        ctx.fail_input("%s [%s]: success flag %s vs %s under unit factor %g" % (
            name, tolname, ref["success"], run["success"], lam),
            dict(kind="metamorphic", model=name, tols=run["tols"], **hist,
                 units=[ref["unit"], run["unit"]], quantity="success"),
            key="metamorphic:success")
    return bad


# =====================================================================================
# the proved scaling laws evaluated on the implementation's own functions
# =====================================================================================

class StubEos:
    """p = a T^4 / 3 - eps  per phase (exact bag-like EOS)"""

    def __init__(self, aH, epsH, aL, epsL, nuL):
        self.c = (aH, epsH, aL, epsL, nuL)

    def pHighT(self, T): return self.c[0] * T ** 4 / 3 - self.c[1]
    def eHighT(self, T): return self.c[0] * T ** 4 + self.c[1]
    def pLowT(self, T): return self.c[2] * T ** 4 / 3 - self.c[3]
    def eLowT(self, T): return self.c[2] * T ** 4 + self.c[3]
    def csqHighT(self, T): return 1 / 3 + 0 * T
    def csqLowT(self, T): return self.c[4] + 0 * T

    def scaled(self, lam):
        aH, eH, aL, eL, nu = self.c
        return StubEos(aH, eH * lam ** 4, aL, eL * lam ** 4, nu)


class StubPotential:
    """V = k2 T^2 phi^2 - k3 T phi^3 + k4 phi^4 - g T^4 (homogeneous of degree 4)"""

    def __init__(self, k2, k3, k4, g):
        self.k = (k2, k3, k4, g)

    def evaluate(self, fields, T):
        k2, k3, k4, g = self.k
        phi = np.asarray(fields).reshape(-1)[0]
        return k2 * T ** 2 * phi ** 2 - k3 * T * phi ** 3 + k4 * phi ** 4 - g * T ** 4

    def derivT(self, fields, T):
        k2, k3, k4, g = self.k
        phi = np.asarray(fields).reshape(-1)[0]
        return 2 * k2 * T * phi ** 2 - k3 * phi ** 3 - 4 * g * T ** 3


def rel(a, b):
    return abs(a - b) / max(abs(a), abs(b), 1e-300)


def direct_formula_checks(ctx, n):
    import WallGo
    from WallGo import Fields, WallParams
    from WallGo.equationOfMotion import EOM
    from WallGo.hydrodynamics import Hydrodynamics
    from WallGo.grid3Scales import Grid3Scales
    rng = ctx.rng

    def fail(what, case, key):
        ctx.fail_input(what, dict(kind="formula", case=case), key="formula:" + key)

    for i in range(n):
        lam = rng.choice([1e-2, 1e-1, 0.5, 3.0, 10.0, 100.0])
        # ---- Thermodynamics with analytic free energies (the class under test is real)
        cH = [Fraction(rng.randint(-20, 20)), Fraction(0), Fraction(rng.randint(0, 24), 2),
              -Fraction(rng.randint(0, 8), 8), -Fraction(rng.randint(4, 40), 4)]
        cL = [Fraction(rng.randint(-20, 20)), Fraction(0), Fraction(rng.randint(0, 24), 2),
              -Fraction(rng.randint(0, 8), 8), -Fraction(rng.randint(4, 40), 4)]

        def rng_for(c):
            lo = math.sqrt(float(c[2] / -c[4]) + 0.25) + 0.2 + rng.random()
            return lo, lo + 0.3 + 3 * rng.random()
        rH, rL = rng_for(cH), rng_for(cL)
        th = wgmodels.stub_thermodynamics(cH, rH, cL, rL, rH[0])
        th.setExtrapolate()
        sc = lambda c: [float(k) * lam ** (4 - j) for j, k in enumerate(c)]
        th2 = wgmodels.stub_thermodynamics(sc(cH), [lam * x for x in rH], sc(cL),
                                           [lam * x for x in rL], lam * rH[0])
        th2.setExtrapolate()
        case = dict(lam=lam, cHigh=[str(k) for k in cH], cLow=[str(k) for k in cL],
                    rangeHigh=rH, rangeLow=rL)
        for ph, r in (("High", rH), ("Low", rL)):
            for T in (0.3 * r[0], 0.9 * r[0], r[0] + 0.4 * (r[1] - r[0]), 1.1 * r[1],
                      4.0 * r[1]):
                for fn, d in (("p", 4), ("dp", 3), ("ddp", 2), ("e", 4), ("w", 4), ("csq", 0)):
                    a = float(getattr(th, fn + ph + "T")(T))
                    b = float(getattr(th2, fn + ph + "T")(lam * T)) / lam ** d
                    ctx.count("formula_thermo")
                    # p and e contain the difference A T^mu/3 - eps: compare against |w|
                    scale = abs(float(getattr(th, "w" + ph + "T")(T))) if d == 4 else abs(a)
                    if abs(a - b) > 1e-9 * max(scale, abs(a), 1e-300):
                        fail("%s%sT does not scale like lam^%d: %r vs %r (lam=%g, T=%g)" % (
                            fn, ph, d, a, b, lam, T), dict(case, T=T, fn=fn + ph + "T"),
                            "thermo:" + fn)
        Tm = 0.5 * (max(rH[0], rL[0]) + min(rH[1], rL[1]))
        a, b = float(th.alpha(Tm)), float(th2.alpha(lam * Tm))
        ctx.count("formula_thermo")
        if abs(a - b) > 1e-9 * max(abs(a), 1e-6):
            fail("alpha(T) is not invariant: %r vs %r" % (a, b), dict(case, T=Tm),
                 "thermo:alpha")
        for at, d in (("muMinHighT", 0), ("muMaxLowT", 0), ("epsilonMinLowT", 4),
                      ("epsilonMaxHighT", 4)):
            a, b = getattr(th, at), getattr(th2, at) / lam ** d
            ctx.count("formula_thermo")
            if rel(a, b) > 1e-9 and abs(a - b) > 1e-9 * abs(float(th.wHighT(rH[1]))):
                fail("%s does not scale like lam^%d: %r vs %r" % (at, d, a, b), case,
                     "thermo:" + at)
        for at, mu in (("aMinHighT", "muMinHighT"), ("aMaxLowT", "muMaxLowT")):
            a, b = getattr(th, at), getattr(th2, at) / lam ** (4 - getattr(th, mu))
            ctx.count("formula_thermo")
            if rel(a, b) > 1e-8:
                fail("%s does not scale like lam^(4-mu): %r vs %r" % (at, a, b), case,
                     "thermo:" + at)
        # ---- Hydrodynamics formulas on a bag-like EOS
        eos = StubEos(rng.uniform(20, 40), rng.uniform(0.5, 3), rng.uniform(10, 19),
                      rng.uniform(0, 0.4), rng.uniform(0.2, 0.33))
        hy = object.__new__(Hydrodynamics)
        hy.thermodynamics = eos
        hy.TMinHydro, hy.TMaxHydro = 0.3, 7.0
        hy2 = object.__new__(Hydrodynamics)
        hy2.thermodynamics = eos.scaled(lam)
        hy2.TMinHydro, hy2.TMaxHydro = 0.3 * lam, 7.0 * lam
        Tp, Tm = rng.uniform(0.8, 2), rng.uniform(0.8, 2)
        case = dict(lam=lam, eos=eos.c, Tp=Tp, Tm=Tm)
        a, b = hy.vpvmAndvpovm(Tp, Tm), hy2.vpvmAndvpovm(lam * Tp, lam * Tm)
        ctx.count("formula_hydro")
        if rel(a[0], b[0]) > 1e-9 or rel(a[1], b[1]) > 1e-9:
            fail("vpvmAndvpovm not invariant: %r vs %r" % (a, b), case, "vpvm")
        v, xi = rng.uniform(0.05, 0.6), rng.uniform(0.62, 0.95)
        for sw in (True, False):
            a, b = hy.shockDE(v, [xi, Tp], sw), hy2.shockDE(v, [xi, lam * Tp], sw)
            ctx.count("formula_hydro")
            if rel(a[0], b[0]) > 1e-9 or rel(a[1], b[1] / lam) > 1e-9:
                fail("shockDE does not scale as (1, lam): %r vs %r" % (a, b),
                     dict(case, v=v, xi=xi, shockWave=sw), "shockDE")
        a, b = hy._mappingT([Tp, Tm]), hy2._mappingT([lam * Tp, lam * Tm])
        ia, ib = hy._inverseMappingT(a), hy2._inverseMappingT(a)
        ctx.count("formula_hydro")
        if max(rel(a[0], b[0]), rel(a[1], b[1])) > 1e-9 or \
                max(rel(ia[0], ib[0] / lam), rel(ia[1], ib[1] / lam)) > 1e-9:
            fail("_mappingT/_inverseMappingT not covariant: %r %r %r %r" % (a, b, ia, ib),
                 case, "mappingT")
        # ---- EOM formulas on a homogeneous potential (one field)
        pot = StubPotential(rng.uniform(0.1, 0.4), rng.uniform(0.01, 0.1),
                            rng.uniform(0.02, 0.2), rng.uniform(5, 30))

        class PotL(StubPotential):
            def evaluate(self, f, T): return lam ** 4 * pot.evaluate(np.asarray(f) / lam, T / lam)
            def derivT(self, f, T): return lam ** 3 * pot.derivT(np.asarray(f) / lam, T / lam)
        eom, eom2 = object.__new__(EOM), object.__new__(EOM)
        eom.thermo = type("T", (), {"effectivePotential": pot})()
        eom2.thermo = type("T", (), {"effectivePotential": PotL(0, 0, 0, 0)})()
        w, off, z = rng.uniform(2, 9), rng.uniform(-1, 1), rng.uniform(-10, 10)
        vL, vH = rng.uniform(1, 3), rng.uniform(0, 0.2)
        wp = WallParams(widths=np.array([w]), offsets=np.array([off]))
        wp2 = WallParams(widths=np.array([w / lam]), offsets=np.array([off]))
        f1, d1 = eom.wallProfile(z, Fields([vL]), Fields([vH]), wp)
        f2, d2 = eom2.wallProfile(z / lam, Fields([lam * vL]), Fields([lam * vH]), wp2)
        f1, d1, f2, d2 = (float(np.asarray(x).reshape(-1)[0]) for x in (f1, d1, f2, d2))
        case = dict(lam=lam, pot=pot.k, w=w, off=off, z=z, vL=vL, vH=vH)
        ctx.count("formula_eom")
        if rel(f1, f2 / lam) > 1e-9 or rel(d1, d2 / lam ** 2) > 1e-9:
            fail("wallProfile does not scale as (lam, lam^2): %r %r vs %r %r" % (
                f1, d1, f2, d2), case, "wallProfile")
        T, s1, s2 = rng.uniform(0.8, 1.5), rng.uniform(-30, -1), rng.uniform(1, 30)
        fp = Fields([f1]).getFieldPoint(0)
        fp2 = Fields([lam * f1]).getFieldPoint(0)
        dp1 = Fields([d1]).getFieldPoint(0)
        dp2 = Fields([lam ** 2 * d1]).getFieldPoint(0)
        a = eom.plasmaVelocity(fp, T, s1)
        b = eom2.plasmaVelocity(fp2, lam * T, lam ** 4 * s1)
        ctx.count("formula_eom")
        if rel(a, b) > 1e-9:
            fail("plasmaVelocity not invariant: %r vs %r" % (a, b), dict(case, T=T, s1=s1),
                 "plasmaVelocity")
        a = eom.temperatureProfileEqLHS(fp, dp1, T, s1, s2)
        b = eom2.temperatureProfileEqLHS(fp2, dp2, lam * T, lam ** 4 * s1, lam ** 4 * s2)
        ctx.count("formula_eom")
        if abs(a - b / lam ** 4) > 1e-9 * (abs(a) + abs(s1) + abs(s2)):
            fail("temperatureProfileEqLHS does not scale like lam^4: %r vs %r" % (a, b),
                 dict(case, T=T, s1=s1, s2=s2), "temperatureProfileEqLHS")
        # ---- Grid3Scales: parameters and the position map
        L = rng.uniform(1, 8)
        r, sm = rng.choice([0.3, 0.5, 0.7]), rng.choice([0.05, 0.1, 0.3])
        tin = L * (0.5 + sm) / r * rng.uniform(1.2, 6)
        tout = L * (0.5 + sm) / r * rng.uniform(1.2, 6)
        c0 = rng.uniform(-2, 2)
        g1 = Grid3Scales(12, 5, tin, tout, L, 1.0, r, sm, c0)
        g2 = Grid3Scales(12, 5, tin / lam, tout / lam, L / lam, lam, r, sm, c0 / lam)
        case = dict(lam=lam, tailIn=tin, tailOut=tout, L=L, r=r, smoothing=sm, center=c0)
        ctx.count("formula_grid")
        if rel(g1.aIn, g2.aIn) > 1e-9 or rel(g1.aOut, g2.aOut) > 1e-9:
            fail("Grid3Scales aIn/aOut not invariant", case, "grid:a")
        chi = np.array([-0.9, -0.4, 0.1, 0.6, 0.95])
        z1, pz1, pp1 = g1.decompactify(chi, chi, chi * 0.5 + 0.5 - 1e-3)
        z2, pz2, pp2 = g2.decompactify(chi, chi, chi * 0.5 + 0.5 - 1e-3)
        if np.max(np.abs(z1 - z2 * lam)) > 1e-9 * np.max(np.abs(z1)) or \
                np.max(np.abs(pz1 - pz2 / lam)) > 1e-9 * np.max(np.abs(pz1)) or \
                np.max(np.abs(pp1 - pp2 / lam)) > 1e-9 * np.max(np.abs(pp1)):
            fail("Grid3Scales.decompactify not covariant (z~1/lam, p~lam)", case, "grid:map")
        if i == 0:
            ctx.sample(dict(formula_case=case))


# =====================================================================================
# certified correspondence: generated definitions vs the implementation
# =====================================================================================

def dy(x, bits=20):
    """nearby dyadic rational (exactly representable on both sides)"""
    return Fraction(round(x * 2 ** bits), 2 ** bits)


def corr_file(rng, ncases):
    from WallGo import Fields, WallParams
    from WallGo.equationOfMotion import EOM
    from WallGo.hydrodynamics import Hydrodynamics
    from WallGo.grid3Scales import Grid3Scales
    R = pyrx.rlit
    hdr = """From Coq Require Import Reals Lra.
From Interval Require Import Tactic.
From WG Require Import Lib.NumpySem.
From GenC07 Require Import UnitsGen.
Local Open Scope R_scope.
"""
    goals, rows = [], []

    def goal(term, y, pre=""):
        q = Fraction(y)
        tol = abs(q) * Fraction(1, 10 ** 9) + Fraction(1, 10 ** 12)
        goals.append("Goal Rabs (%s - %s) <= %s.\nProof. %s interval with (i_prec 90). Qed." % (
            term, R(q), R(tol), pre))
        rows.append((term[:60], float(y)))

    for k in range(ncases):
        aH, eH, aL, eL = (dy(rng.uniform(20, 40), 8), dy(rng.uniform(0.5, 3), 8),
                          dy(rng.uniform(10, 19), 8), dy(rng.uniform(0, 0.4), 8))
        nu = dy(rng.uniform(0.2, 0.33), 8)
        eos = StubEos(*(float(x) for x in (aH, eH, aL, eL, nu)))
        hy = object.__new__(Hydrodynamics)
        hy.thermodynamics = eos
        tmin, tmax = dy(rng.uniform(0.2, 0.5), 6), dy(rng.uniform(5, 9), 6)
        hy.TMinHydro, hy.TMaxHydro = float(tmin), float(tmax)
        env = "hy%d" % k
        hdr += ("Definition %s := {| hy_TMaxHydro := %s; hy_TMinHydro := %s;\n"
                "  th_pHighT := fun T => %s * T ^ 4 / 3 - %s; th_pLowT := fun T => %s * T ^ 4 / 3 - %s;\n"
                "  th_eHighT := fun T => %s * T ^ 4 + %s; th_eLowT := fun T => %s * T ^ 4 + %s;\n"
                "  th_csqHighT := fun T => 1 / 3 + 0 * T; th_csqLowT := fun T => %s + 0 * T |}.\n" % (
                    env, R(tmax), R(tmin), R(aH), R(eH), R(aL), R(eL), R(aH), R(eH), R(aL),
                    R(eL), R(nu)))
        Tp, Tm = dy(rng.uniform(0.8, 2), 8), dy(rng.uniform(0.8, 2), 8)
        vpvm, vpovm = hy.vpvmAndvpovm(float(Tp), float(Tm))
        # e+ > e- for these coefficient ranges (aH T^4 + eH vs aL T^4 + eL) is decided by
        # the implementation; the model takes the same branch iff e+ <> e-
        pre = ("unfold hy_vpvmAndvpovm, %s; cbn [th_pHighT th_pLowT th_eHighT th_eLowT fst snd]; "
               "try match goal with |- context [Req_EM_T ?a ?b] => destruct (Req_EM_T a b) as [E|E]; "
               "[exfalso; revert E; apply %s; interval|] end; cbn [negb fst snd];" % (
                   env, "Rgt_not_eq" if eos.eHighT(float(Tp)) > eos.eLowT(float(Tm))
                   else "Rlt_not_eq"))
        goal("fst (hy_vpvmAndvpovm %s %s %s)" % (env, R(Tp), R(Tm)), vpvm, pre)
        goal("snd (hy_vpvmAndvpovm %s %s %s)" % (env, R(Tp), R(Tm)), vpovm, pre)
        v, xi = dy(rng.uniform(0.05, 0.6), 8), dy(rng.uniform(0.62, 0.95), 8)
        for sw, nm in ((True, "hy_shockDE_shock"), (False, "hy_shockDE_rarefaction")):
            a = hy.shockDE(float(v), [float(xi), float(Tp)], sw)
            pre = ("unfold %s, hp_gammaSq, hp_boostVelocity, %s; cbn [th_csqHighT th_csqLowT "
                   "fst snd];" % (nm, env))
            goal("fst (%s %s %s (%s, %s) %s)" % (nm, env, R(v), R(xi), R(Tp),
                                                  "true" if sw else "false"), a[0], pre)
            goal("snd (%s %s %s (%s, %s) %s)" % (nm, env, R(v), R(xi), R(Tp),
                                                  "true" if sw else "false"), a[1], pre)
        m = hy._mappingT([float(Tp), float(Tm)])
        pre = "unfold hy_mappingT, %s; cbn [hy_TMaxHydro hy_TMinHydro fst snd];" % env
        goal("fst (hy_mappingT %s (%s, %s))" % (env, R(Tp), R(Tm)), m[0], pre)
        goal("snd (hy_mappingT %s (%s, %s))" % (env, R(Tp), R(Tm)), m[1], pre)
        x, y = dy(rng.uniform(-3, 3), 8), dy(rng.uniform(-3, 3), 8)
        im = hy._inverseMappingT([float(x), float(y)])
        pre = "unfold hy_inverseMappingT, %s; cbn [hy_TMaxHydro hy_TMinHydro fst snd];" % env
        goal("fst (hy_inverseMappingT %s (%s, %s))" % (env, R(x), R(y)), im[0], pre)
        goal("snd (hy_inverseMappingT %s (%s, %s))" % (env, R(x), R(y)), im[1], pre)
        # EOM
        k2, k3, k4, g = (dy(rng.uniform(0.1, 0.4), 8), dy(rng.uniform(0.01, 0.1), 8),
                         dy(rng.uniform(0.02, 0.2), 8), dy(rng.uniform(5, 30), 6))
        pot = StubPotential(*(float(t) for t in (k2, k3, k4, g)))
        eom = object.__new__(EOM)
        eom.thermo = type("T", (), {"effectivePotential": pot})()
        w, off, z = dy(rng.uniform(2, 9), 6), dy(rng.uniform(-1, 1), 8), dy(rng.uniform(-10, 10), 6)
        vL, vH = dy(rng.uniform(1, 3), 8), dy(rng.uniform(0, 0.2), 8)
        ee = "eo%d" % k
        hdr += ("Definition %s := {| wp_widths := %s; wp_offsets := %s;\n"
                "  veff_dT := fun phi T => 2 * %s * T * phi ^ 2 - %s * phi ^ 3 - 4 * %s * T ^ 3;\n"
                "  veff := fun phi T => %s * T ^ 2 * phi ^ 2 - %s * T * phi ^ 3 + %s * phi ^ 4 - %s * T ^ 4 |}.\n"
                % (ee, R(w), R(off), R(k2), R(k3), R(g), R(k2), R(k3), R(k4), R(g)))
        wp = WallParams(widths=np.array([float(w)]), offsets=np.array([float(off)]))
        f1, d1 = eom.wallProfile(float(z), Fields([float(vL)]), Fields([float(vH)]), wp)
        f1, d1 = (float(np.asarray(t).reshape(-1)[0]) for t in (f1, d1))
        pre = ("unfold eom_wallProfile, %s, tanh, cosh; cbn [wp_widths wp_offsets fst snd];" % ee)
        goal("fst (eom_wallProfile %s %s %s %s 0)" % (ee, R(z), R(vL), R(vH)), f1, pre)
        goal("snd (eom_wallProfile %s %s %s %s 0)" % (ee, R(z), R(vL), R(vH)), d1, pre)
        T, s1, s2 = dy(rng.uniform(0.8, 1.5), 8), dy(rng.uniform(-30, -1), 6), dy(rng.uniform(1, 30), 6)
        phi, dphi = dy(rng.uniform(0.1, 2.5), 8), dy(rng.uniform(-1, 1), 8)
        fp = Fields([float(phi)]).getFieldPoint(0)
        dpp = Fields([float(dphi)]).getFieldPoint(0)
        pre = "unfold eom_plasmaVelocity, %s; cbn [veff_dT veff];" % ee
        goal("eom_plasmaVelocity %s %s %s %s" % (ee, R(phi), R(T), R(s1)),
             eom.plasmaVelocity(fp, float(T), float(s1)), pre)
        pre = "unfold eom_temperatureProfileEqLHS, %s; cbn [veff_dT veff];" % ee
        goal("eom_temperatureProfileEqLHS %s %s %s %s %s %s" % (ee, R(phi), R(dphi), R(T),
                                                               R(s1), R(s2)),
             eom.temperatureProfileEqLHS(fp, dpp, float(T), float(s1), float(s2)), pre)
        # grid parameters
        L = dy(rng.uniform(1, 8), 6)
        r, sm = rng.choice([Fraction(3, 10), Fraction(1, 2)]), rng.choice([Fraction(1, 10), Fraction(1, 4)])
        tin = dy(float(L * (Fraction(1, 2) + sm) / r) * rng.uniform(1.2, 6), 6)
        tout = dy(float(L * (Fraction(1, 2) + sm) / r) * rng.uniform(1.2, 6), 6)
        g1 = Grid3Scales(6, 3, float(tin), float(tout), float(L), 1.0, float(r), float(sm), 0.0)
        zeros = " ".join("0" for _ in gen_units.GRID_ATTRS)
        call = "(gr_updateParameters (mk_gr_env tt) (mk_gr_st %s) %s %s %s %s %s 0)" % (
            zeros, R(tin), R(tout), R(L), R(r), R(sm))
        names = " ".join(["gr_updateParameters", "gr_aIn", "gr_aOut"] +
                         ["set_gr_" + a for a in gen_units.GRID_ATTRS])
        pre = "cbv beta iota zeta delta [%s];" % names
        goal("gr_aIn %s" % call, g1.aIn, pre)
        goal("gr_aOut %s" % call, g1.aOut, pre)
        # the coordinate maps, on the object's own (float) parameters
        vals = dict(tailLengthInside=g1.tailLengthInside, tailLengthOutside=g1.tailLengthOutside,
                    wallThickness=g1.wallThickness, ratioPointsWall=g1.ratioPointsWall,
                    smoothing=g1.smoothing, wallCenter=g1.wallCenter, aIn=float(g1.aIn),
                    aOut=float(g1.aOut), momentumFalloffT=g1.momentumFalloffT)
        gs = "gs%d" % k
        hdr += "Definition %s : gr_st := {| %s |}.\n" % (gs, "; ".join(
            "gr_%s := %s" % (a, R(Fraction(float(vals[a])))) for a in gen_units.GRID_ATTRS))
        chi = dy(rng.uniform(-0.95, 0.95), 8)
        rho = dy(rng.uniform(-0.9, 0.9), 8)
        rpp = dy(rng.uniform(-0.9, 0.9), 8)
        z1, pz1, pp1 = g1.decompactify(np.array(float(chi)), np.array(float(rho)),
                                        np.array(float(rpp)))
        pre = ("unfold gr_decompactify, gr_totalMapping, gr_term1, gr_term2, gr_term3, gr_term4, "
               "gr_term5, atanh_R, %s; cbn [fst snd %s];" % (
                   gs, " ".join("gr_" + a for a in gen_units.GRID_ATTRS)))
        dc = "(gr_decompactify (mk_gr_env tt) %s %s %s %s)" % (gs, R(chi), R(rho), R(rpp))
        goal("fst (fst %s)" % dc, float(z1), pre)
        goal("snd (fst %s)" % dc, float(pz1), pre)
        goal("snd %s" % dc, float(pp1), pre)
    return hdr + "\n".join(goals) + "\n", rows


# =====================================================================================

def parse_reviewed():
    with open(os.path.join(vlib.COQ, "Props", "C07.v")) as f:
        text = f.read()
    text = text[text.index("Definition reviewed_sites"):]
    out = []
    for m in REVIEWED_RE.finditer(text):
        out.append((m.group(1), m.group(2), m.group(3), m.group(4),
                    None if m.group(5) is None else int(m.group(5)), int(m.group(6))))
    return out


def run(ctx):
    # ---- 1. gen ---------------------------------------------------------------------
    gen_ok = True
    sites = None
    try:
        src = {f: vlib.read_src(f) for f in set(SRC_FILES + gen_units.SIG_FILES)}
        ttext, tr = gen_thermo.generate(vlib.read_src("thermodynamics.py"))
        ctx.write("Thermo.v", ttext, sources=dict(file="src/WallGo/thermodynamics.py",
                                                  sha=vlib.sha(src["thermodynamics.py"]),
                                                  spans=tr.spans))
        utext, spans, asserts = gen_units.generate_formulas(src)
        ctx.write("UnitsGen.v", utext, sources=dict(
            files=["src/WallGo/" + f for f in SRC_FILES],
            sha={f: vlib.sha(src[f]) for f in SRC_FILES}, spans=spans,
            preconditions_recorded=asserts))
        sites = gen_units.tolerance_sites(src)
        flows = gen_units.input_flows(src)
        for f in flows:
            if not f[2]:
                ctx.log("input not consumed on every call: %s(%s)" % (f[0], f[1]))
        ctx.write("Sites.v", gen_units.facts_coq(sites, flows), sources=dict(
            files=["src/WallGo/" + f for f in gen_units.SITE_FILES],
            sha={f: vlib.sha(src[f]) for f in gen_units.SITE_FILES}))
    except (pyrx.TranslateError, SyntaxError, KeyError, OSError) as e:
        ctx.log("translator failed:", repr(e))
        ctx.broken.append("translator: %s" % e)
        gen_ok = False
    # ---- 2. prove -------------------------------------------------------------------
    proved = gen_ok and ctx.prove(extra=["Thermo.v", "UnitsGen.v", "Sites.v"])
    ctx.trusted += ["tools/pyrx.py + tools/gen_thermo.py + tools/gen_units.py (AST translator, "
                    "dimensional analysis with the reviewed naming table DIMS)",
                    "Interval tactic (certified evaluation)"]
    sites_changed = False
    if sites is not None:
        reviewed = parse_reviewed()
        new = [s for s in sites if s not in reviewed]
        gone = [s for s in reviewed if s not in sites]
        sites_changed = bool(new or gone)
        for s in new:
            ctx.log("NEW tolerance/dimension site:", s)
        for s in gone:
            ctx.log("reviewed site no longer present:", s)
        ctx.count("tolerance_sites", bucket="recorded=%d" % len(sites))
        ctx.sample(dict(tolerance_sites=[list(s) for s in sites[:4]]))
    # ---- 3. correspondence: generated definitions vs implementation --------------------
    if gen_ok:
        try:
            text, rows = corr_file(ctx.rng, ctx.n(2, 10))
            p = ctx.write("Cases/Corr.v", text)
            ok, out, err = ctx.coqc(p, timeout=600)
            for _ in rows:
                ctx.count("certified_eval")
            if not ok:
                ctx.broken.append("correspondence: certified evaluation of the generated "
                                  "formulas (%s)" % vlib.locate_failure(text, err))
                ctx.log("certified evaluation failed", vlib.tail(err, 8))
        except Exception as ex:
            ctx.log("correspondence raised", traceback.format_exc())
            ctx.broken.append("harness: correspondence raised %r" % ex)
    # ---- 4. direct validation -----------------------------------------------------------
    try:
        direct_formula_checks(ctx, ctx.n(25, 300))
    except Exception as ex:
        ctx.log("formula checks raised", traceback.format_exc())
        ctx.broken.append("harness: formula checks raised %r" % ex)
    # metamorphic end-to-end runs
    search = bool(ctx.broken) or sites_changed
    W, H = ("lte", "wall", "wall2"), ()
    # the recorded input of known finding site:findLocalMinimum-absolute-step
    # (findings/C07_findLocalMinimum_units.json) is replayed first in every tier
    RECORDED = ("yukawa4", "default", [100.0], H)
    if ctx.quick and not search:
        plan = [RECORDED, ("yukawa", "default", [1e-2, 10.0], W),
                ("quarticwide", "default", [1e-2, 100.0], H)]
    elif ctx.quick:
        # a proof obligation / the site list / the correspondence is broken: widen the search
        plan = [RECORDED, ("yukawa", "default", [1e-2, 1e-1, 10.0, 100.0], W),
                ("quarticwide", "default", [1e-2, 100.0], W)]
    else:
        plan = [("yukawa4", "default", [100.0, 1e-2], W)] + [
            (m, t, [1e-2, 1e-1, 10.0, 100.0], W) for m in ("yukawa", "quarticwide")
            for t in ("default", "tight")]
    # histories: the SAME model object (mode "model") or the same model and manager (mode
    # "manager") set up in one unit system first and then presented in another; the last run
    # must coincide with a fresh object presented in that unit system
    if ctx.quick:
        hplan = [("yukawa", "default", (1.0,), 1e-2, "model"),
                 ("yukawa", "default", (1e-2,), 1.0, "manager")]
    else:
        hplan = [(m, "default", h, u, mode)
                 for m in ("yukawa", "quarticwide") for mode in ("model", "manager")
                 for h, u in (((1.0,), 1e-2), ((1e-2,), 1.0), ((100.0, 1e-2), 1.0))]
    jobs = []
    for m, t, units, stages in plan:
        for u in [1.0] + units:
            jobs.append((m, u, t, stages))
    for m, t, h, u, mode in hplan:
        if (m, u, t) not in [j[:3] for j in jobs]:
            jobs.append((m, u, t, ()))
        jobs.append((m, u, t, (), tuple(h), mode))
    t0 = time.time()
    with multiprocessing.Pool(min(len(jobs), 16)) as pool:
        results = pool.map(solve_case, jobs)
    ctx.log("metamorphic runs: %d solves in %.0fs" % (len(jobs), time.time() - t0))
    byk = {(r["model"], r["tols"], r["unit"], tuple(r["history"]), r["mode"]): r
           for r in results}
    # purity and call-history checks on every run (no extra managers are built)
    for r in results:
        tag = "%s [%s] units x%g%s" % (
            r["model"], r["tols"], r["unit"],
            " (after set-ups in units %s, same %s)" % (
                ",".join("x%g" % h for h in r["history"]), r["mode"]) if r["history"] else "")
        rep = dict(kind="metamorphic", model=r["model"], tols=r["tols"], history=r["history"],
                   mode=r["mode"], units=[r["unit"], r["unit"]])
        ctx.count("purity_checked_runs")
        for mfield in r.get("mutated", []):
            name = re.sub(r"\[\d+\]$|\.len$", "", mfield.split(":")[0])
            ctx.fail_input(
                "%s: an INPUT object was modified by setupThermodynamicsHydrodynamics / "
                "wallSpeedLTE / solveWall: %s (a second call on the same manager or config "
                "starts from different inputs)" % (tag, mfield),
                dict(rep, quantity="purity", mutated=r["mutated"]), key="purity:" + name)
        if "vw" in r and ("vw2" in r or "raised2" in r):
            ctx.count("second_call_runs")
            if "raised2" in r:
                ctx.fail_input(
                    "%s: the second solveWall call on the same manager fails (%s) while the "
                    "first gave vw=%.6g" % (tag, r["raised2"], r["vw"]),
                    dict(rep, quantity="second-call", raised2=r["raised2"]),
                    key="history:second-call:raises")
                continue
            for q in ("vw", "width", "Tplus", "Tminus", "offset"):
                a, b = r[q], r[q + "2"]
                tol = tolerance_for(q, TOLSETS[r["tols"]])
                dev = abs(a - b) if q in ("vw", "offset") else abs(a - b) / max(abs(a), 1e-300)
                if not dev <= tol:
                    ctx.fail_input(
                        "%s: the second solveWall call on the same manager gives %s = %.10g, "
                        "the first gave %.10g (deviation %.3g > %.3g)" % (tag, q, b, a, dev, tol),
                        dict(rep, quantity="second-call:" + q, first=a, second=b),
                        key="history:second-call:" + q)
            if r["success"] != r["success2"]:
                ctx.fail_input("%s: success flag of the second solveWall call differs" % tag,
                               dict(rep, quantity="second-call:success"),
                               key="history:second-call:success")
    for m, t, units, stages in plan:
        ref = byk[(m, t, 1.0, (), "model")]
        if "raised" in ref:
            ctx.log("reference run raised:", m, t, ref["raised"])
        for u in units:
            r = byk[(m, t, u, (), "model")]
            ctx.count("metamorphic_run", dict(model=m, tols=t, unit=u), bucket="unit=%g" % u)
            bad = compare_runs(ctx, ref, r, TOLSETS[t], t)
            ctx.log("metamorphic %-11s %-7s unit x%-6g %s  vw=%s width*Tn=%s (%.0fs)" % (
                m, t, u, ("skipped " + bad[0]) if bad and bad[0].startswith("(") else
                "DEVIATES in " + ",".join(bad) if bad else "covariant",
                r.get("vw"), (r.get("width") or 0) * r.get("Tn", 0), r["seconds"]))
    for m, t, h, u, mode in hplan:
        ref = byk[(m, t, u, (), "model")]
        r = byk[(m, t, u, tuple(h), mode)]
        ctx.count("metamorphic_history", dict(model=m, history=h, unit=u, mode=mode),
                  bucket="reuse=%s" % mode)
        bad = compare_runs(ctx, ref, r, TOLSETS[t], t)
        ctx.log("history     %-11s same %-7s units %s -> x%-6g vs fresh x%g: %s (%.0fs)" % (
            m, mode, "->".join("x%g" % x for x in h), u, u,
            ("skipped " + bad[0]) if bad and bad[0].startswith("(") else
            "DEVIATES in " + ",".join(bad) if bad else "same as fresh", r["seconds"]))
    ctx.sample(dict(metamorphic_reference={k: v for k, v in byk[(plan[0][0], plan[0][1], 1.0, (), "model")].items()
                                           if k not in ("trace",)}))
    ctx.cov["rule"] = (
        "formula level: random bag-like EOS / analytic free-energy tables / homogeneous "
        "quartic potentials / grid parameters, unit factor from {1e-2,1e-1,0.5,3,10,100}; "
        "each proved law is evaluated on the real class methods (5 temperatures per phase "
        "from 0.3 TMin to 4 TMax). End to end: WallGoManager on the Yukawa-type model (Tn=1 "
        "and Tn=4 presentations) and a wide-coexistence quartic model, unit factors 1e-2..1e2, "
        "default and tightened tolerances; distinct = distinct (model, tolerance set, factor)")
    ctx.assumptions += [
        "scipy's internal absolute defaults (Nelder-Mead xatol/fatol=1e-4, minimize gtol, "
        "minimize_scalar xatol) are not modelled; they are exercised only by the metamorphic "
        "runs",
        "the free-energy tables and the effective potential of the rescaled model are the "
        "rescaled functions (sc4/sc3/sc2 in Lib/UnitsEos.v): true of any potential that is "
        "presented consistently in the new units",
        "EOM formulas are translated for one scalar field and scalar position"]


def replay(rep):
    print(json.dumps({k: v for k, v in rep.items() if k != "trace"}, indent=1))
    if rep.get("kind") == "metamorphic":
        u0, u1 = rep["units"]
        st = () if rep.get("history") else ("lte", "wall", "wall2")
        a = solve_case((rep["model"], u0, rep["tols"], st))
        b = solve_case((rep["model"], u1, rep["tols"], st, tuple(rep.get("history", [])),
                        rep.get("mode", "model")))
        for q in DIMLESS + list(DIMFUL):
            if q in a and q in b:
                d = DIMFUL.get(q, 0)
                print("%-12s %-18.10g %-18.10g (dimension %d)" % (
                    q, a[q], b[q] / (u1 / u0) ** d, d))
        print("raised:", a.get("raised"), "|", b.get("raised"))
        print("second call failed:", a.get("raised2"), "|", b.get("raised2"))
        print("input objects mutated:", a.get("mutated"), "|", b.get("mutated"))
    return 0
