"""C07 -- results are covariant under a change of units."""
import json
import math
import multiprocessing
import os
import re
import time
import traceback
from fractions import Fraction

import numpy as np

import gen_thermo
import gen_units
import pyrx
import vlib
import wgmodels

EXPLANATION = (
    "Proof half: the closed-form layer of WallGo (all Thermodynamics EOS functions and "
    "setExtrapolate, the junction velocities, the self-similar fluid equations, the "
    "temperature-window map, the tanh wall profile, the plasma velocity and local "
    "temperature equation inside the wall, the Grid3Scales parameters) is regenerated from "
    "the sources by the pyrx translator and Coq proves for each function, for ALL inputs and "
    "ALL unit factors lam>0, that rescaled inputs give the old result times the power of lam "
    "belonging to its dimension (p,e,w~lam^4, dp~lam^3, ddp~lam^2, cs2/alpha/velocities "
    "invariant, extrapolation coefficient a~lam^(4-mu), lengths~1/lam). A dimensional analysis "
    "of the AST of seven modules emits every place where a pure number meets a dimensionful "
    "quantity (absolute tolerances, bounds, stored values, arguments); Coq proves the emitted "
    "list equal to the reviewed list, so a new absolute dimensionful tolerance or a lost unit "
    "conversion breaks an obligation. Metamorphic half: the same model is presented to the "
    "real WallGoManager in units rescaled by lam in {1e-2..1e2} (default and tightened "
    "tolerances); dimensionless outputs must agree within tolerances derived from the "
    "configuration and dimensionful ones scale by the proved power; the proved scaling laws "
    "are also evaluated directly on the implementation's own functions.")

REVIEWED_RE = re.compile(
    r'mk_site "([^"]*)" "([^"]*)" "([^"]*)" "([^"]*)" \((?:Some \(?(-?\d+)\)?%Z|None)\) (\d+)')

SRC_FILES = ["helpers.py", "hydrodynamics.py", "equationOfMotion.py", "grid3Scales.py"]


# =====================================================================================
# end-to-end metamorphic runs (each in its own process)
# =====================================================================================

YUKAWA = dict(kind="yukawa", Tn=1.0, sigma=0.0, msq=1.0 / 64, gamma=-0.15, lam=0.10, y=0.55,
              mf=0.0375, phase1=0.05, phase2=3.375, dTscale=0.125, phiscale=12.5,
              wallThicknessGuess=10.0, meanFreePathScale=5000.0)
# the same physics written with Tn = 4 (all dimensionful numbers x 4)
YUKAWA4 = dict(kind="yukawa", Tn=4.0, sigma=0.0, msq=0.25, gamma=-0.6, lam=0.10, y=0.55,
               mf=0.15, phase1=0.2, phase2=13.5, dTscale=0.5, phiscale=50.0,
               wallThicknessGuess=10.0, meanFreePathScale=5000.0)
QUARTIC = dict(kind="quartic1", Tn=83.0, D=0.2, E=0.05, lam=0.1, T0=80.0, g=100.0,
               dTscale=2.0, phiscale=50.0, wallThicknessGuess=5.0, meanFreePathScale=50.0)
MODELS = {"yukawa": YUKAWA, "yukawa4": YUKAWA4, "quartic1": QUARTIC}

TOLSETS = {
    # name -> (config overrides)
    "default": dict(errTol=1e-3, phaseTracerTol=1e-8, hydroRtol=1e-6, hydroAtol=1e-10),
    "tight": dict(errTol=2e-4, phaseTracerTol=1e-9, hydroRtol=1e-7, hydroAtol=1e-11),
}


def build_manager(spec, unit, tols):
    import logging
    import WallGo
    from WallGo import Fields, GenericModel, Particle
    u = unit
    if spec["kind"] == "yukawa":
        p = dict(sigma=spec["sigma"] * u ** 3, msq=spec["msq"] * u ** 2,
                 gamma=spec["gamma"] * u, lam=spec["lam"], y=spec["y"], mf=spec["mf"] * u)

        class Pot(WallGo.EffectivePotential):
            fieldCount = 1
            effectivePotentialError = 1e-15

            def evaluate(self, fields, temperature):
                fields = Fields(fields)
                phi = fields.getField(0)
                f0 = -np.pi ** 2 / 90 * (1 + 4 * 7 / 8) * temperature ** 4
                sigmaEff = p["sigma"] + (p["gamma"] + 4 * p["y"] * p["mf"]) * \
                    temperature ** 2 / 24
                msqEff = p["msq"] + (p["lam"] + 4 * p["y"] ** 2) * temperature ** 2 / 24
                return np.array(f0 + sigmaEff * phi + msqEff * phi ** 2 / 2
                                + p["gamma"] * phi ** 3 / 6 + p["lam"] * phi ** 4 / 24)
        pot = Pot()
        ph1, ph2 = spec["phase1"] * u, spec["phase2"] * u

        def msq(fields):
            return (p["mf"] + p["y"] * fields.getField(0)) ** 2

        def dmsq(fields):
            return 2 * p["y"] * (p["mf"] + p["y"] * fields.getField(0))
    else:
        pot = wgmodels.quartic1(D=spec["D"], E=spec["E"], lam=spec["lam"], T0=spec["T0"],
                                g=spec["g"], unit=u)
        ex = wgmodels.quartic1_exact(**pot.params)
        ph1, ph2 = 0.0, ex["phi_broken"](spec["Tn"] * u)

        def msq(fields):
            return 0.25 * fields.getField(0) ** 2

        def dmsq(fields):
            return 0.5 * fields.getField(0)

    class Model(GenericModel):
        def __init__(self):
            self.effectivePotential = pot
            self.clearParticles()
            self.addParticle(Particle("top", index=1, msqVacuum=msq, msqDerivative=dmsq,
                                      statistics="Fermion", totalDOFs=12))

        @property
        def fieldCount(self):
            return 1

        def getEffectivePotential(self):
            return self.effectivePotential

    manager = WallGo.WallGoManager()
    manager.setVerbosity(logging.ERROR)
    manager.config.configGrid.spatialGridSize = 20
    manager.config.configEOM.maxIterations = 25
    manager.config.configEOM.errTol = tols["errTol"]
    manager.config.configThermodynamics.phaseTracerTol = tols["phaseTracerTol"]
    manager.config.configHydrodynamics.relativeTol = tols["hydroRtol"]
    manager.config.configHydrodynamics.absoluteTol = tols["hydroAtol"]
    manager.registerModel(Model())
    manager.setupThermodynamicsHydrodynamics(
        WallGo.PhaseInfo(temperature=spec["Tn"] * u, phaseLocation1=Fields([ph1]),
                         phaseLocation2=Fields([ph2])),
        WallGo.VeffDerivativeSettings(temperatureVariationScale=spec["dTscale"] * u,
                                      fieldValueVariationScale=[spec["phiscale"] * u]))
    return manager


def solve_case(job):
    """job = (model name, unit, tolerance set name, stages). Returns a dict of outputs in
    the units of the run (dimensionful ones are rescaled by the caller)."""
    name, unit, tolname, stages = job
    spec, tols = MODELS[name], TOLSETS[tolname]
    t0 = time.time()
    out = dict(model=name, unit=unit, tols=tolname)
    try:
        import WallGo
        manager = build_manager(spec, unit, tols)
        Tn = spec["Tn"] * unit
        th, hy = manager.thermodynamics, manager.hydrodynamics
        out.update(
            Tn=Tn, vJ=float(hy.vJ), alphaN=float(hy.template.alN),
            alpha=float(th.alpha(Tn)), csqHigh=float(th.csqHighT(Tn)),
            csqLow=float(th.csqLowT(Tn)), vMin=float(hy.vMin),
            pHigh=float(th.pHighT(Tn)), pLow=float(th.pLowT(Tn)),
            dpHigh=float(th.dpHighT(Tn)), ddpLow=float(th.ddpLowT(Tn)),
            eHigh=float(th.eHighT(Tn)), wLow=float(th.wLowT(Tn)),
            TMinHighT=float(th.TMinHighT), TMaxHighT=float(th.TMaxHighT),
            TMinLowT=float(th.TMinLowT), TMaxLowT=float(th.TMaxLowT),
            muMinLowT=float(th.muMinLowT), aMinLowT=float(th.aMinLowT),
            epsilonMinLowT=float(th.epsilonMinLowT),
            muMaxHighT=float(th.muMaxHighT), aMaxHighT=float(th.aMaxHighT),
            epsilonMaxHighT=float(th.epsilonMaxHighT))
        if "lte" in stages:
            out["vwLTE"] = float(manager.wallSpeedLTE())
        if "wall" in stages:
            settings = WallGo.WallSolverSettings(
                bIncludeOffEquilibrium=False,
                meanFreePathScale=spec["meanFreePathScale"],
                wallThicknessGuess=spec["wallThicknessGuess"])
            res = manager.solveWall(settings)
            out.update(success=bool(res.success), vw=float(res.wallVelocity),
                       vwLTEres=float(res.wallVelocityLTE),
                       width=float(res.wallWidths[0]),
                       offset=float(res.wallOffsets[0]),
                       Tplus=float(res.temperaturePlus), Tminus=float(res.temperatureMinus),
                       vwErr=float(res.wallVelocityError or 0.0))
    except Exception as ex:          # a run that raises is itself an output to compare
        out["raised"] = "%s: %s" % (type(ex).__name__, str(ex)[:200])
        out["trace"] = traceback.format_exc()[-1500:]
    out["seconds"] = round(time.time() - t0, 1)
    return out
