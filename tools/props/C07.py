"""C07 -- results are covariant under a change of units."""
import json
import math
import multiprocessing
import pathlib
import os
import re
import time
import traceback
from fractions import Fraction

import numpy as np

import gen_thermo
import gen_units
import pyrx
import vlib
import wgmodels

EXPLANATION = (
    "Proof half: the closed-form layer of WallGo (all Thermodynamics EOS functions and "
    "setExtrapolate, the junction velocities, the self-similar fluid equations, the "
    "temperature-window map, the tanh wall profile, the plasma velocity and local "
    "temperature equation inside the wall, the Grid3Scales parameters) is regenerated from "
    "the sources by the pyrx translator and Coq proves for each function, for ALL inputs and "
    "ALL unit factors lam>0, that rescaled inputs give the old result times the power of lam "
    "belonging to its dimension (p,e,w~lam^4, dp~lam^3, ddp~lam^2, cs2/alpha/velocities "
    "invariant, extrapolation coefficient a~lam^(4-mu), lengths~1/lam). A dimensional analysis "
    "of the AST of seven modules emits every place where a pure number meets a dimensionful "
    "quantity (absolute tolerances, bounds, stored values, arguments); Coq proves the emitted "
    "list equal to the reviewed list, so a new absolute dimensionful tolerance or a lost unit "
    "conversion breaks an obligation. Metamorphic half: the same model is presented to the "
    "real WallGoManager in units rescaled by lam in {1e-2..1e2} (default and tightened "
    "tolerances); dimensionless outputs must agree within tolerances derived from the "
    "configuration and dimensionful ones scale by the proved power; the proved scaling laws "
    "are also evaluated directly on the implementation's own functions.")

REVIEWED_RE = re.compile(
    r'mk_site "([^"]*)" "([^"]*)" "([^"]*)" "((?:[^"]|"")*)" '
    r'(?:\(Some \(?(-?\d+)\)?%Z\)|None) (\d+)')

SRC_FILES = ["helpers.py", "hydrodynamics.py", "equationOfMotion.py", "grid3Scales.py"]


# =====================================================================================
# end-to-end metamorphic runs (each in its own process)
# =====================================================================================

YUKAWA = dict(kind="yukawa", Tn=1.0, sigma=0.0, msq=1.0 / 64, gamma=-0.15, lam=0.10, y=0.55,
              mf=0.0375, phase1=0.05, phase2=3.375, dTscale=0.125, phiscale=12.5,
              wallThicknessGuess=10.0, meanFreePathScale=5000.0)
# the same physics written with Tn = 4 (all dimensionful numbers x 4)
YUKAWA4 = dict(kind="yukawa", Tn=4.0, sigma=0.0, msq=0.25, gamma=-0.6, lam=0.10, y=0.55,
               mf=0.15, phase1=0.2, phase2=13.5, dTscale=0.5, phiscale=50.0,
               wallThicknessGuess=10.0, meanFreePathScale=5000.0)
QUARTIC = dict(kind="quartic1", Tn=83.0, D=0.2, E=0.05, lam=0.1, T0=80.0, g=100.0,
               dTscale=2.0, phiscale=50.0, wallThicknessGuess=5.0, meanFreePathScale=50.0)
MODELS = {"yukawa": YUKAWA, "yukawa4": YUKAWA4, "quartic1": QUARTIC}
# NON-polynomial potential (quartic + kappa phi^4 ln((phi^2+T^2)/mu^2)): the order-4 finite-
# difference stencils are exact on polynomials of degree <= 4 for ANY step, so only a model
# like this one makes the derivative steps (variation scales) matter
MODELS["quarticlog"] = dict(kind="quartic1", Tn=1.8, D=0.2, E=0.12, lam=0.1, T0=1.0, g=100.0,
                            kappa=0.02, mu=4.5, ph2=3.5, dTscale=0.02, phiscale=1.0,
                            wallThicknessGuess=5.0, meanFreePathScale=50.0)
# two fields (xSM-like high-T potential): offsets and the multi-field code paths
MODELS["xsm"] = dict(kind="xsm", Tn=100.0, dTscale=10.0, phiscale=50.0, ph1=(0.0, 200.0),
                     ph2=(246.0, 0.0), wallThicknessGuess=5.0, meanFreePathScale=50.0)

TOLSETS = {
    # name -> (config overrides)
    "default": dict(errTol=1e-3, phaseTracerTol=1e-8, hydroRtol=1e-6, hydroAtol=1e-10),
    "tight": dict(errTol=2e-4, phaseTracerTol=1e-9, hydroRtol=1e-7, hydroAtol=1e-11),
    # the configuration as shipped (config.py defaults: nothing overridden)
    "shipped": dict(errTol=1e-3, phaseTracerTol=1e-6, hydroRtol=1e-6, hydroAtol=1e-10,
                    shipped=True),
    # documented dimensionful / unit-relative configuration knobs set to non-default values
    "knobs": dict(errTol=1e-3, phaseTracerTol=1e-8, hydroRtol=1e-6, hydroAtol=1e-10,
                  knobs=dict(phaseTracerFirstStep=0.1, thermo_tmin=0.85, thermo_tmax=1.15,
                             wallThicknessBounds=[0.2, 60.0])),
}


class Setup:
    """One model object (and optionally one manager) that can be presented in several unit
    systems in turn: `present(u)` rescales every dimensionful parameter of the SAME potential
    object; `setup(u)` calls setupThermodynamicsHydrodynamics with rescaled inputs."""

    def __init__(self, spec, tols):
        import WallGo
        from WallGo import Fields, GenericModel, Particle
        self.spec, self.tols = spec, tols
        self.unit = None
        self.manager = None
        st = self

        if spec["kind"] == "yukawa":
            p = self.p = {}

            class Pot(WallGo.EffectivePotential):
                fieldCount = 1
                effectivePotentialError = 1e-15

                def evaluate(self, fields, temperature):
                    fields = Fields(fields)
                    phi = fields.getField(0)
                    f0 = -np.pi ** 2 / 90 * (1 + 4 * 7 / 8) * temperature ** 4
                    sigmaEff = p["sigma"] + (p["gamma"] + 4 * p["y"] * p["mf"]) * \
                        temperature ** 2 / 24
                    msqEff = p["msq"] + (p["lam"] + 4 * p["y"] ** 2) * temperature ** 2 / 24
                    return np.array(f0 + sigmaEff * phi + msqEff * phi ** 2 / 2
                                    + p["gamma"] * phi ** 3 / 6 + p["lam"] * phi ** 4 / 24)
            pot = Pot()

            def msq(fields):
                return (p["mf"] + p["y"] * fields.getField(0)) ** 2

            def dmsq(fields):
                return 2 * p["y"] * (p["mf"] + p["y"] * fields.getField(0))
        elif spec["kind"] == "xsm":
            x = self.p = {"u": 1.0}

            class Pot(WallGo.EffectivePotential):
                fieldCount = 2
                effectivePotentialError = 1e-15

                def evaluate(self, fields, temperature):
                    u = x["u"]
                    fields = Fields(fields)
                    v, sg = fields.getField(0), fields.getField(1)
                    T = temperature
                    muHsq = -7812.5 * u ** 2 + 0.43706270108632417 * T ** 2
                    muSsq = -12832.2 * u ** 2 + 0.4 * T ** 2
                    lHH, lSS, lHS = 0.12909808976138543, 1.0, 0.9
                    return (0.5 * muHsq * v ** 2 + 0.25 * lHH * v ** 4 + 0.5 * muSsq * sg ** 2
                            + 0.25 * lSS * sg ** 4 + 0.25 * lHS * v ** 2 * sg ** 2
                            - 107.75 * np.pi ** 2 / 90 * T ** 4)
            pot = Pot()

            def msq(fields):
                return 0.5 * fields.getField(0) ** 2

            def dmsq(fields):
                return np.transpose([fields.getField(0), 0 * fields.getField(1)])
        else:
            q = self.p = {}

            class Pot(WallGo.EffectivePotential):
                fieldCount = 1
                effectivePotentialError = 1e-15

                def evaluate(self, fields, temperature):
                    fields = Fields(fields)
                    phi = fields.getField(0)
                    T = np.asarray(temperature)
                    V = (q["D"] * (T ** 2 - q["T0"] ** 2) * phi ** 2 - q["E"] * T * phi ** 3
                         + q["lam"] / 4 * phi ** 4 - q["g"] * math.pi ** 2 / 90 * T ** 4)
                    if q["kappa"]:
                        V = V + q["kappa"] * phi ** 4 * np.log((phi ** 2 + T ** 2) / q["mu"] ** 2)
                    return V
            pot = Pot()

            def msq(fields):
                return 0.25 * fields.getField(0) ** 2

            def dmsq(fields):
                return 0.5 * fields.getField(0)

        class Model(GenericModel):
            def __init__(self):
                self.effectivePotential = pot
                self.clearParticles()
                if spec["kind"] == "yukawa":
                    # as in Models/Yukawa: the shipped collision files are for psiL, psiR
                    for i, nm in enumerate(["psiL", "psiR"]):
                        self.addParticle(Particle(nm, index=i + 1, msqVacuum=msq,
                                                  msqDerivative=dmsq, statistics="Fermion",
                                                  totalDOFs=2))
                else:
                    self.addParticle(Particle("top", index=1, msqVacuum=msq,
                                              msqDerivative=dmsq, statistics="Fermion",
                                              totalDOFs=12))

            @property
            def fieldCount(self):
                return pot.fieldCount

            def getEffectivePotential(self):
                return self.effectivePotential
        self.pot = pot
        self.model = Model()
        self.typed = "float"

    def present(self, u):
        spec = self.spec
        self.unit = u
        if spec["kind"] == "yukawa":
            self.p.update(sigma=spec["sigma"] * u ** 3, msq=spec["msq"] * u ** 2,
                          gamma=spec["gamma"] * u, lam=spec["lam"], y=spec["y"],
                          mf=spec["mf"] * u)
            self.ph1, self.ph2 = spec["phase1"] * u, spec["phase2"] * u
        elif spec["kind"] == "xsm":
            self.p["u"] = float(u)
            self.ph1 = [c * u for c in spec["ph1"]]
            self.ph2 = [c * u for c in spec["ph2"]]
        else:
            self.p.update(D=spec["D"], E=spec["E"], lam=spec["lam"], T0=spec["T0"] * u,
                          g=spec["g"], kappa=spec.get("kappa", 0.0),
                          mu=spec.get("mu", 1.0) * u)
            if "ph2" in spec:
                self.ph1, self.ph2 = 0.0, spec["ph2"] * u
            else:
                ex = wgmodels.quartic1_exact(**{k: self.p[k] for k in
                                                ("D", "E", "lam", "T0", "g")})
                self.ph1, self.ph2 = 0.0, ex["phi_broken"](spec["Tn"] * u)

    def new_manager(self):
        import logging
        import WallGo
        tols = self.tols
        manager = WallGo.WallGoManager()
        manager.setVerbosity(logging.ERROR)
        if not tols.get("shipped"):
            manager.config.configGrid.spatialGridSize = 20
            manager.config.configEOM.maxIterations = 25
            manager.config.configEOM.errTol = tols["errTol"]
            manager.config.configThermodynamics.phaseTracerTol = tols["phaseTracerTol"]
            manager.config.configHydrodynamics.relativeTol = tols["hydroRtol"]
            manager.config.configHydrodynamics.absoluteTol = tols["hydroAtol"]
        kn = tols.get("knobs", {})
        if kn:
            manager.config.configThermodynamics.phaseTracerFirstStep = kn["phaseTracerFirstStep"]
            manager.config.configThermodynamics.tmin = kn["thermo_tmin"]
            manager.config.configThermodynamics.tmax = kn["thermo_tmax"]
            manager.config.configEOM.wallThicknessBounds = list(kn["wallThicknessBounds"])
        manager.registerModel(self.model)
        self.manager = manager
        # purity: no call may change the user's configuration object
        self.config0 = flat(manager.config, "config")
        return manager

    def setup(self, u, reuse_manager=False):
        import WallGo
        from WallGo import Fields
        spec = self.spec
        self.present(u)
        manager = self.manager if (reuse_manager and self.manager is not None) \
            else self.new_manager()
        def ty(x):
            """as a user would type the number: an int when it is one (typed == "int")"""
            if isinstance(x, (list, tuple)):
                return [ty(c) for c in x]
            if self.typed in ("int", "intall") and \
                    abs(x - round(x)) < 1e-9 * max(1.0, abs(x)):
                return int(round(x))
            return x
        nf = self.pot.fieldCount
        as_list = lambda v: list(v) if isinstance(v, (list, tuple)) else [v]
        phaseInfo = WallGo.PhaseInfo(temperature=ty(spec["Tn"] * u),
                                     phaseLocation1=Fields(ty(as_list(self.ph1))),
                                     phaseLocation2=Fields(ty(as_list(self.ph2))))
        scales = WallGo.VeffDerivativeSettings(
            temperatureVariationScale=ty(spec["dTscale"] * u) if self.typed != "int"
            else spec["dTscale"] * u,
            fieldValueVariationScale=ty([spec["phiscale"] * u] * nf)
            if self.typed != "scalar" else ty(spec["phiscale"] * u))
        b1, b2 = flat(phaseInfo, "phaseInfo"), flat(scales, "veffDerivativeScales")
        manager.setupThermodynamicsHydrodynamics(phaseInfo, scales)
        self.input_mutations = mutated(b1, phaseInfo, "phaseInfo") + \
            mutated(b2, scales, "veffDerivativeScales")
        return manager


def flat(obj, prefix=""):
    """flatten a configuration / settings object (dataclasses, lists, tuples, dicts, numpy
    arrays, Fields) into {dotted field name: plain value} for comparison"""
    import dataclasses
    out = {}
    if dataclasses.is_dataclass(obj) and not isinstance(obj, type):
        for f in dataclasses.fields(obj):
            out.update(flat(getattr(obj, f.name), prefix + "." + f.name if prefix else f.name))
    elif isinstance(obj, dict):
        for k in obj:
            out.update(flat(obj[k], "%s[%r]" % (prefix, k)))
    elif isinstance(obj, np.ndarray):
        out[prefix] = np.asarray(obj, dtype=float).reshape(-1).tolist() \
            if obj.dtype.kind in "fiub" else repr(obj)
    elif isinstance(obj, (list, tuple)):
        for i, v in enumerate(obj):
            out.update(flat(v, "%s[%d]" % (prefix, i)))
        out[prefix + ".len"] = len(obj)
    elif isinstance(obj, (int, float, str, bool)) or obj is None:
        out[prefix] = obj
    else:
        out[prefix] = repr(obj)
    return out


def mutated(before, obj, label):
    """fields of an INPUT object (flattened snapshot `before`) changed by the calls made"""
    after = flat(obj, label)
    return ["%s: %r -> %r" % (k, before.get(k), after.get(k))
            for k in sorted(set(before) | set(after)) if before.get(k) != after.get(k)]


def uninterpolated(pot, manager, Tn):
    """EOS at Tn straight from EffectivePotential.findLocalMinimum + finite differences in T
    (no tracing, no spline): what WallGoManager.initTemperatureRange hands to the template
    model to estimate the temperature range.  Direct probe of the reviewed tolerance site
    `minimize(tol=tol)` (scipy's absolute finite-difference step and gradient tolerance)."""
    from WallGo import Thermodynamics
    th0 = Thermodynamics(pot, Tn, manager.phasesAtTn.phaseLocation2,
                         manager.phasesAtTn.phaseLocation1)
    th0.freeEnergyHigh.disableAdaptiveInterpolation()
    th0.freeEnergyLow.disableAdaptiveInterpolation()
    return dict(alpha0=float(th0.alpha(Tn)), csqHigh0=float(th0.csqHighT(Tn)),
                csqLow0=float(th0.csqLowT(Tn)))


def J(model, unit, tols="default", stages=(), history=(), mode="model", hist_stages=(),
      variant=""):
    """a job for solve_case (hashable key of a run)"""
    return (model, float(unit), tols, tuple(stages), tuple(float(h) for h in history), mode,
            tuple(hist_stages), variant)


def in_use(pot, spec, u):
    """what the potential's derivative routines really use: the private array of combined
    scales, and the derivatives themselves at a fixed PHYSICAL point (rescaled)"""
    from WallGo import Fields
    out = {}
    arrs = [v for k, v in vars(pot).items() if "combinedScales" in k]
    arrs += [getattr(type(pot), k) for k in dir(type(pot)) if "combinedScales" in k
             and not callable(getattr(type(pot), k)) and not arrs]
    if arrs and arrs[0] is not None:
        a = np.asarray(arrs[0], dtype=float).reshape(-1)
        out["scaleInUsePhi"], out["scaleInUseT"] = float(a[0]), float(a[-1])
    nf = pot.fieldCount
    ph2 = spec.get("ph2", spec.get("phase2", 1.0))
    ph2 = list(ph2) if isinstance(ph2, (list, tuple)) else [ph2]
    ph1 = spec.get("ph1", spec.get("phase1", 0.0))
    ph1 = list(ph1) if isinstance(ph1, (list, tuple)) else [ph1] * nf
    if "ph2" not in spec and "phase2" not in spec:
        ph2 = [3.0 * spec["Tn"]] * nf
    pt = Fields([(0.6 * b + 0.4 * a + 0.05 * spec["Tn"]) * u for a, b in zip(ph1, ph2)])
    T = 1.03 * spec["Tn"] * u
    out["probe_dVdphi"] = float(np.asarray(pot.derivField(pt, T)).reshape(-1)[0])
    out["probe_d2Vdphi2"] = float(np.asarray(pot.deriv2Field2(pt, T)).reshape(-1)[0])
    out["probe_dVdT"] = float(np.asarray(pot.derivT(pt, T)).reshape(-1)[0])
    out["probe_d2VdphidT"] = float(np.asarray(pot.deriv2FieldT(pt, T)).reshape(-1)[0])
    return out


def synthetic_collisions(model, manager):
    """Relaxation-time collision operator C = -Gamma * identity for every pair of out-of-
    equilibrium particles, written in the format of the shipped collision files (the shipped
    ones are git-lfs pointers here).  Collision integrals are in units of T: the same files
    serve every unit system."""
    import tempfile
    import h5py
    d = tempfile.mkdtemp(prefix="c07_coll_")
    n = manager.config.configGrid.momentumGridSize
    names = [p.name for p in model.outOfEquilibriumParticles]
    for a in names:
        for b in names:
            with h5py.File(os.path.join(d, "collisions_%s_%s.hdf5" % (a, b)), "w") as f:
                md = f.create_group("metadata")
                md.attrs["Basis Size"] = n
                md.attrs["Basis Type"] = "Cardinal"
                C = np.zeros((n - 1,) * 4)
                if a == b:
                    for i in range(n - 1):
                        for j in range(n - 1):
                            C[i, j, i, j] = -3.0
                f.create_dataset("%s, %s" % (a, b), data=C)
    return pathlib.Path(d)


def patch_minimiser(variant, spec, st):
    """Counterfactuals for the tolerance site `minimize(tol=tol)` of EffectivePotential.
    findLocalMinimum: INSIDE that method (recognised by the call, not by the keywords it
    passes, so that `method="BFGS"` or `from scipy.optimize import minimize` do not matter)
    scipy's gradient-based minimiser gets a finite-difference step ("scaledstep") or a
    gradient tolerance ("scaledgtol") scaled with the units.  Returns the undo function."""
    import scipy.optimize
    import WallGo.effectivePotential as EP
    state = {"inside": 0}
    orig_min = scipy.optimize.minimize
    orig_flm = EP.EffectivePotential.findLocalMinimum
    mod_min = EP.__dict__.get("minimize")

    def minimize(f, x0, *a, **kw):
        m = kw.get("method") or (a[1] if len(a) > 1 else None)
        if state["inside"] and st.unit is not None and "bounds" not in kw and (
                m is None or str(m).upper() in ("BFGS", "CG", "L-BFGS-B")):
            o = dict(kw.pop("options", None) or {})
            if variant == "scaledstep":
                o.setdefault("eps", 1.4901161193847656e-08 * spec["phiscale"] * st.unit)
            else:
                tol = kw.pop("tol", None)
                o.setdefault("gtol", (tol if tol is not None else 1e-5) * st.unit ** 3)
            kw["options"] = o
        return orig_min(f, x0, *a, **kw)

    def findLocalMinimum(self, *a, **kw):
        state["inside"] += 1
        try:
            return orig_flm(self, *a, **kw)
        finally:
            state["inside"] -= 1
    scipy.optimize.minimize = minimize
    if mod_min is not None:
        EP.minimize = minimize
    EP.EffectivePotential.findLocalMinimum = findLocalMinimum

    def restore():
        scipy.optimize.minimize = orig_min
        if mod_min is not None:
            EP.minimize = mod_min
        EP.EffectivePotential.findLocalMinimum = orig_flm
    return restore


def run_jobs(ctx, jobs, limit):
    """every job in a FRESH process (nothing a job patches or caches can leak into another),
    at most 6 at a time, each with a wall-time limit; a job over the limit is reported as
    inconclusive (environment), never as a violation"""
    out = {}
    with multiprocessing.Pool(min(len(jobs), 6), maxtasksperchild=1) as pool:
        pend = [(j, pool.apply_async(solve_case, (j,))) for j in jobs]
        # `limit` seconds per job and per round of 6 (the jobs queue behind one another)
        t_end = time.time() + limit * math.ceil(len(jobs) / 6.0)
        for j, h in pend:
            try:
                out[j] = h.get(timeout=max(1.0, t_end - time.time()))
            except multiprocessing.TimeoutError:
                out[j] = dict(model=j[0], unit=j[1], tols=j[2], stages=list(j[3]),
                              history=list(j[4]), mode=j[5], hist_stages=list(j[6]),
                              variant=j[7], inconclusive="no result within the time limit",
                              seconds=-1)
        pool.terminate()
    return out


def solve_case(job):
    """job = J(...). Returns a dict of outputs in the units of the run (dimensionful ones are
    rescaled by the caller).
    history     : units in which the SAME model object (mode "model": fresh manager each
                  time; mode "manager": the same manager too) was set up -- and, with
                  hist_stages, solved -- before the run that is reported;
    variant     : "int" (inputs typed as integers where they are integers), "scalar" (a
                  scalar fieldValueVariationScale), "scaledstep" (counterfactual for the known
                  finding: scipy's finite-difference step in findLocalMinimum scaled with the
                  field variation scale)."""
    name, unit, tolname, stages, history, mode, hist_stages, variant = job
    spec, tols = MODELS[name], TOLSETS[tolname]
    t0 = time.time()
    out = dict(model=name, unit=unit, tols=tolname, history=list(history), mode=mode,
               hist_stages=list(hist_stages), variant=variant, stages=list(stages))
    st = None
    restore = None
    try:
        import WallGo
        st = Setup(spec, tols)
        if variant in ("int", "intall", "scalar"):
            st.typed = variant
        if variant in ("scaledstep", "scaledgtol"):
            restore = patch_minimiser(variant, spec, st)
        offeq = "offeq" in stages
        settings = WallGo.WallSolverSettings(
            bIncludeOffEquilibrium=offeq, meanFreePathScale=spec["meanFreePathScale"],
            wallThicknessGuess=spec["wallThicknessGuess"])
        s0 = flat(settings, "wallSolverSettings")

        def wall(manager, target, tag):
            res = manager.solveWall(settings)
            target["solveWallMessage" + tag] = str(getattr(res, "message", ""))[:120]
            if res.wallVelocity is None:
                raise RuntimeError("solveWall returned no wall velocity (message: %s)" % (
                    getattr(res, "message", None),))
            target.update({"success" + tag: bool(res.success),
                           "vw" + tag: float(res.wallVelocity),
                           "vwLTEres" + tag: float(res.wallVelocityLTE),
                           "width" + tag: float(res.wallWidths[0]),
                           "Tplus" + tag: float(res.temperaturePlus),
                           "Tminus" + tag: float(res.temperatureMinus)})
            if offeq:
                target["delta00" + tag] = float(np.max(np.abs(
                    res.Deltas.Delta00.coefficients)))
                te = getattr(res, "violationOfEMConservation", None)
            if len(res.wallWidths) > 1:       # offsets[0] is 0 by construction
                target.update({"width_b" + tag: float(res.wallWidths[1]),
                               "offset_b" + tag: float(res.wallOffsets[1])})

        for h in history:
            mh = st.setup(h, reuse_manager=(mode == "manager"))
            scratch = {}
            if "lte" in hist_stages:
                mh.wallSpeedLTE()
            if "wall" in hist_stages:
                wall(mh, scratch, "")
        manager = st.setup(unit, reuse_manager=(mode == "manager"))
        if offeq:
            manager.setPathToCollisionData(synthetic_collisions(st.model, manager))
        ds = st.pot.derivativeSettings
        out["dTscale"] = float(ds.temperatureVariationScale)
        out["phiscale"] = float(np.asarray(ds.fieldValueVariationScale).reshape(-1)[0])
        out.update(in_use(st.pot, spec, unit))
        Tn = spec["Tn"] * unit
        th, hy = manager.thermodynamics, manager.hydrodynamics
        out.update(
            Tn=Tn, vJ=float(hy.vJ), alphaN=float(hy.template.alN),
            alpha=float(th.alpha(Tn)), csqHigh=float(th.csqHighT(Tn)),
            csqLow=float(th.csqLowT(Tn)), vMin=float(hy.vMin),
            pHigh=float(th.pHighT(Tn)), pLow=float(th.pLowT(Tn)),
            dpHigh=float(th.dpHighT(Tn)), ddpLow=float(th.ddpLowT(Tn)),
            eHigh=float(th.eHighT(Tn)), wLow=float(th.wLowT(Tn)),
            TMinHighT=float(th.TMinHighT), TMaxHighT=float(th.TMaxHighT),
            TMinLowT=float(th.TMinLowT), TMaxLowT=float(th.TMaxLowT),
            muMinLowT=float(th.muMinLowT), aMinLowT=float(th.aMinLowT),
            epsilonMinLowT=float(th.epsilonMinLowT),
            muMaxHighT=float(th.muMaxHighT), aMaxHighT=float(th.aMaxHighT),
            epsilonMaxHighT=float(th.epsilonMaxHighT),
            # the minima located by EffectivePotential.findLocalMinimum at Tn (first field)
            phase1=float(np.asarray(manager.phasesAtTn.phaseLocation1).reshape(-1)[0]),
            phase2=float(np.asarray(manager.phasesAtTn.phaseLocation2).reshape(-1)[0]),
            **uninterpolated(st.pot, manager, Tn),
            # did the tracer stop before the requested end of the range (spinodal)?
            early=dict(TMinHighT=bool(th.freeEnergyHigh.minPossibleTemperature[1]),
                       TMaxHighT=bool(th.freeEnergyHigh.maxPossibleTemperature[1]),
                       TMinLowT=bool(th.freeEnergyLow.minPossibleTemperature[1]),
                       TMaxLowT=bool(th.freeEnergyLow.maxPossibleTemperature[1])))
        if "lte" in stages:
            out["vwLTE"] = float(manager.wallSpeedLTE())
        if "wall" in stages:
            wall(manager, out, "")
            if "wall2" in stages:
                # history: the same call again on the same manager must give the same answer
                try:
                    wall(manager, out, "2")
                except Exception as ex:
                    out["raised2"] = "%s: %s" % (type(ex).__name__, str(ex)[:200])
        if "deton" in stages:
            try:
                rs = manager.solveWallDetonation(settings)
                out["nDeton"] = len(rs)
                out["detonTypes"] = sorted(str(getattr(r, "solutionType", "")) for r in rs)
                vws = sorted(float(r.wallVelocity) for r in rs if r.wallVelocity is not None)
                if vws:
                    out["vwDeton"] = vws[0]
            except Exception as ex:
                out["raisedDeton"] = "%s: %s" % (type(ex).__name__, str(ex)[:200])
        st.input_mutations += mutated(s0, settings, "wallSolverSettings")
        out["mutated"] = mutated(st.config0, manager.config, "config") + st.input_mutations
    except Exception as ex:          # a run that raises is itself an output to compare
        out["raised"] = "%s: %s" % (type(ex).__name__, str(ex)[:200])
        out["trace"] = traceback.format_exc()[-1500:]
        try:
            out["mutated"] = mutated(st.config0, st.manager.config, "config") + \
                getattr(st, "input_mutations", [])
        except Exception:
            pass
    finally:
        if restore is not None:
            restore()
    out["seconds"] = round(time.time() - t0, 1)
    return out


MODELS["quarticwide"] = dict(kind="quartic1", Tn=1.8, D=0.2, E=0.12, lam=0.1, T0=1.0, g=100.0,
                             dTscale=0.02, phiscale=1.0, wallThicknessGuess=5.0,
                             meanFreePathScale=50.0)
# Is the Jouguet point inside the temperature range over which the low-T phase exists?
# (Yukawa: the low-T phase ends at 1.133 Tn, below the Jouguet T-, so vJ there is computed
# from the extrapolated EOS and is outside the property's quantifier.)
JOUGUET_INSIDE = {"yukawa": False, "yukawa4": False}
# Declared ends of phases INSIDE the range the solver asks for (in units of Tn): the only
# places where the hop of known finding C11 can be recognised.  A run that stops anywhere
# else is NOT excused.
SPINODAL = {"yukawa": {"TMaxLowT": 1.1335}, "yukawa4": {"TMaxLowT": 1.1335}}

# quantity -> mass dimension
DIMLESS = ["vw2", "vw", "vwLTE", "vwLTEres", "vJ", "alphaN", "alpha", "csqHigh", "csqLow", "vMin",
           "offset_b", "offset_b2", "muMinLowT", "vwDeton"]
DIMFUL = {"width2": -1, "Tplus2": 1, "Tminus2": 1, "width": -1, "Tplus": 1, "Tminus": 1,
          "width_b": -1, "width_b2": -1, "pHigh": 4, "pLow": 4, "dpHigh": 3,
          "ddpLow": 2, "eHigh": 4, "wLow": 4, "TMinLowT": 1, "TMinHighT": 1,
          "TMaxHighT": 1, "TMaxLowT": 1,
          # the finite-difference / tracer scales: as configured and as really in use
          "dTscale": 1, "phiscale": 1, "scaleInUsePhi": 1, "scaleInUseT": 1,
          "delta00": 2,           # out-of-equilibrium Delta00 (max over the grid)
          # the potential's own derivative routines at a fixed physical point
          "probe_dVdphi": 3, "probe_d2Vdphi2": 2, "probe_dVdT": 3, "probe_d2VdphidT": 2}
ABSOLUTE = ("vw", "vw2", "offset_b", "offset_b2", "vwDeton")
INPUTS = ("dTscale", "phiscale", "scaleInUsePhi", "scaleInUseT")
# what the un-interpolated EOS (known finding site:findLocalMinimum-absolute-step) can reach:
# it only chooses the traced range, hence the tables and what is computed from them alone
EOS_Q = {"alphaN", "alpha", "csqHigh", "csqLow", "vJ", "vMin", "vwLTE", "muMinLowT", "pHigh",
         "pLow", "dpHigh", "ddpLow", "eHigh", "wLow", "TMinLowT", "TMinHighT", "TMaxLowT",
         "TMaxHighT"}
PROBE_TOL = 1e-4


def tolerance_for(q, tols):
    """tolerances derived from the configuration of the run (relative unless in ABSOLUTE)"""
    eT, pT, hR = tols["errTol"], tols["phaseTracerTol"], tols["hydroRtol"]
    # EOS-stage outputs: the tables are traced to phaseTracerTol and every hydrodynamic root /
    # shock integration is solved to the relative tolerance hR: one decade of head room each
    # (measured on the unchanged tree at phaseTracerTol 1e-8: <= 1e-8)
    eos = max(10 * pT, 10 * hR)
    if q.endswith("2") and q[:-1] in ("vw", "width", "Tplus", "Tminus", "width_b", "offset_b"):
        q = q[:-1]               # second call on the same manager: same tolerances
    if q in ("vw", "vwDeton", "vwLTEres"):
        return 3 * eT if q != "vwLTEres" else eos   # root_scalar(xtol=errTol) in both runs
    if q in ("Tplus", "Tminus"):
        return 2 * eT
    if q in ("width", "width_b", "offset_b"):
        return max(10 * eT, 5e-3)
    if q in ("vwLTE", "vJ", "vMin"):
        return eos
    if q == "delta00":
        return 5e-2              # max over a 20-point grid of a quantity known to ~ errTol
    if q in INPUTS:
        return 1e-12             # inputs: must arrive unchanged
    if q.startswith("probe_"):
        return 1e-7              # order-4 stencil with a step proportional to the scale
    if q in ("TMinLowT", "TMinHighT"):
        return 1e-2              # end of the traced range: set by the tracer's step
    if q in ("TMaxLowT", "TMaxHighT"):
        # upper ends come from the template-model estimate times the configured safety
        # factor (configThermodynamics.tmax = 1.2): half of that 20% margin
        return 0.1
    if q == "muMinLowT":
        return 1e-3              # extrapolation: second derivative at the range end
    if q in ("alphaN", "alpha", "csqHigh", "csqLow", "ddpLow"):
        # contain SECOND temperature derivatives of the interpolated tables, whose accuracy
        # is not set by phaseTracerTol alone: floor MEASURED on the unchanged tree (largest
        # deviation 8.9e-6, quarticlog x10 at tightened tolerances), not derived
        return max(eos, 3e-5)
    return eos


def describe(r):
    s = "units x%g" % r["unit"]
    if r.get("variant"):
        s += " (%s)" % r["variant"]
    if r.get("history"):
        s += " after %s in units %s on the same %s" % (
            "solving" if r.get("hist_stages") else "a set-up",
            ",".join("x%g" % h for h in r["history"]), r["mode"])
    return s


def replay_dict(ref, run, **kw):
    return dict(kind="metamorphic", model=run["model"], tols=run["tols"],
                units=[ref["unit"], run["unit"]], history=run.get("history", []),
                mode=run.get("mode", "model"), hist_stages=run.get("hist_stages", []),
                variant=run.get("variant", ""), ref_variant=ref.get("variant", ""),
                stages=run.get("stages", []), **kw)


def deviations(ref, run, tols, skip=()):
    """[(q, a, b, dimension, deviation, tolerance)] for every compared quantity that deviates"""
    name, lam = run["model"], run["unit"] / ref["unit"]
    out = []
    for q in DIMLESS + list(DIMFUL):
        if q not in ref or q not in run or q in skip:
            continue
        if q == "vJ" and not JOUGUET_INSIDE.get(name, True):
            continue
        d = DIMFUL.get(q, 0)
        a, b = ref[q], run[q] / lam ** d
        tol = tolerance_for(q, tols)
        dev = abs(a - b) if q in ABSOLUTE else abs(a - b) / max(abs(a), 1e-300)
        if not dev <= tol:
            out.append((q, a, b, d, dev, tol))
    return out


def compare_runs(ctx, ref, run, tols, tolname, counterfactual=None):
    """dimensionless outputs equal, dimensionful ones scaled by lam^d.  `counterfactual(run)`
    re-runs `run` with scipy's finite-difference step in findLocalMinimum scaled with the
    field variation scale (class rule of known finding site:findLocalMinimum-absolute-step)."""
    name, lam = run["model"], run["unit"] / ref["unit"]
    label = "%s [%s tolerances]" % (name, tolname)
    pair = "%s vs %s" % (describe(ref), describe(run))
    # ---- failures are outputs too
    if ("raised" in ref) != ("raised" in run):
        r, o = (run, ref) if "raised" in run else (ref, run)
        ctx.fail_input("%s: the run in %s raises (%s) while the run in %s succeeds" % (
            label, describe(r), r["raised"], describe(o)),
            replay_dict(ref, run, quantity="raises", raised=r["raised"]),
            key="typed:%s:raises" % run["variant"] if run.get("variant") in (
                "int", "intall", "scalar") else "metamorphic:raises")
        return ["raises"]
    if "raised" in ref:
        # the harness's models solve on the unchanged code: a pair that fails in BOTH unit
        # systems is not "covariant", it is a failing input of its own
        ctx.fail_input("%s: both runs raise: %s: %s | %s: %s" % (
            label, describe(ref), ref["raised"], describe(run), run["raised"]),
            replay_dict(ref, run, quantity="both-raise", raised=[ref["raised"], run["raised"]]),
            key="metamorphic:both-raise")
        return ["both-raise"]
    bad, skip = [], set()
    for k in ("raised2", "raisedDeton"):
        if (k in ref) != (k in run):
            bad.append(k)
            ctx.fail_input("%s: %s in one unit system only (%s)" % (
                label, k, ref.get(k) or run.get(k)),
                replay_dict(ref, run, quantity=k), key="metamorphic:" + k)
    for k in ("nDeton", "detonTypes", "success", "success2"):
        if k in ref and k in run and ref[k] != run[k]:
            bad.append(k)
            ctx.fail_input("%s: %s = %r in %s but %r in %s" % (
                label, k, ref[k], describe(ref), run[k], describe(run)),
                replay_dict(ref, run, quantity=k), key="metamorphic:" + k)
    # ---- premise of the property: both phases exist over the range the solver asks for.
    # At a DECLARED spinodal inside that range the tracer either stops (and says so) or hops
    # onto the other phase (known finding C11 trace-hops-phase-at-spinodal); which of the two
    # is not unit independent.  Only the quantities that depend on the table beyond the
    # spinodal are then left out; everything else is still compared.
    for end, x in SPINODAL.get(name, {}).items():
        a, b = ref[end] / ref["Tn"], run[end] / run["Tn"]
        short, long_ = (ref, run) if a < b else (run, ref)
        lo, hi = min(a, b), max(a, b)
        if abs(lo - x) <= 0.02 * x and hi > 1.1 * x and short["early"].get(end) \
                and not long_["early"].get(end):
            ctx.count("metamorphic_hop_at_declared_spinodal", bucket="%s:%s" % (name, end))
            ctx.log("  hop at the declared spinodal (known finding C11): %s/Tn = %.4f vs %.4f "
                    "(%s); vJ, vMin and the range ends are not compared for this pair" % (
                        end, a, b, pair))
            skip |= {"vJ", "vMin", "TMaxLowT", "TMaxHighT", "TMinLowT", "TMinHighT"}
    devs = deviations(ref, run, tols, skip)
    ctx.count("metamorphic_compare", bucket="%d quantities" % len(
        [q for q in DIMLESS + list(DIMFUL) if q in ref and q in run and q not in skip]))
    # ---- known finding site:findLocalMinimum-absolute-step, class rule:
    #  (1) the EOS at Tn computed without tracing/spline deviates by >= 1e-4 in this pair,
    #  (2) the traced ranges differ, (3) only EOS-stage quantities are concerned, and
    #  (4) MECHANISM: the deviations vanish when the run is repeated with scipy's absolute
    #      finite-difference step in findLocalMinimum scaled with the field variation scale.
    probe = max(abs(ref[k] - run[k]) / abs(ref[k]) for k in ("alpha0", "csqHigh0", "csqLow0"))
    ranges_differ = any(
        abs(ref[e] / ref["Tn"] - run[e] / run["Tn"]) > 0.02 * abs(ref[e] / ref["Tn"])
        for e in ("TMinHighT", "TMaxHighT", "TMinLowT", "TMaxLowT"))
    ctx.count("probe_findLocalMinimum",
              bucket="dev<1e-4" if probe < PROBE_TOL else "dev>=1e-4")
    cand = [d for d in devs if d[0] in EOS_Q]
    attributed, key_of = [], None
    # two recorded mechanisms of the site `minimize(tol=tol)`, each with its counterfactual:
    #   large units: absolute finite-difference STEP   (needs: traced ranges differ)
    #   small units: absolute GRADIENT tolerance gtol  (tol or 1e-5 is met at the start point)
    # (the step mechanism also perturbs second derivatives of the tables at the 1e-5 level in
    # large units without moving the traced range: visible at tightened tolerances; the
    # counterfactual, not the range criterion, is what identifies it)
    mech = [("site:findLocalMinimum-absolute-step", "scaledstep", lam > 1),
            ("site:findLocalMinimum-absolute-gtol", "scaledgtol", lam < 1)]
    for key, variant, pre in mech:
        if not (cand and pre and probe >= PROBE_TOL and counterfactual is not None
                and not run.get("variant")):
            continue
        cf = counterfactual(run, variant)
        if "raised" in cf or "inconclusive" in cf:
            continue
        still = {d[0] for d in deviations(ref, cf, tols, skip)}
        attributed = [d for d in cand if d[0] not in still]
        ctx.log("  counterfactual %s for %s: %s%s" % (
            variant, describe(run), "removes " + ",".join(d[0] for d in attributed)
            if attributed else "removes nothing",
            "; remains: " + ",".join(sorted(still)) if still else ""))
        if attributed:
            key_of = (key, variant)
            break
    for q, a, b, d, dev, tol in devs:
        bad.append(q)
        if (q, a, b, d, dev, tol) in attributed:
            continue
        ctx.fail_input(
            "%s: %s = %.10g in %s but %.10g (rescaled by lam^%d) in %s: deviation %.3g > %.3g"
            % (label, q, a, describe(ref), b, d, describe(run), dev, tol),
            replay_dict(ref, run, quantity=q, reference=a, rescaled=b, dimension=d,
                        deviation=dev, tolerance=tol), key="metamorphic:%s" % q)
    if attributed:
        ctx.fail_input(
            "%s: the EOS at Tn computed without tracing/interpolation (findLocalMinimum + "
            "finite differences; what initTemperatureRange feeds the template model) deviates "
            "by %.2g between %s; downstream %s -- all of which vanish when scipy's absolute %s "
            "in findLocalMinimum is scaled with the units (counterfactual %s)" % (
                label, probe, pair,
                "; ".join("%s %.7g vs %.7g (dev %.2g > %.2g)" % (q, a, b, dev, tol)
                          for q, a, b, d, dev, tol in attributed),
                "finite-difference step" if key_of[1] == "scaledstep" else
                "gradient tolerance", key_of[1]),
            replay_dict(ref, run, quantity="findLocalMinimum", probe=probe,
                        downstream=[x[0] for x in attributed], counterfactual=key_of[1]),
            key=key_of[0])
    return bad


# =====================================================================================
# the proved scaling laws evaluated on the implementation's own functions
# =====================================================================================

class StubEos:
    """p = a T^4 / 3 - eps  per phase (exact bag-like EOS)"""

    def __init__(self, aH, epsH, aL, epsL, nuL):
        self.c = (aH, epsH, aL, epsL, nuL)

    def pHighT(self, T): return self.c[0] * T ** 4 / 3 - self.c[1]
    def eHighT(self, T): return self.c[0] * T ** 4 + self.c[1]
    def pLowT(self, T): return self.c[2] * T ** 4 / 3 - self.c[3]
    def eLowT(self, T): return self.c[2] * T ** 4 + self.c[3]
    def csqHighT(self, T): return 1 / 3 + 0 * T
    def csqLowT(self, T): return self.c[4] + 0 * T

    def scaled(self, lam):
        aH, eH, aL, eL, nu = self.c
        return StubEos(aH, eH * lam ** 4, aL, eL * lam ** 4, nu)


class StubPotential:
    """V = k2 T^2 phi^2 - k3 T phi^3 + k4 phi^4 - g T^4 (homogeneous of degree 4)"""

    def __init__(self, k2, k3, k4, g):
        self.k = (k2, k3, k4, g)

    def evaluate(self, fields, T):
        k2, k3, k4, g = self.k
        phi = np.asarray(fields).reshape(-1)[0]
        return k2 * T ** 2 * phi ** 2 - k3 * T * phi ** 3 + k4 * phi ** 4 - g * T ** 4

    def derivT(self, fields, T):
        k2, k3, k4, g = self.k
        phi = np.asarray(fields).reshape(-1)[0]
        return 2 * k2 * T * phi ** 2 - k3 * phi ** 3 - 4 * g * T ** 3


def rel(a, b):
    return abs(a - b) / max(abs(a), abs(b), 1e-300)


def direct_formula_checks(ctx, n):
    import WallGo
    from WallGo import Fields, WallParams
    from WallGo.equationOfMotion import EOM
    from WallGo.hydrodynamics import Hydrodynamics
    from WallGo.grid3Scales import Grid3Scales
    rng = ctx.rng

    def fail(what, case, key):
        ctx.fail_input(what, dict(kind="formula", case=case), key="formula:" + key)

    for i in range(n):
        lam = rng.choice([1e-2, 1e-1, 0.5, 3.0, 10.0, 100.0])
        # ---- Thermodynamics with analytic free energies (the class under test is real)
        cH = [Fraction(rng.randint(-20, 20)), Fraction(0), Fraction(rng.randint(0, 24), 2),
              -Fraction(rng.randint(0, 8), 8), -Fraction(rng.randint(4, 40), 4)]
        cL = [Fraction(rng.randint(-20, 20)), Fraction(0), Fraction(rng.randint(0, 24), 2),
              -Fraction(rng.randint(0, 8), 8), -Fraction(rng.randint(4, 40), 4)]

        def rng_for(c):
            lo = math.sqrt(float(c[2] / -c[4]) + 0.25) + 0.2 + rng.random()
            return lo, lo + 0.3 + 3 * rng.random()
        rH, rL = rng_for(cH), rng_for(cL)
        th = wgmodels.stub_thermodynamics(cH, rH, cL, rL, rH[0])
        th.setExtrapolate()
        sc = lambda c: [float(k) * lam ** (4 - j) for j, k in enumerate(c)]
        th2 = wgmodels.stub_thermodynamics(sc(cH), [lam * x for x in rH], sc(cL),
                                           [lam * x for x in rL], lam * rH[0])
        th2.setExtrapolate()
        case = dict(lam=lam, cHigh=[str(k) for k in cH], cLow=[str(k) for k in cL],
                    rangeHigh=rH, rangeLow=rL)
        for ph, r in (("High", rH), ("Low", rL)):
            for T in (0.3 * r[0], 0.9 * r[0], r[0] + 0.4 * (r[1] - r[0]), 1.1 * r[1],
                      4.0 * r[1]):
                for fn, d in (("p", 4), ("dp", 3), ("ddp", 2), ("e", 4), ("w", 4), ("csq", 0)):
                    a = float(getattr(th, fn + ph + "T")(T))
                    b = float(getattr(th2, fn + ph + "T")(lam * T)) / lam ** d
                    ctx.count("formula_thermo")
                    # p and e contain the difference A T^mu/3 - eps: compare against |w|
                    scale = abs(float(getattr(th, "w" + ph + "T")(T))) if d == 4 else abs(a)
                    if abs(a - b) > 1e-9 * max(scale, abs(a), 1e-300):
                        fail("%s%sT does not scale like lam^%d: %r vs %r (lam=%g, T=%g)" % (
                            fn, ph, d, a, b, lam, T), dict(case, T=T, fn=fn + ph + "T"),
                            "thermo:" + fn)
        Tm = 0.5 * (max(rH[0], rL[0]) + min(rH[1], rL[1]))
        a, b = float(th.alpha(Tm)), float(th2.alpha(lam * Tm))
        ctx.count("formula_thermo")
        if abs(a - b) > 1e-9 * max(abs(a), 1e-6):
            fail("alpha(T) is not invariant: %r vs %r" % (a, b), dict(case, T=Tm),
                 "thermo:alpha")
        for at, d in (("muMinHighT", 0), ("muMaxLowT", 0), ("epsilonMinLowT", 4),
                      ("epsilonMaxHighT", 4)):
            a, b = getattr(th, at), getattr(th2, at) / lam ** d
            ctx.count("formula_thermo")
            if rel(a, b) > 1e-9 and abs(a - b) > 1e-9 * abs(float(th.wHighT(rH[1]))):
                fail("%s does not scale like lam^%d: %r vs %r" % (at, d, a, b), case,
                     "thermo:" + at)
        for at, mu in (("aMinHighT", "muMinHighT"), ("aMaxLowT", "muMaxLowT")):
            a, b = getattr(th, at), getattr(th2, at) / lam ** (4 - getattr(th, mu))
            ctx.count("formula_thermo")
            if rel(a, b) > 1e-8:
                fail("%s does not scale like lam^(4-mu): %r vs %r" % (at, a, b), case,
                     "thermo:" + at)
        # ---- Hydrodynamics formulas on a bag-like EOS
        eos = StubEos(rng.uniform(20, 40), rng.uniform(0.5, 3), rng.uniform(10, 19),
                      rng.uniform(0, 0.4), rng.uniform(0.2, 0.33))
        hy = object.__new__(Hydrodynamics)
        hy.thermodynamics = eos
        hy.TMinHydro, hy.TMaxHydro = 0.3, 7.0
        hy2 = object.__new__(Hydrodynamics)
        hy2.thermodynamics = eos.scaled(lam)
        hy2.TMinHydro, hy2.TMaxHydro = 0.3 * lam, 7.0 * lam
        Tp, Tm = rng.uniform(0.8, 2), rng.uniform(0.8, 2)
        case = dict(lam=lam, eos=eos.c, Tp=Tp, Tm=Tm)
        a, b = hy.vpvmAndvpovm(Tp, Tm), hy2.vpvmAndvpovm(lam * Tp, lam * Tm)
        ctx.count("formula_hydro")
        if rel(a[0], b[0]) > 1e-9 or rel(a[1], b[1]) > 1e-9:
            fail("vpvmAndvpovm not invariant: %r vs %r" % (a, b), case, "vpvm")
        v, xi = rng.uniform(0.05, 0.6), rng.uniform(0.62, 0.95)
        for sw in (True, False):
            a, b = hy.shockDE(v, [xi, Tp], sw), hy2.shockDE(v, [xi, lam * Tp], sw)
            ctx.count("formula_hydro")
            if rel(a[0], b[0]) > 1e-9 or rel(a[1], b[1] / lam) > 1e-9:
                fail("shockDE does not scale as (1, lam): %r vs %r" % (a, b),
                     dict(case, v=v, xi=xi, shockWave=sw), "shockDE")
        a, b = hy._mappingT([Tp, Tm]), hy2._mappingT([lam * Tp, lam * Tm])
        ia, ib = hy._inverseMappingT(a), hy2._inverseMappingT(a)
        ctx.count("formula_hydro")
        if max(rel(a[0], b[0]), rel(a[1], b[1])) > 1e-9 or \
                max(rel(ia[0], ib[0] / lam), rel(ia[1], ib[1] / lam)) > 1e-9:
            fail("_mappingT/_inverseMappingT not covariant: %r %r %r %r" % (a, b, ia, ib),
                 case, "mappingT")
        # ---- EOM formulas on a homogeneous potential (one field)
        pot = StubPotential(rng.uniform(0.1, 0.4), rng.uniform(0.01, 0.1),
                            rng.uniform(0.02, 0.2), rng.uniform(5, 30))

        class PotL(StubPotential):
            def evaluate(self, f, T): return lam ** 4 * pot.evaluate(np.asarray(f) / lam, T / lam)
            def derivT(self, f, T): return lam ** 3 * pot.derivT(np.asarray(f) / lam, T / lam)
        eom, eom2 = object.__new__(EOM), object.__new__(EOM)
        eom.thermo = type("T", (), {"effectivePotential": pot})()
        eom2.thermo = type("T", (), {"effectivePotential": PotL(0, 0, 0, 0)})()
        w, off, z = rng.uniform(2, 9), rng.uniform(-1, 1), rng.uniform(-10, 10)
        vL, vH = rng.uniform(1, 3), rng.uniform(0, 0.2)
        wp = WallParams(widths=np.array([w]), offsets=np.array([off]))
        wp2 = WallParams(widths=np.array([w / lam]), offsets=np.array([off]))
        f1, d1 = eom.wallProfile(z, Fields([vL]), Fields([vH]), wp)
        f2, d2 = eom2.wallProfile(z / lam, Fields([lam * vL]), Fields([lam * vH]), wp2)
        f1, d1, f2, d2 = (float(np.asarray(x).reshape(-1)[0]) for x in (f1, d1, f2, d2))
        case = dict(lam=lam, pot=pot.k, w=w, off=off, z=z, vL=vL, vH=vH)
        ctx.count("formula_eom")
        if rel(f1, f2 / lam) > 1e-9 or rel(d1, d2 / lam ** 2) > 1e-9:
            fail("wallProfile does not scale as (lam, lam^2): %r %r vs %r %r" % (
                f1, d1, f2, d2), case, "wallProfile")
        T, s1, s2 = rng.uniform(0.8, 1.5), rng.uniform(-30, -1), rng.uniform(1, 30)
        fp = Fields([f1]).getFieldPoint(0)
        fp2 = Fields([lam * f1]).getFieldPoint(0)
        dp1 = Fields([d1]).getFieldPoint(0)
        dp2 = Fields([lam ** 2 * d1]).getFieldPoint(0)
        a = eom.plasmaVelocity(fp, T, s1)
        b = eom2.plasmaVelocity(fp2, lam * T, lam ** 4 * s1)
        ctx.count("formula_eom")
        if rel(a, b) > 1e-9:
            fail("plasmaVelocity not invariant: %r vs %r" % (a, b), dict(case, T=T, s1=s1),
                 "plasmaVelocity")
        a = eom.temperatureProfileEqLHS(fp, dp1, T, s1, s2)
        b = eom2.temperatureProfileEqLHS(fp2, dp2, lam * T, lam ** 4 * s1, lam ** 4 * s2)
        ctx.count("formula_eom")
        if abs(a - b / lam ** 4) > 1e-9 * (abs(a) + abs(s1) + abs(s2)):
            fail("temperatureProfileEqLHS does not scale like lam^4: %r vs %r" % (a, b),
                 dict(case, T=T, s1=s1, s2=s2), "temperatureProfileEqLHS")
        # ---- Grid3Scales: parameters and the position map
        L = rng.uniform(1, 8)
        r, sm = rng.choice([0.3, 0.5, 0.7]), rng.choice([0.05, 0.1, 0.3])
        tin = L * (0.5 + sm) / r * rng.uniform(1.2, 6)
        tout = L * (0.5 + sm) / r * rng.uniform(1.2, 6)
        c0 = rng.uniform(-2, 2)
        g1 = Grid3Scales(12, 5, tin, tout, L, 1.0, r, sm, c0)
        g2 = Grid3Scales(12, 5, tin / lam, tout / lam, L / lam, lam, r, sm, c0 / lam)
        case = dict(lam=lam, tailIn=tin, tailOut=tout, L=L, r=r, smoothing=sm, center=c0)
        ctx.count("formula_grid")
        if rel(g1.aIn, g2.aIn) > 1e-9 or rel(g1.aOut, g2.aOut) > 1e-9:
            fail("Grid3Scales aIn/aOut not invariant", case, "grid:a")
        chi = np.array([-0.9, -0.4, 0.1, 0.6, 0.95])
        z1, pz1, pp1 = g1.decompactify(chi, chi, chi * 0.5 + 0.5 - 1e-3)
        z2, pz2, pp2 = g2.decompactify(chi, chi, chi * 0.5 + 0.5 - 1e-3)
        if np.max(np.abs(z1 - z2 * lam)) > 1e-9 * np.max(np.abs(z1)) or \
                np.max(np.abs(pz1 - pz2 / lam)) > 1e-9 * np.max(np.abs(pz1)) or \
                np.max(np.abs(pp1 - pp2 / lam)) > 1e-9 * np.max(np.abs(pp1)):
            fail("Grid3Scales.decompactify not covariant (z~1/lam, p~lam)", case, "grid:map")
        if i == 0:
            ctx.sample(dict(formula_case=case))


# =====================================================================================
# certified correspondence: generated definitions vs the implementation
# =====================================================================================

def dy(x, bits=20):
    """nearby dyadic rational (exactly representable on both sides)"""
    return Fraction(round(x * 2 ** bits), 2 ** bits)


def corr_file(rng, ncases):
    from WallGo import Fields, WallParams
    from WallGo.equationOfMotion import EOM
    from WallGo.hydrodynamics import Hydrodynamics
    from WallGo.grid3Scales import Grid3Scales
    R = pyrx.rlit
    hdr = """From Coq Require Import Reals Lra.
From Interval Require Import Tactic.
From WG Require Import Lib.NumpySem.
From GenC07 Require Import UnitsGen.
Local Open Scope R_scope.
"""
    goals, rows = [], []

    def goal(term, y, pre=""):
        q = Fraction(y)
        tol = abs(q) * Fraction(1, 10 ** 9) + Fraction(1, 10 ** 12)
        goals.append("Goal Rabs (%s - %s) <= %s.\nProof. %s interval with (i_prec 90). Qed." % (
            term, R(q), R(tol), pre))
        rows.append((term[:60], float(y)))

    for k in range(ncases):
        aH, eH, aL, eL = (dy(rng.uniform(20, 40), 8), dy(rng.uniform(0.5, 3), 8),
                          dy(rng.uniform(10, 19), 8), dy(rng.uniform(0, 0.4), 8))
        nu = dy(rng.uniform(0.2, 0.33), 8)
        eos = StubEos(*(float(x) for x in (aH, eH, aL, eL, nu)))
        hy = object.__new__(Hydrodynamics)
        hy.thermodynamics = eos
        tmin, tmax = dy(rng.uniform(0.2, 0.5), 6), dy(rng.uniform(5, 9), 6)
        hy.TMinHydro, hy.TMaxHydro = float(tmin), float(tmax)
        env = "hy%d" % k
        tnuc = dy(rng.uniform(0.9, 1.6), 8)
        hy.Tnucl = float(tnuc)
        eos.dpLowT = lambda T, c=eos.c: 4 * c[2] * T ** 3 / 3
        eos.deLowT = lambda T, c=eos.c: 4 * c[2] * T ** 3
        hdr += ("Definition %s := {| hy_TMaxHydro := %s; hy_TMinHydro := %s;\n"
                "  hy_Tnucl := %s; th_dpLowT := fun T => 4 * %s * T ^ 3 / 3; "
                "th_deLowT := fun T => 4 * %s * T ^ 3;\n"
                "  th_pHighT := fun T => %s * T ^ 4 / 3 - %s; th_pLowT := fun T => %s * T ^ 4 / 3 - %s;\n"
                "  th_eHighT := fun T => %s * T ^ 4 + %s; th_eLowT := fun T => %s * T ^ 4 + %s;\n"
                "  th_csqHighT := fun T => 1 / 3 + 0 * T; th_csqLowT := fun T => %s + 0 * T |}.\n" % (
                    env, R(tmax), R(tmin), R(tnuc), R(aL), R(aL), R(aH), R(eH), R(aL), R(eL),
                    R(aH), R(eH), R(aL), R(eL), R(nu)))
        # the function whose root is the Jouguet point (closure of findJouguetVelocity):
        # evaluated on the implementation by the same arithmetic on the stub EOS
        tmj = dy(rng.uniform(1.0, 2.0), 8)
        # the implementation's own closure, captured from the call it makes to root_scalar
        import WallGo.hydrodynamics as _H

        class _Captured(Exception):
            pass
        cap, orig_rs = {}, _H.root_scalar

        def fake_root_scalar(f, *a, **k):
            cap["f"] = f
            raise _Captured()
        hy.TMaxLowT, hy.rtol, hy.atol = float(tmax), 1e-6, 1e-10
        _H.root_scalar = fake_root_scalar
        try:
            hy.findJouguetVelocity()
        except _Captured:
            pass
        finally:
            _H.root_scalar = orig_rs
        val = float(cap["f"](float(tmj)))
        goal("hy_vpDerivNum %s %s" % (env, R(tmj)), val,
             "unfold hy_vpDerivNum, %s; cbn [th_pHighT th_pLowT th_eHighT th_eLowT th_dpLowT "
             "th_deLowT hy_Tnucl];" % env)
        Tp, Tm = dy(rng.uniform(0.8, 2), 8), dy(rng.uniform(0.8, 2), 8)
        vpvm, vpovm = hy.vpvmAndvpovm(float(Tp), float(Tm))
        # e+ > e- for these coefficient ranges (aH T^4 + eH vs aL T^4 + eL) is decided by
        # the implementation; the model takes the same branch iff e+ <> e-
        pre = ("unfold hy_vpvmAndvpovm, %s; cbn [th_pHighT th_pLowT th_eHighT th_eLowT fst snd]; "
               "try match goal with |- context [Req_EM_T ?a ?b] => destruct (Req_EM_T a b) as [E|E]; "
               "[exfalso; revert E; apply %s; interval|] end; cbn [negb fst snd];" % (
                   env, "Rgt_not_eq" if eos.eHighT(float(Tp)) > eos.eLowT(float(Tm))
                   else "Rlt_not_eq"))
        goal("fst (hy_vpvmAndvpovm %s %s %s)" % (env, R(Tp), R(Tm)), vpvm, pre)
        goal("snd (hy_vpvmAndvpovm %s %s %s)" % (env, R(Tp), R(Tm)), vpovm, pre)
        v, xi = dy(rng.uniform(0.05, 0.6), 8), dy(rng.uniform(0.62, 0.95), 8)
        for sw, nm in ((True, "hy_shockDE_shock"), (False, "hy_shockDE_rarefaction")):
            a = hy.shockDE(float(v), [float(xi), float(Tp)], sw)
            pre = ("unfold %s, hp_gammaSq, hp_boostVelocity, %s; cbn [th_csqHighT th_csqLowT "
                   "fst snd];" % (nm, env))
            goal("fst (%s %s %s (%s, %s) %s)" % (nm, env, R(v), R(xi), R(Tp),
                                                  "true" if sw else "false"), a[0], pre)
            goal("snd (%s %s %s (%s, %s) %s)" % (nm, env, R(v), R(xi), R(Tp),
                                                  "true" if sw else "false"), a[1], pre)
        m = hy._mappingT([float(Tp), float(Tm)])
        pre = "unfold hy_mappingT, %s; cbn [hy_TMaxHydro hy_TMinHydro fst snd];" % env
        goal("fst (hy_mappingT %s (%s, %s))" % (env, R(Tp), R(Tm)), m[0], pre)
        goal("snd (hy_mappingT %s (%s, %s))" % (env, R(Tp), R(Tm)), m[1], pre)
        x, y = dy(rng.uniform(-3, 3), 8), dy(rng.uniform(-3, 3), 8)
        im = hy._inverseMappingT([float(x), float(y)])
        pre = "unfold hy_inverseMappingT, %s; cbn [hy_TMaxHydro hy_TMinHydro fst snd];" % env
        goal("fst (hy_inverseMappingT %s (%s, %s))" % (env, R(x), R(y)), im[0], pre)
        goal("snd (hy_inverseMappingT %s (%s, %s))" % (env, R(x), R(y)), im[1], pre)
        # EOM
        k2, k3, k4, g = (dy(rng.uniform(0.1, 0.4), 8), dy(rng.uniform(0.01, 0.1), 8),
                         dy(rng.uniform(0.02, 0.2), 8), dy(rng.uniform(5, 30), 6))
        pot = StubPotential(*(float(t) for t in (k2, k3, k4, g)))
        eom = object.__new__(EOM)
        eom.thermo = type("T", (), {"effectivePotential": pot})()
        w, off, z = dy(rng.uniform(2, 9), 6), dy(rng.uniform(-1, 1), 8), dy(rng.uniform(-10, 10), 6)
        vL, vH = dy(rng.uniform(1, 3), 8), dy(rng.uniform(0, 0.2), 8)
        ee = "eo%d" % k
        hdr += ("Definition %s := {| wp_widths := %s; wp_offsets := %s;\n"
                "  veff_dT := fun phi T => 2 * %s * T * phi ^ 2 - %s * phi ^ 3 - 4 * %s * T ^ 3;\n"
                "  veff := fun phi T => %s * T ^ 2 * phi ^ 2 - %s * T * phi ^ 3 + %s * phi ^ 4 - %s * T ^ 4 |}.\n"
                % (ee, R(w), R(off), R(k2), R(k3), R(g), R(k2), R(k3), R(k4), R(g)))
        wp = WallParams(widths=np.array([float(w)]), offsets=np.array([float(off)]))
        f1, d1 = eom.wallProfile(float(z), Fields([float(vL)]), Fields([float(vH)]), wp)
        f1, d1 = (float(np.asarray(t).reshape(-1)[0]) for t in (f1, d1))
        pre = ("unfold eom_wallProfile, %s, tanh, cosh; cbn [wp_widths wp_offsets fst snd];" % ee)
        goal("fst (eom_wallProfile %s %s %s %s 0)" % (ee, R(z), R(vL), R(vH)), f1, pre)
        goal("snd (eom_wallProfile %s %s %s %s 0)" % (ee, R(z), R(vL), R(vH)), d1, pre)
        T, s1, s2 = dy(rng.uniform(0.8, 1.5), 8), dy(rng.uniform(-30, -1), 6), dy(rng.uniform(1, 30), 6)
        phi, dphi = dy(rng.uniform(0.1, 2.5), 8), dy(rng.uniform(-1, 1), 8)
        fp = Fields([float(phi)]).getFieldPoint(0)
        dpp = Fields([float(dphi)]).getFieldPoint(0)
        pre = "unfold eom_plasmaVelocity, %s; cbn [veff_dT veff];" % ee
        goal("eom_plasmaVelocity %s %s %s %s" % (ee, R(phi), R(T), R(s1)),
             eom.plasmaVelocity(fp, float(T), float(s1)), pre)
        pre = "unfold eom_temperatureProfileEqLHS, %s; cbn [veff_dT veff];" % ee
        goal("eom_temperatureProfileEqLHS %s %s %s %s %s %s" % (ee, R(phi), R(dphi), R(T),
                                                               R(s1), R(s2)),
             eom.temperatureProfileEqLHS(fp, dpp, float(T), float(s1), float(s2)), pre)
        # grid parameters
        L = dy(rng.uniform(1, 8), 6)
        r, sm = rng.choice([Fraction(3, 10), Fraction(1, 2)]), rng.choice([Fraction(1, 10), Fraction(1, 4)])
        tin = dy(float(L * (Fraction(1, 2) + sm) / r) * rng.uniform(1.2, 6), 6)
        tout = dy(float(L * (Fraction(1, 2) + sm) / r) * rng.uniform(1.2, 6), 6)
        g1 = Grid3Scales(6, 3, float(tin), float(tout), float(L), 1.0, float(r), float(sm), 0.0)
        zeros = " ".join("0" for _ in gen_units.GRID_ATTRS)
        call = "(gr_updateParameters (mk_gr_env tt) (mk_gr_st %s) %s %s %s %s %s 0)" % (
            zeros, R(tin), R(tout), R(L), R(r), R(sm))
        names = " ".join(["gr_updateParameters", "gr_aIn", "gr_aOut"] +
                         ["set_gr_" + a for a in gen_units.GRID_ATTRS])
        pre = "cbv beta iota zeta delta [%s];" % names
        goal("gr_aIn %s" % call, g1.aIn, pre)
        goal("gr_aOut %s" % call, g1.aOut, pre)
        # the coordinate maps, on the object's own (float) parameters
        vals = dict(tailLengthInside=g1.tailLengthInside, tailLengthOutside=g1.tailLengthOutside,
                    wallThickness=g1.wallThickness, ratioPointsWall=g1.ratioPointsWall,
                    smoothing=g1.smoothing, wallCenter=g1.wallCenter, aIn=float(g1.aIn),
                    aOut=float(g1.aOut), momentumFalloffT=g1.momentumFalloffT)
        gs = "gs%d" % k
        hdr += "Definition %s : gr_st := {| %s |}.\n" % (gs, "; ".join(
            "gr_%s := %s" % (a, R(Fraction(float(vals[a])))) for a in gen_units.GRID_ATTRS))
        chi = dy(rng.uniform(-0.95, 0.95), 8)
        rho = dy(rng.uniform(-0.9, 0.9), 8)
        rpp = dy(rng.uniform(-0.9, 0.9), 8)
        z1, pz1, pp1 = g1.decompactify(np.array(float(chi)), np.array(float(rho)),
                                        np.array(float(rpp)))
        pre = ("unfold gr_decompactify, gr_totalMapping, gr_term1, gr_term2, gr_term3, gr_term4, "
               "gr_term5, atanh_R, %s; cbn [fst snd %s];" % (
                   gs, " ".join("gr_" + a for a in gen_units.GRID_ATTRS)))
        dc = "(gr_decompactify (mk_gr_env tt) %s %s %s %s)" % (gs, R(chi), R(rho), R(rpp))
        goal("fst (fst %s)" % dc, float(z1), pre)
        goal("snd (fst %s)" % dc, float(pz1), pre)
        goal("snd %s" % dc, float(pp1), pre)
    return hdr + "\n".join(goals) + "\n", rows


# =====================================================================================

def parse_reviewed():
    with open(os.path.join(vlib.COQ, "Props", "C07.v")) as f:
        text = f.read()
    text = text[text.index("Definition reviewed_sites"):]
    out = []
    for m in REVIEWED_RE.finditer(text):
        out.append((m.group(1), m.group(2), m.group(3), m.group(4),
                    None if m.group(5) is None else int(m.group(5)), int(m.group(6))))
    return out


def ensure_libs(ctx):
    """The shared coq/Lib/*.vo can be stale (a dependency rebuilt by someone else without
    its dependents): that is an environment problem, not a violation.  Probe the two library
    files this property owns and rebuild them in place if they no longer load."""
    probe = ctx.write("LibProbe.v", "From WG Require Import Lib.Units Lib.UnitsEos.\n")
    ok, out, err = ctx.coqc(probe, timeout=120)
    if ok:
        return
    ctx.log("environment: shared Lib .vo stale (%s); rebuilding Lib/Units.v, Lib/UnitsEos.v"
            % vlib.tail(err, 2).replace("\n", " "))
    for f in ("Lib/Units.v", "Lib/UnitsEos.v"):
        rc, out, err = vlib.sh(["coqc", "-Q", vlib.COQ, "WG", os.path.join(vlib.COQ, f)],
                               timeout=300, cwd=vlib.COQ)
        if rc != 0:
            ctx.log("environment: could not rebuild", f, vlib.tail(err, 4))


def run(ctx):
    # ---- 1. gen ---------------------------------------------------------------------
    gen_ok = True
    sites = None
    try:
        src = {f: vlib.read_src(f) for f in set(SRC_FILES + gen_units.SIG_FILES)}
        ttext, tr = gen_thermo.generate(vlib.read_src("thermodynamics.py"))
        ctx.write("Thermo.v", ttext, sources=dict(file="src/WallGo/thermodynamics.py",
                                                  sha=vlib.sha(src["thermodynamics.py"]),
                                                  spans=tr.spans))
        utext, spans, asserts = gen_units.generate_formulas(src)
        ctx.write("UnitsGen.v", utext, sources=dict(
            files=["src/WallGo/" + f for f in SRC_FILES],
            sha={f: vlib.sha(src[f]) for f in SRC_FILES}, spans=spans,
            preconditions_recorded=asserts))
        sites = gen_units.tolerance_sites(src)
        flows = gen_units.input_flows(src)
        for f in flows:
            if not f[2]:
                ctx.log("input not consumed on every call: %s(%s)" % (f[0], f[1]))
        cached, setup_cl, solver_cl = gen_units.cached_attributes(src)
        for a, rebuilt, read in cached:
            if read and not rebuilt:
                ctx.log("solver-created state not rebuilt by a new set-up: self.%s" % a)
        ctx.write("Sites.v", gen_units.facts_coq(sites, flows, cached,
                                                 gen_units.default_values(src),
                                                 gen_units.manager_methods(src)), sources=dict(
            setup_closure=setup_cl, solver_closure=solver_cl,
            files=["src/WallGo/" + f for f in gen_units.SITE_FILES],
            sha={f: vlib.sha(src[f]) for f in gen_units.SITE_FILES}))
    except (pyrx.TranslateError, SyntaxError, KeyError, OSError) as e:
        ctx.log("translator failed:", repr(e))
        ctx.broken.append("translator: %s" % e)
        gen_ok = False
    # ---- 2. prove -------------------------------------------------------------------
    if gen_ok:
        ensure_libs(ctx)
    proved = gen_ok and ctx.prove(extra=["Thermo.v", "UnitsGen.v", "Sites.v"])
    ctx.trusted += ["tools/pyrx.py + tools/gen_thermo.py + tools/gen_units.py (AST translator, "
                    "dimensional analysis with the reviewed naming table DIMS)",
                    "Interval tactic (certified evaluation)"]
    sites_changed = False
    if sites is not None:
        reviewed = parse_reviewed()
        new = [s for s in sites if s not in reviewed]
        gone = [s for s in reviewed if s not in sites]
        sites_changed = bool(new or gone)
        for s in new:
            ctx.log("NEW tolerance/dimension site:", s)
        for s in gone:
            ctx.log("reviewed site no longer present:", s)
        ctx.count("tolerance_sites", bucket="recorded=%d" % len(sites))
        ctx.sample(dict(tolerance_sites=[list(s) for s in sites[:4]]))
    # ---- 3. correspondence: generated definitions vs implementation --------------------
    if gen_ok:
        try:
            text, rows = corr_file(ctx.rng, ctx.n(2, 10))
            p = ctx.write("Cases/Corr.v", text)
            ok, out, err = ctx.coqc(p, timeout=600)
            for _ in rows:
                ctx.count("certified_eval")
            if not ok:
                ctx.broken.append("correspondence: certified evaluation of the generated "
                                  "formulas (%s)" % vlib.locate_failure(text, err))
                ctx.log("certified evaluation failed", vlib.tail(err, 8))
        except Exception as ex:
            ctx.log("correspondence raised", traceback.format_exc())
            ctx.broken.append("harness: correspondence raised %r" % ex)
    # ---- 4. direct validation -----------------------------------------------------------
    try:
        direct_formula_checks(ctx, ctx.n(25, 300))
    except Exception as ex:
        ctx.log("formula checks raised", traceback.format_exc())
        ctx.broken.append("harness: formula checks raised %r" % ex)
    # metamorphic end-to-end runs
    search = bool(ctx.broken) or sites_changed
    W, L, H, D = ("lte", "wall", "wall2"), ("lte", "wall"), (), ("deton",)
    pairs = []                  # (reference job, job under test, family)

    def cross(m, t, units, stages, fam="units"):
        for u in units:
            pairs.append((J(m, 1.0, t, stages), J(m, u, t, stages), fam))

    def typed(m, u, variants):
        for v in variants:
            pairs.append((J(m, u), J(m, u, variant=v), "typed"))

    def hist(m, fresh_stages, h, u, mode, hs=(), stages=()):
        pairs.append((J(m, u, "default", fresh_stages),
                      J(m, u, "default", stages, h, mode, hs), "history"))
    # the recorded input of known finding site:findLocalMinimum-absolute-step
    # (findings/C07_findLocalMinimum_units.json) and of typed:intall (an int
    # temperatureVariationScale) are replayed first in every tier
    if ctx.quick:
        cross("yukawa4", "default", [100.0], H)
        # the configuration exactly as shipped (nothing overridden): recorded input of
        # site:findLocalMinimum-absolute-gtol (x0.01) and the only runs that see config.py's
        # default VALUES
        cross("yukawa", "shipped", [1e-2, 10.0], ("lte",), "config")
        typed("yukawa4", 100.0, ["int", "scalar", "intall"])
        cross("yukawa", "default", [1e-2, 10.0] + ([0.1, 100.0] if search else []), W)
        cross("quarticlog", "default", [1e-2] + ([100.0] if search else []), L)
        cross("quarticwide", "default", [100.0] + ([1e-2] if search else []),
              L if search else H)
        cross("xsm", "default", [1e-2], L)
        # out of equilibrium (Boltzmann solver, momentum grid, deltaToTmunu)
        cross("quarticwide", "default", [100.0], ("wall", "offeq"), "off-equil.")
        # histories: solve in one unit system, re-set-up the SAME manager in another, solve
        hist("yukawa", W, (1.0,), 1e-2, "manager", hs=L, stages=L)
        hist("yukawa", W, (1e-2,), 1.0, "model")
        hist("quarticlog", L, (100.0,), 1e-2, "model")
    else:
        cross("yukawa4", "default", [100.0, 1e-2], W)
        typed("yukawa4", 100.0, ["int", "scalar", "intall"])
        typed("xsm", 1.0, ["int", "scalar", "intall"])
        for m in ("yukawa", "quarticwide", "quarticlog"):
            for t in ("default", "tight"):
                cross(m, t, [1e-2, 1e-1, 10.0, 100.0], W if m == "yukawa" else L)
        cross("xsm", "default", [1e-2, 1e-1], W)       # x10, x100: see the known finding
        cross("yukawa", "shipped", [1e-2, 10.0], ("lte",), "config")
        # (yukawa x100 with the shipped tolerances: findJouguetVelocity fails -- the Jouguet
        # point of this model lies beyond the low-T spinodal, outside the quantifier, C11)
        cross("yukawa", "shipped", [1e-1], L, "config")
        cross("quarticlog", "shipped", [1e-2, 100.0], ("lte",), "config")
        cross("yukawa", "knobs", [1e-2, 10.0], L, "config")
        cross("quarticlog", "knobs", [1e-2, 100.0], H, "config")
        cross("quarticwide", "default", [1e-2, 100.0], ("wall", "offeq"), "off-equil.")
        cross("yukawa", "default", [1e-2], ("wall", "offeq"), "off-equil.")
        cross("quarticwide", "default", [1e-2], D, "detonation")
        cross("xsm", "default", [1e-2], D, "detonation")
        for m, fs in (("yukawa", W), ("quarticlog", L)):
            for mode in ("model", "manager"):
                hist(m, fs, (1.0,), 1e-2, mode, hs=L, stages=L)
                hist(m, fs, (1e-2,), 1.0, mode, hs=L, stages=L)
                hist(m, fs, (100.0, 1e-2), 1.0, mode)
    jobs = []
    for a, b, _ in pairs:
        for j in (a, b):
            if j not in jobs:
                jobs.append(j)
    cf_jobs = {}
    for a, b, fam in pairs:             # counterfactual of the recorded input, in parallel
        if fam == "units" and b[0] == "yukawa4" and b[1] == 100.0:
            cf_jobs[b] = J(b[0], b[1], b[2], tuple(x for x in b[3] if x == "lte"),
                           variant="scaledstep")
            jobs.append(cf_jobs[b])
    # the most expensive jobs first
    cost = lambda j: (len(j[3]) + len(j[4]) * (1 + len(j[6]))) * (
        3 if j[0].startswith("quartic") else 1)
    jobs.sort(key=cost, reverse=True)
    t0 = time.time()
    limit = ctx.n(240, 600)
    byj = run_jobs(ctx, jobs, limit)
    results = [byj[j] for j in jobs]
    ctx.log("metamorphic runs: %d jobs in %.0fs" % (len(jobs), time.time() - t0))
    for r in results:
        if "inconclusive" in r:
            ctx.count("inconclusive_jobs")
            ctx.log("INCONCLUSIVE (environment, not a violation): %s %s: %s" % (
                r["model"], describe(r), r["inconclusive"]))

    def counterfactual(run, variant="scaledstep"):
        key = J(run["model"], run["unit"], run["tols"], tuple(run["stages"]))
        cj = (cf_jobs.get(key) if variant == "scaledstep" else None) or J(
            run["model"], run["unit"], run["tols"],
            tuple(x for x in run["stages"] if x == "lte"), variant=variant)
        if cj not in byj:
            byj.update(run_jobs(ctx, [cj], limit))      # in its own process
        return byj[cj]
    # purity and call-history checks on every run (no extra managers are built)
    for r in results:
        if "inconclusive" in r:
            continue
        tag = "%s [%s] %s" % (r["model"], r["tols"], describe(r))
        rep = replay_dict(r, r)
        ctx.count("purity_checked_runs")
        for mfield in r.get("mutated", []):
            name = re.sub(r"\[\d+\]$|\.len$", "", mfield.split(":")[0])
            ctx.fail_input(
                "%s: an INPUT object was modified by setupThermodynamicsHydrodynamics / "
                "wallSpeedLTE / solveWall: %s (a second call on the same manager or config "
                "starts from different inputs)" % (tag, mfield),
                dict(rep, quantity="purity", mutated=r["mutated"]), key="purity:" + name)
        if "vw" in r and ("vw2" in r or "raised2" in r):
            ctx.count("second_call_runs")
            if "raised2" in r:
                ctx.fail_input(
                    "%s: the second solveWall call on the same manager fails (%s) while the "
                    "first gave vw=%.6g" % (tag, r["raised2"], r["vw"]),
                    dict(rep, quantity="second-call", raised2=r["raised2"]),
                    key="history:second-call:raises")
                continue
            for q in ("vw", "width", "Tplus", "Tminus", "width_b", "offset_b"):
                if q not in r:
                    continue
                a, b = r[q], r[q + "2"]
                tol = tolerance_for(q, TOLSETS[r["tols"]])
                dev = abs(a - b) if q in ABSOLUTE else abs(a - b) / max(abs(a), 1e-300)
                if not dev <= tol:
                    ctx.fail_input(
                        "%s: the second solveWall call on the same manager gives %s = %.10g, "
                        "the first gave %.10g (deviation %.3g > %.3g)" % (tag, q, b, a, dev, tol),
                        dict(rep, quantity="second-call:" + q, first=a, second=b),
                        key="history:second-call:" + q)
            if r["success"] != r["success2"]:
                ctx.fail_input("%s: success flag of the second solveWall call differs" % tag,
                               dict(rep, quantity="second-call:success"),
                               key="history:second-call:success")
    for a, b, fam in pairs:
        ref, r = byj[a], byj[b]
        if "inconclusive" in ref or "inconclusive" in r:
            ctx.count("inconclusive_pairs")
            ctx.log("%-10s %-11s %-7s %-44s not compared (a job was inconclusive)" % (
                fam, b[0], b[2], describe(r)))
            continue
        ctx.count("metamorphic_" + fam, dict(ref=a, run=b), bucket="%s x%g" % (b[0], b[1]))
        bad = compare_runs(ctx, ref, r, TOLSETS[b[2]], b[2], counterfactual)
        ctx.log("%-10s %-11s %-7s %-44s %s  vw=%s width*Tn=%s (%.0fs)" % (
            fam, b[0], b[2], describe(r) + (" vs fresh" if fam == "history" else ""),
            "DEVIATES in " + ",".join(bad) if bad else "covariant", r.get("vw"),
            (r.get("width") or 0) * r.get("Tn", 0), r["seconds"]))
    ctx.sample(dict(metamorphic_reference={k: v for k, v in byj[pairs[0][0]].items()
                                           if k not in ("trace",)}))
    ctx.cov["rule"] = (
        "formula level: random bag-like EOS / analytic free-energy tables / homogeneous "
        "quartic potentials / grid parameters, unit factor from {1e-2,1e-1,0.5,3,10,100}; "
        "each proved law is evaluated on the real class methods (5 temperatures per phase "
        "from 0.3 TMin to 4 TMax). End to end: WallGoManager on the Yukawa-type model (Tn=1 "
        "and Tn=4 presentations) and a wide-coexistence quartic model, unit factors 1e-2..1e2, "
        "default and tightened tolerances; distinct = distinct (model, tolerance set, factor)")
    ctx.assumptions += [
        "scipy's internal absolute defaults (Nelder-Mead xatol/fatol=1e-4, minimize gtol, "
        "minimize_scalar xatol) are not modelled; they are exercised only by the metamorphic "
        "runs",
        "the free-energy tables and the effective potential of the rescaled model are the "
        "rescaled functions (sc4/sc3/sc2 in Lib/UnitsEos.v): true of any potential that is "
        "presented consistently in the new units",
        "EOM formulas are translated for one scalar field and scalar position"]


def replay(rep):
    print(json.dumps({k: v for k, v in rep.items() if k != "trace"}, indent=1))
    if rep.get("kind") == "metamorphic":
        u0, u1 = rep["units"]
        st = tuple(rep.get("stages") or (() if rep.get("history") else ("lte", "wall", "wall2")))
        a = solve_case(J(rep["model"], u0, rep["tols"], st, variant=rep.get("ref_variant", "")))
        b = solve_case(J(rep["model"], u1, rep["tols"], st, rep.get("history", ()),
                         rep.get("mode", "model"), rep.get("hist_stages", ()),
                         rep.get("variant", "")))
        for q in DIMLESS + list(DIMFUL):
            if q in a and q in b:
                d = DIMFUL.get(q, 0)
                print("%-16s %-18.10g %-18.10g (dimension %d)" % (
                    q, a[q], b[q] / (u1 / u0) ** d, d))
        print("raised:", a.get("raised"), "|", b.get("raised"))
        print("second call failed:", a.get("raised2"), "|", b.get("raised2"))
        print("input objects mutated:", a.get("mutated"), "|", b.get("mutated"))
    return 0
