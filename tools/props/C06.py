"""C06 -- matchings are admissible and correctly classified; Jouguet = Chapman-Jouguet point;
fastestDeflag / slowestDeton respect the tabulated temperature ranges."""
import json
import math
import os
import subprocess
import sys
import types
from fractions import Fraction

import numpy as np

import gen_hydro_adm
import gen_thermo
import pyrx
import vlib

EXPLANATION = (
    "The formulas that decide what kind of solution a matching is (vpvmAndvpovm, the residual "
    "closures `matching`, `tmFromvpsq`, `vpDerivNum`, and the code executed after each scipy "
    "solver call in matchDeflagOrHyb, matchDeton, findJouguetVelocity; the template model's "
    "closed-form vJ, detonation branch and getVp) are regenerated from the two hydrodynamics "
    "source files by the pyrx translator. Coq proves for EVERY equation of state and every "
    "solver output that is a zero of the generated residual: v-^2=min(vw^2,cs^2) hence "
    "deflagration v-=vw / hybrid v-=cs(T-); detonation v+=vw, T+=Tn, and the first root above "
    "Tn is the weak branch (v->=cs); vpDerivNum is the T- derivative of v+^2 up to a positive "
    "factor and factorises as K(v-^2-cs^2), so the detonation at the returned vJ is sonic "
    "(Chapman-Jouguet); template: cb<=v-<v+ above vJ, v-=cb at vJ, vJ in [cb,1). The decision "
    "logic of fastestDeflag/slowestDeton is a hand-written model (one polymorphic definition: "
    "Q instance compared by vm_compute with the real methods run on synthetic T+-(vw) curves; R "
    "instance carries the theorems: result<=vJ, it is where a range is hit, every slower "
    "(faster) wall is inside the ranges under monotonicity, flags sound). All statements are "
    "also evaluated on the real code for the 2-step, bag and template equations of state.")

sys.path.insert(0, os.path.join(vlib.REPO, "tests"))



# =======================================================================================
# 0. deterministic replay of the recorded known findings (one KNOWN-FINDING line each)
# =======================================================================================

def known_finding_replays(ctx):
    """The two inputs recorded in known_findings.json are replayed on every run (no use of
    ctx.rng).  Each is reported only if it still fails in exactly the recorded way; the class
    rules are deliberately narrow so that any other failure remains a VIOLATION."""
    from test_Hydrodynamics import TestModelBag
    # (a) fastestDeflag raises TypeError because findMatching(vMin+vBracketLow) is (None,)*4
    try:
        model = TestModelBag(0.5, 0.9)
        set_ranges(model, TMaxLow=1.30744590709152, lowEnds=False)
        h = new_hydro(model)
        lo = h.vMin + h.vBracketLow
        start = h.findMatching(lo)
        ctx.count("known_finding_replay", bucket="window-start-unsolved")
        if start[0] is None:
            try:
                h.fastestDeflag()
            except TypeError as ex:
                ctx.fail_input(
                    "fastestDeflag raised %r: findMatching(vMin+vBracketLow=%.4g) returns no "
                    "solution [bag psi=0.5 Tn=0.9, rtol=atol=1e-8, TMaxLowT=1.30744590709152]"
                    % (ex, lo),
                    dict(kind="range", case=dict(eos="bag", psi=0.5, Tn=0.9), which="low",
                         TMaxLowT=1.30744590709152, TMaxHighT=500.0, lowEnds=False,
                         highEnds=False), key="fastestDeflag:window-start-unsolved")
    except Exception as ex:
        ctx.log("known-finding replay (a) could not be run:", repr(ex))
    # (b) spurious slow-wall solution near Tc makes fastestDeflag advertise the jump position
    try:
        TML, TMH = 1.0234292605860773, 1.0103859601831544
        model = TestModelBag(0.95, 0.95)
        set_ranges(model, TML, False, TMH, True)
        h = new_hydro(model)
        Tn = model.Tnucl
        slow = h.findMatching(0.002)
        ctx.count("known_finding_replay", bucket="spurious-slow-wall-solution")
        spurious = slow[0] is not None and abs(float(slow[2]) - Tn) > 0.01 * Tn
        if spurious:
            vmax = float(h.fastestDeflag())
            inside = []
            for vw in (0.05, 0.1, 0.3):
                _, _, Tp, Tm = h.findMatching(vw)
                inside.append(Tm <= TML and Tp <= TMH)
            if vmax < 0.01 and all(inside):
                ctx.fail_input(
                    "findMatching(0.002) returns the spurious solution T+=%.5f T-=%.5f (Tn=%.2f)"
                    " and fastestDeflag()=%.6f although the walls vw=0.05, 0.1, 0.3 are inside "
                    "both ranges [bag psi=0.95 Tn=0.95, rtol=atol=1e-8]" % (
                        float(slow[2]), float(slow[3]), Tn, vmax),
                    dict(kind="range", case=dict(eos="bag", psi=0.95, Tn=0.95), which="both",
                         TMaxLowT=TML, TMaxHighT=TMH, lowEnds=False, highEnds=True, vw=0.002),
                    key="findMatching:spurious-slow-wall-solution")
    except Exception as ex:
        ctx.log("known-finding replay (b) could not be run:", repr(ex))

# =======================================================================================
# 1. correspondence: decision model (Model/RangeLimit.v, Q instance) vs the real methods
# =======================================================================================

def q(x):
    x = Fraction(x)
    return "(%d # %d)" % (x.numerator, x.denominator)


class Curve:
    """monotone piecewise-affine curve with one optional kink; exact in Q, and in floats
    when the coefficients are dyadic"""

    def __init__(self, a, b, k=None, b2=None):
        self.a, self.b, self.k, self.b2 = Fraction(a), Fraction(b), k, b2

    def exact(self, v):
        v = Fraction(v)
        if self.k is None or v <= self.k:
            return self.a + self.b * v
        return self.a + self.b * self.k + self.b2 * (v - self.k)

    def __call__(self, v):
        v = float(v)
        if self.k is None or v <= float(self.k):
            return float(self.a) + float(self.b) * v
        return float(self.a) + float(self.b) * float(self.k) + float(self.b2) * (v - float(self.k))

    def coq(self):
        if self.k is None:
            return "(fun v : Q => %s + %s * v)" % (q(self.a), q(self.b))
        return "(fun v : Q => if Qle_bool v %s then %s + %s * v else %s + %s * (v - %s))" % (
            q(self.k), q(self.a), q(self.b), q(self.a + self.b * self.k), q(self.b2), q(self.k))

    def desc(self):
        return [str(self.a), str(self.b), None if self.k is None else str(self.k),
                None if self.b2 is None else str(self.b2)]


def synthetic_hydro(cfg, Tp, Tm, flags_in):
    """A real WallGo.Hydrodynamics object (its fastestDeflag / slowestDeton are the code
    under test) whose findMatching is replaced by the synthetic curves."""
    import WallGo
    h = object.__new__(WallGo.Hydrodynamics)
    h.vJ = float(cfg["vJ"])
    h.vMin = float(cfg["vMin"])
    h.vBracketLow = float(cfg["vBr"])
    h.TMaxLowT = float(cfg["TMaxLow"])
    h.TMaxHighT = float(cfg["TMaxHigh"])
    h.atol = 1e-12
    h.rtol = 1e-12
    h.thermodynamics = types.SimpleNamespace(
        freeEnergyLow=types.SimpleNamespace(
            maxPossibleTemperature=[h.TMaxLowT, bool(cfg["lowEnds"])]),
        freeEnergyHigh=types.SimpleNamespace(
            maxPossibleTemperature=[h.TMaxHighT, bool(cfg["highEnds"])]))
    h.doesPhaseTraceLimitvmax = list(flags_in)
    h.findMatching = lambda vw: (None, None, Tp(vw), Tm(vw))
    return h


def coq_cfg(cfg):
    return "(mk_cfg Q %s %s %s %s %s %s %s)" % (
        q(cfg["vJ"]), q(cfg["vMin"]), q(cfg["vBr"]), q(cfg["TMaxLow"]), q(cfg["TMaxHigh"]),
        "true" if cfg["lowEnds"] else "false", "true" if cfg["highEnds"] else "false")


def cb(b):
    return "true" if b else "false"


def pick_level(rng, lo_val, hi_val, allow_tie):
    """a range end relative to the curve values at the two ends of the window"""
    lo_val, hi_val = Fraction(lo_val), Fraction(hi_val)
    span = abs(hi_val - lo_val)
    kinds = ["below", "inside", "inside", "inside", "above", "above"]
    if allow_tie:
        kinds += ["tie_hi", "tie_lo"]
    kind = rng.choice(kinds)
    mn, mx = min(lo_val, hi_val), max(lo_val, hi_val)
    if kind == "below":
        return kind, mn - span * Fraction(rng.randint(1, 8), 16) - Fraction(1, 64)
    if kind == "above":
        return kind, mx + span * Fraction(rng.randint(1, 8), 16) + Fraction(1, 64)
    if kind == "tie_hi":
        return kind, hi_val
    if kind == "tie_lo":
        return kind, lo_val
    return kind, mn + span * Fraction(rng.randint(1, 63), 64)


def rand_curve(rng, v0, v1, t0, increasing):
    """curve through (v0, t0), monotone on [v0, v1]; dyadic coefficients"""
    b = Fraction(rng.randint(1, 64), 32)
    if not increasing:
        b = -b
    a = Fraction(t0) - b * Fraction(v0)
    if rng.random() < 0.4:
        k = Fraction(v0) + (Fraction(v1) - Fraction(v0)) * Fraction(rng.randint(1, 7), 8)
        b2 = Fraction(rng.randint(1, 64), 32) * (1 if increasing else -1)
        return Curve(a, b, k, b2)
    return Curve(a, b)


def decision_correspondence(ctx):
    rng = ctx.rng
    n = ctx.n(160, 1500)
    cases, meta = [], []
    tol = Fraction(1, 10 ** 8)
    for i in range(n):
        dy = rng.random() < 0.7        # fully dyadic configuration (exact float arithmetic)
        vJ = Fraction(rng.randint(32, 60), 64)
        vBr = Fraction(1, 1024) if dy else Fraction(1, 1000)
        vMin = rng.choice([Fraction(1, 1024), Fraction(rng.randint(1, 24), 64)])
        lo, hi = vMin + vBr, vJ - vBr
        Tn = Fraction(rng.randint(32, 96), 64)
        Tm = rand_curve(rng, lo, hi, Tn * Fraction(rng.randint(48, 63), 64), True)
        Tp = rand_curve(rng, lo, hi, Tn * Fraction(rng.randint(64, 72), 64), True)
        kL, TMaxLow = pick_level(rng, Tm.exact(lo), Tm.exact(hi), dy and Tm.k is None)
        kH, TMaxHigh = pick_level(rng, Tp.exact(lo), Tp.exact(hi), dy and Tp.k is None)
        cfg = dict(vJ=vJ, vMin=vMin, vBr=vBr, TMaxLow=TMaxLow, TMaxHigh=TMaxHigh,
                   lowEnds=rng.random() < 0.5, highEnds=rng.random() < 0.5)
        flags_in = rng.choice([(False, False)] * 3 + [(True, True), (True, False),
                                                       (False, True)])
        # ---- fastestDeflag
        h = synthetic_hydro(cfg, Tp, Tm, flags_in)
        try:
            res = h.fastestDeflag()
            fl = tuple(bool(x) for x in h.doesPhaseTraceLimitvmax)
            impl = "Some (%s, (%s, %s))" % (q(Fraction(float(res))), cb(fl[0]), cb(fl[1]))
        except Exception as ex:           # the model has no error outcome here
            impl = "None"
            res, fl = repr(ex), None
        term = ("match %s with Some (v, (f0, f1)) => "
                "let r := fastestDeflag opsQ %s %s %s brentqQ (%s, %s) in "
                "Qle_bool (Qabs (fst r - v)) %s && Bool.eqb (fst (snd r)) f0 && "
                "Bool.eqb (snd (snd r)) f1 | None => false end" % (
                    impl, coq_cfg(cfg), Tp.coq(), Tm.coq(), cb(flags_in[0]), cb(flags_in[1]),
                    q(tol)))
        cases.append(term)
        m = dict(kind="fastestDeflag", cfg={k: str(v) for k, v in cfg.items()},
                 Tp=Tp.desc(), Tm=Tm.desc(), flags_in=list(flags_in), impl_result=res,
                 impl_flags=fl, levels=[kL, kH])
        meta.append(m)
        ctx.count("fastestDeflag_synthetic", m, bucket="%s/%s" % (kL, kH))
        # ---- slowestDeton (T- decreasing on the detonation branch)
        dlo = vJ + Fraction(1, 10000)
        TmD = rand_curve(rng, dlo, 1, Tn * Fraction(rng.randint(66, 90), 64), False)
        kD, TMaxLowD = pick_level(rng, TmD.exact(dlo), TmD.exact(1), False)
        kD2, TMaxHighD = pick_level(rng, TmD.exact(dlo), TmD.exact(1), False)
        cfgD = dict(cfg, TMaxLow=TMaxLowD, TMaxHigh=TMaxHighD)
        h = synthetic_hydro(cfgD, lambda v: float(Tn), TmD, (False, False))
        try:
            res = h.slowestDeton()
            impl = "Some %s" % q(Fraction(float(res)))
        except Exception as ex:
            impl = "None"
            res = repr(ex)
        term = ("match %s with Some v => Qle_bool (Qabs (slowestDeton opsQ %s %s brentqQ - v)) "
                "%s | None => false end" % (impl, coq_cfg(cfgD), TmD.coq(), q(tol)))
        cases.append(term)
        m = dict(kind="slowestDeton", cfg={k: str(v) for k, v in cfgD.items()},
                 Tm=TmD.desc(), impl_result=res, levels=[kD, kD2])
        meta.append(m)
        ctx.count("slowestDeton_synthetic", m, bucket="%s/high:%s" % (kD, kD2))
        if i == 0:
            ctx.sample(meta[-2])
            ctx.sample(meta[-1])
    header = ("From Coq Require Import QArith Qabs Bool List.\nImport ListNotations.\n"
              "From WG Require Import Model.RangeLimit.\nLocal Open Scope Q_scope.\n")
    bad = ctx.run_cases("Decision", header, cases, per_file=80, timeout=600, jobs=8)
    for b in bad:
        ctx.broken.append("correspondence: decision model vs implementation (%s)" % b["file"])
        ctx.log("decision correspondence failed:", b["file"], b["err"][-300:])
        for k in b["cases"][:6]:
            m = meta[k]
            ctx.log("  disagreeing case:", json.dumps(m, default=str)[:600])
            property_on_synthetic(ctx, m)
        if not b["cases"]:
            ctx.log("  (could not identify the failing cases)")
    return not bad


def property_on_synthetic(ctx, m):
    """A synthetic configuration on which model and implementation disagree: evaluate the
    PROPERTY itself on the implementation's answer (the curves are exact, monotone)."""
    cfg = {k: (Fraction(v) if k not in ("lowEnds", "highEnds") else v == "True")
           for k, v in m["cfg"].items()}

    def mk(d):
        return Curve(Fraction(d[0]), Fraction(d[1]),
                     None if d[2] is None else Fraction(d[2]),
                     None if d[3] is None else Fraction(d[3]))
    Tm = mk(m["Tm"])
    if m["kind"] == "fastestDeflag":
        Tp = mk(m["Tp"])
        h = synthetic_hydro(cfg, Tp, Tm, m["flags_in"])
        v = h.fastestDeflag()
        lo, hi = float(cfg["vMin"] + cfg["vBr"]), float(cfg["vJ"] - cfg["vBr"])
        start_ok = Tm(lo) <= h.TMaxLowT and Tp(lo) <= h.TMaxHighT
        for x in np.linspace(lo, min(hi, v - 1e-6), 41):
            if start_ok and (Tm(x) > h.TMaxLowT * (1 + 1e-9) or Tp(x) > h.TMaxHighT * (1 + 1e-9)):
                ctx.fail_input(
                    "fastestDeflag()=%.6f but the slower wall vw=%.6f has T-=%.6f (TMaxLowT=%.6f)"
                    " T+=%.6f (TMaxHighT=%.6f) [synthetic monotone curves]" % (
                        v, x, Tm(x), h.TMaxLowT, Tp(x), h.TMaxHighT),
                    dict(kind="synthetic", case=m, vw=x), key="fastestDeflag:slower-wall-out-of-range")
                return
    else:
        h = synthetic_hydro(cfg, lambda v: 1.0, Tm, (False, False))
        v = h.slowestDeton()
        dlo = float(cfg["vJ"]) + 1e-4
        if v < 1:
            for x in np.linspace(max(v, dlo), 1.0, 41):
                if Tm(x) > h.TMaxLowT * (1 + 1e-9):
                    ctx.fail_input(
                        "slowestDeton()=%.6f but the faster detonation vw=%.6f has T-=%.6f > "
                        "TMaxLowT=%.6f [synthetic monotone curve]" % (v, x, Tm(x), h.TMaxLowT),
                        dict(kind="synthetic", case=m, vw=x),
                        key="slowestDeton:faster-wall-out-of-range")
                    return
        elif Tm(1.0) <= h.TMaxLowT:
            ctx.fail_input(
                "slowestDeton()=1 (no admissible detonation) although T-(vw=1)=%.6f <= "
                "TMaxLowT=%.6f [synthetic monotone curve]" % (Tm(1.0), h.TMaxLowT),
                dict(kind="synthetic", case=m), key="slowestDeton:returns-1-although-admissible")


# =======================================================================================
# 2. direct validation on real equations of state
# =======================================================================================

def eos_models(ctx):
    from test_Hydrodynamics import TestModel2Step, TestModelBag
    from test_HydroTemplateModel import TestModelTemplate
    out = []
    for Tn in ([0.5, 0.7, 0.8] if ctx.quick else
               [0.5, 0.55, 0.6, 0.65, 0.7, 0.75, 0.8, 0.85, 0.9, 0.95]):
        out.append(("2step Tn=%g" % Tn, dict(eos="2step", Tn=Tn),
                    lambda Tn=Tn: TestModel2Step(0.2, 0.1, 0.4, Tn)))
    for psi, Tn in ([(0.9, 0.9), (0.5, 0.9)] if ctx.quick else
                    [(0.9, 0.9), (0.9, 0.8), (0.8, 0.85), (0.7, 0.9), (0.5, 0.9), (0.95, 0.95)]):
        out.append(("bag psi=%g Tn=%g" % (psi, Tn), dict(eos="bag", psi=psi, Tn=Tn),
                    lambda psi=psi, Tn=Tn: TestModelBag(psi, Tn)))
    rng = ctx.rng
    for _ in range(ctx.n(2, 12)):
        alN = round(rng.uniform(0.02, 0.25), 4)
        psiN = round(rng.uniform(0.6, 0.95), 4)
        cb2 = round(rng.uniform(0.26, 1 / 3), 4)
        cs2 = round(rng.uniform(0.28, 1 / 3), 4)
        out.append(("template alN=%g psiN=%g cb2=%g cs2=%g" % (alN, psiN, cb2, cs2),
                    dict(eos="template", alN=alN, psiN=psiN, cb2=cb2, cs2=cs2),
                    lambda a=alN, p=psiN, b=cb2, s=cs2: TestModelTemplate(a, p, b, s, 1.0, 1.5)))
    return out


def make_model(case):
    from test_Hydrodynamics import TestModel2Step, TestModelBag
    from test_HydroTemplateModel import TestModelTemplate
    if case["eos"] == "2step":
        return TestModel2Step(0.2, 0.1, 0.4, case["Tn"])
    if case["eos"] == "bag":
        return TestModelBag(case["psi"], case["Tn"])
    return TestModelTemplate(case["alN"], case["psiN"], case["cb2"], case["cs2"], 1.0, 1.5)


def set_ranges(model, TMaxLow=None, lowEnds=False, TMaxHigh=None, highEnds=False):
    if TMaxLow is not None:
        model.TMaxLowT = TMaxLow
        model.freeEnergyLow.maxPossibleTemperature = [TMaxLow, lowEnds]
    if TMaxHigh is not None:
        model.TMaxHighT = TMaxHigh
        model.freeEnergyHigh.maxPossibleTemperature = [TMaxHigh, highEnds]


def new_hydro(model):
    import WallGo
    return WallGo.Hydrodynamics(model, 10, 0.01, 1e-8, 1e-8)


def deton_residual(model, vw, tm):
    """the residual handed to brentq in matchDeton (harness copy, for scanning)"""
    Tn = model.Tnucl
    pH, wH = model.pHighT(Tn), model.wHighT(Tn)
    eH = wH - pH
    pL, wL = model.pLowT(tm), model.wLowT(tm)
    eL = wL - pL
    return vw ** 2 * (eH - eL) - (pH - pL) * (eL + pH) / (eH + pL)


def admissibility(ctx, label, case, model, h):
    """every matching over vw in [vMin, 0.99]: speeds, temperatures, branch, orderings"""
    Tn = model.Tnucl
    lo = h.vMin + 2e-3 if h.vMin > h.vBracketLow else 0.02
    nv = ctx.n(14, 60)
    grid = list(np.linspace(lo, h.vJ * (1 - 1e-6), nv)) + \
        list(np.linspace(h.vJ * (1 + 1e-6), 0.99, nv // 2 + 2))
    # around the transition deflagration -> hybrid and around vJ
    grid += [h.vJ * (1 - 1e-3), h.vJ * (1 + 1e-3)]
    curve = []
    for vw in sorted(grid):
        rep = dict(kind="matching", case=case, vw=float(vw))
        try:
            vp, vm, Tp, Tm = h.findMatching(float(vw))
        except Exception as ex:
            ctx.fail_input("findMatching(%.6f) raised %r [%s]" % (vw, ex, label), rep,
                           key="findMatching-raises")
            continue
        if vp is None:
            ctx.fail_input("findMatching(%.6f) returned no solution inside [vMin, 0.99] [%s]"
                           % (vw, label), rep, key="findMatching-none")
            continue
        vp, vm, Tp, Tm = float(vp), float(vm), float(Tp), float(Tm)
        cs = math.sqrt(float(model.csqLowT(Tm)))
        rep.update(vp=vp, vm=vm, Tp=Tp, Tm=Tm, cs_minus=cs, vJ=h.vJ)
        deton = vw > h.vJ
        kind = "detonation" if deton else ("deflagration" if vw < cs else "hybrid")
        ctx.count("admissibility", dict(case=case, vw=round(float(vw), 9)),
                  bucket="%s:%s" % (case["eos"], kind))
        bad = None
        if not (0 < vp < 1 and 0 < vm <= 1 and Tp > 0 and Tm > 0):
            bad = "speeds/temperatures outside (0,1) / not positive"
        elif deton:
            if abs(vp - vw) > 1e-12:
                bad = "detonation with v+ != vw"
            elif abs(Tp - Tn) > 1e-12 * Tn:
                bad = "detonation with T+ != Tn"
            elif not vm < vp:
                bad = "detonation with v- >= v+"
            elif vm < cs * (1 - 2e-4):
                bad = "detonation with v- below the sound speed behind the wall (strong branch)"
            else:
                # hypothesis of first_root_detonation_is_weak: residual >= 0 on [Tn, Tm)
                ts = np.linspace(Tn, Tm, 24)[:-1]
                r = [deton_residual(model, vw, t) for t in ts]
                sc = abs(deton_residual(model, vw, Tn)) + 1e-300
                ctx.count("first_root_scan")
                if min(r) < -1e-7 * sc:
                    bad = "detonation root is not the first root above Tn (residual changes " \
                          "sign before it)"
        else:
            if abs(vm - min(vw, cs)) > 1e-9:
                bad = "%s with v- != min(vw, cs(T-))" % kind
            elif not vp < vm:
                bad = "%s with v+ >= v-" % kind
            elif not Tp > Tn * (1 - 1e-9):
                bad = "%s with T+ below the nucleation temperature" % kind
        if bad:
            ctx.fail_input("vw=%.6f: %s (v+=%.6f v-=%.6f T+=%.6f T-=%.6f cs-=%.6f vJ=%.6f) [%s]"
                           % (vw, bad, vp, vm, Tp, Tm, cs, h.vJ, label), rep,
                           key="admissibility:" + bad.split(" (")[0])
        curve.append((float(vw), Tp, Tm, deton))
    return curve


def chapman_jouguet(ctx, label, case, model, h):
    """a detonation at the Jouguet velocity has v- = cs(T-); vJ separates the families"""
    rep = dict(kind="CJ", case=case, vJ=h.vJ)
    ctx.count("chapman_jouguet", case)
    eps = 1e-9
    try:
        vp, vm, Tp, Tm = h.matchDeton(h.vJ * (1 + eps))
    except Exception as ex:
        ctx.fail_input("matchDeton(vJ(1+1e-9)) raised %r [%s]" % (ex, label), rep,
                       key="CJ:matchDeton-raises")
        return
    cs = math.sqrt(float(model.csqLowT(Tm)))
    rep.update(vm=float(vm), cs_minus=cs, Tm=float(Tm))
    # sensitivity: v- - cs ~ sqrt(vw - vJ); vJ itself is known to ~rtol
    if abs(vm - cs) > 2e-3:
        ctx.fail_input("detonation at the Jouguet velocity vJ=%.8f has v-=%.6f but cs(T-)=%.6f "
                       "(T-=%.6f) [%s]" % (h.vJ, vm, cs, Tm, label), rep, key="CJ:not-sonic")
    # no detonation solution below vJ: the residual stays positive (vJ is the smallest v+)
    vw = h.vJ * (1 - 1e-3)
    ts = np.linspace(model.Tnucl, 3 * model.Tnucl, 400)
    vals = [deton_residual(model, vw, t) for t in ts]
    # ignore the region before the pole of v+v- (e+ = e-)
    if min(vals) <= 0:
        ctx.fail_input("a detonation matching exists at vw=%.6f < vJ=%.6f (residual <= 0 at "
                       "T-=%.5f) [%s]" % (vw, h.vJ, ts[int(np.argmin(vals))], label),
                       dict(rep, vw=vw), key="CJ:detonation-below-vJ")
    # template closed form on the template EOS
    if case["eos"] == "template":
        t = h.template
        if abs(t.vJ - h.vJ) > 1e-5:
            ctx.fail_input("template vJ=%.8f differs from the general vJ=%.8f on the template "
                           "EOS [%s]" % (t.vJ, h.vJ, label), rep, key="CJ:template-vJ")
        vp, vm, Tp, Tm = t.detonationVAndT(t.vJ)
        if abs(vm - t.cb) > 1e-6:
            ctx.fail_input("template detonation at vJ has v-=%.8f != cb=%.8f [%s]" % (
                vm, t.cb, label), rep, key="CJ:template-not-sonic")
        for vw in np.linspace(t.vJ * (1 + 1e-6), 0.995, 9):
            vp, vm, Tp, Tm = t.detonationVAndT(float(vw))
            ctx.count("template_deton_branch")
            if not (t.cb * (1 - 1e-9) <= vm < vp == vw):
                ctx.fail_input("template detonation vw=%.6f: v-=%.6f not in [cb=%.6f, v+) [%s]"
                               % (vw, vm, t.cb, label), dict(rep, vw=float(vw)),
                               key="template:deton-branch")


def vJ_is_smallest_detonation(ctx, label, rep, model, h):
    """Chapman-Jouguet point, stated with p and e only (so also valid when the tabulated
    ranges are cut): a detonation matching exists just above the advertised vJ and none just
    below it."""
    ts = np.linspace(model.Tnucl, 3 * model.Tnucl, 600)
    below = min(deton_residual(model, h.vJ * (1 - 2e-3), t) for t in ts)
    above = min(deton_residual(model, h.vJ * (1 + 2e-3), t) for t in ts)
    ctx.count("vJ_smallest_detonation")
    if below <= 0 or above > 0:
        ctx.fail_input(
            "the advertised vJ=%.6f is not the Chapman-Jouguet velocity: min over T- of the "
            "detonation residual is %.3e at 0.998 vJ (must be > 0) and %.3e at 1.002 vJ (must be "
            "< 0) [TMaxLowT=%.6g, %s]" % (h.vJ, below, above, model.TMaxLowT, label),
            dict(rep, vJ=h.vJ), key="CJ:vJ-not-smallest-detonation")


def monotone(vals, increasing, rel=1e-6):
    bad = 0
    for a, b in zip(vals, vals[1:]):
        if (b < a * (1 - rel)) if increasing else (b > a * (1 + rel)):
            bad += 1
    return bad


def big_drops(vals, frac=0.05):
    span = max(vals) - min(vals)
    return sum(1 for a, b in zip(vals, vals[1:]) if a - b > frac * span)


def range_limits(ctx, label, case, curve, h0):
    """tabulated ranges that cut the window short, with the 'phase really ends' flag both
    ways: the advertised fastest deflagration / slowest detonation"""
    Tn = case.get("Tn", 1.0)
    defl = [(v, Tp, Tm) for v, Tp, Tm, d in curve if not d]
    det = [(v, Tp, Tm) for v, Tp, Tm, d in curve if d]
    if len(defl) < 4 or len(det) < 3:
        return
    # hypothesis of the theorems: monotone in vw (scanned)
    nm = monotone([x[2] for x in defl], True) + monotone([x[1] for x in defl], True)
    nd = monotone([x[2] for x in det], False)
    ctx.count("monotonicity_scan", bucket="violations=%d" % (nm + nd))
    if nm + nd:
        ctx.log("note: T+-(vw) not monotone on the scan for", label, "(%d steps)" % (nm + nd))
    rng = ctx.rng
    Tm_lo, Tm_hi = defl[0][2], defl[-1][2]
    Tp_lo, Tp_hi = defl[0][1], defl[-1][1]
    big = 50.0 * Tn
    configs = []
    fr = rng.uniform(0.25, 0.9)
    configs.append(("low", Tm_lo + fr * (Tm_hi - Tm_lo), big))
    fr = rng.uniform(0.25, 0.9)
    configs.append(("high", big, Tp_lo + fr * (Tp_hi - Tp_lo)))
    configs.append(("both", Tm_lo + rng.uniform(0.3, 0.9) * (Tm_hi - Tm_lo),
                    Tp_lo + rng.uniform(0.3, 0.9) * (Tp_hi - Tp_lo)))
    configs.append(("ample", big, big))
    # preconditions of the decision model at the slow end of the bracket that fastestDeflag
    # hands to brentq: findMatching returns a solution there, and T+-(vw) are monotone from
    # there on (the vw grid of `admissibility` starts a little higher)
    lo0 = h0.vMin + h0.vBracketLow
    start = h0.findMatching(lo0)
    if start[0] is None:
        ctx.count("window_start_unsolved", case)
        ctx.log("observation: findMatching(vMin+vBracketLow=%.4g) returns no solution for %s; "
                "fastestDeflag would raise TypeError there -- outside the quantifier (no "
                "matching returned), range test of the deflagration window skipped" % (
                    lo0, label))
        configs = []
        # reported as a finding only once it is listed in known_findings.json (see report)
        key = "fastestDeflag:window-start-unsolved"
        if any(k.get("property") == "C06" and k.get("key") == key
               for k in ctx.known.get("findings", [])):
            ctx.fail_input("findMatching(vMin+vBracketLow) returns no solution; fastestDeflag "
                           "raises TypeError when a range cuts the window [%s]" % label,
                           dict(kind="range", case=case, which="low", TMaxLowT=Tm_hi,
                                TMaxHighT=big, lowEnds=False, highEnds=False), key=key)
    else:
        head = [(lo0, float(start[2]), float(start[3]))]
        for v in (2 * lo0, 4 * lo0, 8 * lo0):
            if v < defl[0][0]:
                r = h0.findMatching(v)
                if r[0] is not None:
                    head.append((v, float(r[2]), float(r[3])))
        full = head + defl
        # a drop of more than 5% of the total variation over the window (small dips at very
        # slow walls are solver noise and stay far below the range levels tried here)
        nb = big_drops([x[2] for x in full]) + big_drops([x[1] for x in full])
        ctx.count("window_start_monotone_scan", bucket="violations=%d" % nb)
        if nb:
            ctx.count("window_not_monotone", case)
            ctx.log("observation: T+-(vw) jump at the slow end of the window for %s: %s ... "
                    "(hypothesis of the range theorems fails: spurious matching at very small vw)"
                    "; range test of the deflagration window skipped" % (
                        label, ["vw=%.4g T+=%.5f T-=%.5f" % x for x in full[:5]]))
            configs = []
            key = "findMatching:spurious-slow-wall-solution"
            if any(k.get("property") == "C06" and k.get("key") == key
                   for k in ctx.known.get("findings", [])):
                ctx.fail_input("findMatching returns a spurious solution at the slow end of the "
                               "window (T+-(vw) jump) [%s]" % label,
                               dict(kind="matching", case=case, vw=lo0), key=key)
    for which, TML, TMH in configs:
        if TML <= Tn or TMH <= Tn:
            continue          # the nucleation temperature must be inside both tables
        results = {}
        for lowEnds, highEnds in ((False, False), (True, True)) if ctx.quick else \
                ((False, False), (True, True), (True, False), (False, True)):
            model = make_model(case)
            set_ranges(model, TML, lowEnds, TMH, highEnds)
            rep = dict(kind="range", case=case, which=which, TMaxLowT=TML, TMaxHighT=TMH,
                       lowEnds=lowEnds, highEnds=highEnds)
            try:
                h = new_hydro(model)
                vmax = float(h.fastestDeflag())
            except Exception as ex:
                ctx.fail_input("fastestDeflag raised %r with ranges %s [%s]" % (ex, which, label),
                               rep, key="fastestDeflag-raises")
                continue
            flags = [bool(x) for x in h.doesPhaseTraceLimitvmax]
            rep.update(vmax=vmax, vJ=h.vJ, flags=flags)
            vJ_is_smallest_detonation(ctx, label, rep, model, h)
            results[(lowEnds, highEnds)] = vmax
            ctx.count("fastestDeflag_real", dict(case=case, which=which, e=[lowEnds, highEnds]),
                      bucket="%s:%s" % (which, "cut" if vmax < h.vJ else "vJ"))
            tolT = 2e-5
            lo = h.vMin + h.vBracketLow
            if vmax > h.vJ * (1 + 1e-12):
                ctx.fail_input("fastestDeflag()=%.6f > vJ=%.6f [%s]" % (vmax, h.vJ, label), rep,
                               key="fastestDeflag:above-vJ")
            # every slower wall of the window inside both ranges
            top = min(vmax, h.vJ - h.vBracketLow) - 1e-6
            for vw in np.linspace(lo + 1e-3, top, ctx.n(7, 25)):
                _, _, Tp, Tm = h.findMatching(float(vw))
                ctx.count("slower_wall")
                if Tm > TML * (1 + tolT) or Tp > TMH * (1 + tolT):
                    ctx.fail_input(
                        "fastestDeflag()=%.6f (vJ=%.6f) but the slower wall vw=%.6f has T-=%.6f "
                        "(TMaxLowT=%.6f) T+=%.6f (TMaxHighT=%.6f); phase-end flags low=%s high=%s "
                        "[%s]" % (vmax, h.vJ, vw, Tm, TML, Tp, TMH, lowEnds, highEnds, label),
                        dict(rep, vw=float(vw), Tp=float(Tp), Tm=float(Tm)),
                        key="fastestDeflag:slower-wall-out-of-range")
                    break
            if vmax < h.vJ * (1 - 1e-9):
                _, _, Tp, Tm = h.findMatching(vmax)
                if min(abs(Tm - TML) / TML, abs(Tp - TMH) / TMH) > 1e-4:
                    ctx.fail_input("fastestDeflag()=%.6f < vJ is not where a range is reached "
                                   "(T+=%.6f, T-=%.6f) [%s]" % (vmax, Tp, Tm, label), rep,
                                   key="fastestDeflag:not-a-range-hit")
                # flags: raised iff the limiting range end is not a genuine end of the phase
                hitL = abs(Tm - TML) / TML <= 1e-4
                hitH = abs(Tp - TMH) / TMH <= 1e-4
                if (flags[1] and lowEnds) or (flags[0] and highEnds):
                    ctx.fail_input("doesPhaseTraceLimitvmax=%s although the flagged phase "
                                   "really ends [%s]" % (flags, label), rep,
                                   key="fastestDeflag:flag-raised-for-genuine-end")
                if (hitL and not lowEnds and not flags[1]) or (hitH and not highEnds and
                                                                not flags[0]):
                    ctx.fail_input("range limits vmax but doesPhaseTraceLimitvmax=%s [%s]" % (
                        flags, label), rep, key="fastestDeflag:flag-not-raised")
            elif which != "ample":
                # the range is reached inside the window, so vJ must not be advertised
                _, _, Tp, Tm = h.findMatching(h.vJ - h.vBracketLow)
                if Tm > TML * (1 + tolT) or Tp > TMH * (1 + tolT):
                    ctx.fail_input(
                        "fastestDeflag() returns vJ=%.6f although at vw=vJ-%.0e T-=%.6f "
                        "(TMaxLowT=%.6f) T+=%.6f (TMaxHighT=%.6f) [%s]" % (
                            h.vJ, h.vBracketLow, Tm, TML, Tp, TMH, label), rep,
                        key="fastestDeflag:slower-wall-out-of-range")
        vals = list(results.values())
        if vals and max(vals) - min(vals) > 1e-6:
            ctx.fail_input("fastestDeflag depends on the phase-end flags: %s [%s, %s]" % (
                {str(k): v for k, v in results.items()}, which, label),
                dict(kind="range", case=case, which=which, TMaxLowT=TML, TMaxHighT=TMH,
                     results={str(k): v for k, v in results.items()}),
                key="fastestDeflag:depends-on-phase-end-flag")
    # ---- slowest detonation: T- decreases from T-(vJ+) to T-(1)
    Tm_1 = float(h0.findMatching(1.0)[3])
    Tm_J = det[0][2]
    cfgs = [("cut", Tm_1 + rng.uniform(0.2, 0.8) * (Tm_J - Tm_1), big),
            ("cut-highTlow", Tm_1 + rng.uniform(0.2, 0.8) * (Tm_J - Tm_1),
             Tn + 0.5 * (Tm_1 - Tn)),
            ("none-admissible", Tn + rng.uniform(0.3, 0.9) * (Tm_1 - Tn), big),
            ("none-admissible-highTlow", Tn + 0.6 * (Tm_1 - Tn), Tn + 0.3 * (Tm_1 - Tn)),
            ("all-admissible-highTlow", Tm_J * 1.05, Tn + 0.5 * (Tm_1 - Tn)),
            ("ample", big, big)]
    for which, TML, TMH in cfgs:
        if TML <= Tn or TMH <= Tn:
            continue
        model = make_model(case)
        set_ranges(model, TML, False, TMH, False)
        rep = dict(kind="range-deton", case=case, which=which, TMaxLowT=TML, TMaxHighT=TMH)
        try:
            h = new_hydro(model)
            vmin = float(h.slowestDeton())
        except Exception as ex:
            ctx.fail_input("slowestDeton raised %r with ranges %s [%s]" % (ex, which, label),
                           rep, key="slowestDeton-raises")
            continue
        rep.update(vmin=vmin, vJ=h.vJ, Tm_at_1=Tm_1)
        ctx.count("slowestDeton_real", dict(case=case, which=which),
                  bucket="%s:%s" % (which, "1" if vmin >= 1 else ("vJ" if vmin <= h.vJ else "cut")))
        if not (h.vJ * (1 - 1e-12) <= vmin <= 1):
            ctx.fail_input("slowestDeton()=%.6f outside [vJ=%.6f, 1] [%s]" % (vmin, h.vJ, label),
                           rep, key="slowestDeton:outside-[vJ,1]")
        if vmin >= 1:
            if Tm_1 <= TML * (1 - 1e-6):
                ctx.fail_input("slowestDeton()=1 (no admissible detonation) although T-(vw=1)="
                               "%.6f <= TMaxLowT=%.6f [%s]" % (Tm_1, TML, label), rep,
                               key="slowestDeton:returns-1-although-admissible")
            continue
        for vw in np.linspace(max(vmin, h.vJ + 1e-4), 0.999, ctx.n(7, 25)):
            _, _, Tp, Tm = h.findMatching(float(vw))
            ctx.count("faster_detonation")
            if Tm > TML * (1 + 2e-5):
                ctx.fail_input(
                    "slowestDeton()=%.6f (vJ=%.6f) but the faster detonation vw=%.6f has T-=%.6f"
                    " > TMaxLowT=%.6f (TMaxHighT=%.6f) [%s]" % (vmin, h.vJ, vw, Tm, TML, TMH,
                                                               label),
                    dict(rep, vw=float(vw), Tm=float(Tm)),
                    key="slowestDeton:faster-wall-out-of-range")
                break
        if h.vJ + 2e-3 < vmin < 1:
            _, _, Tp, Tm = h.findMatching(vmin - 0.01)
            if abs(Tm - TML) / TML > 1e-4:
                ctx.fail_input("slowestDeton()-0.01=%.6f is not where T- reaches TMaxLowT "
                               "(T-=%.6f, TMaxLowT=%.6f) [%s]" % (vmin - 0.01, Tm, TML, label),
                               rep, key="slowestDeton:not-a-range-hit")


def direct_validation(ctx):
    for label, case, mk in eos_models(ctx):
        try:
            model = mk()
            h = new_hydro(model)
        except Exception as ex:
            ctx.log("skipping", label, "constructor raised", repr(ex))
            continue
        if not (0 < h.vJ < 0.985):
            continue
        ctx.sample(dict(eos=case, vJ=h.vJ, vMin=h.vMin))
        try:
            curve = admissibility(ctx, label, case, model, h)
            chapman_jouguet(ctx, label, case, model, h)
            if case["eos"] != "template" or ctx.tier != "quick":
                range_limits(ctx, label, case, curve, h)
        except Exception:
            import traceback
            ctx.log("direct validation raised on", label, traceback.format_exc())
            ctx.broken.append("harness: direct validation raised on %s" % label)



# =======================================================================================
# 3. certified evaluation: generated formulas vs outputs of the real solvers (Interval)
# =======================================================================================

EVAL_HDR = """From Coq Require Import Reals Lra.
From Interval Require Import Tactic.
From WG Require Import Lib.NumpySem.
From GenC06 Require Import HydroAdmGen.
Local Open Scope R_scope.
%(defs)s
Definition e0 : env := {| Tnucl := %(Tn)s; vJ := %(vJ)s;
  pHighT := pH; pLowT := pL;
  eHighT := fun T => T * dpH T - pH T; eLowT := fun T => T * dpL T - pL T;
  wHighT := fun T => T * dpH T; wLowT := fun T => T * dpL T;
  dpLowT := dpL; deLowT := fun T => T * ddpL T;
  csqLowT := fun T => dpL T / (T * ddpL T); csqHighT := fun T => dpH T / (T * ddpH T) |}.
Ltac ev :=
  cbv beta iota zeta delta [deton_residual deton_ret matching_fixed deflag_ret_fixed vpvmAndvpovm
    vJ_of_tm vpDerivNum fst snd Tnucl pHighT pLowT eHighT eLowT wHighT wLowT dpLowT deLowT
    csqLowT csqHighT e0 pH dpH ddpH pL dpL ddpL];
  repeat match goal with |- context [Req_EM_T ?x ?y] =>
    let E := fresh "E" in destruct (Req_EM_T x y) as [E|E];
    [exfalso; revert E; first [apply Rlt_not_eq; interval | apply Rgt_not_eq; interval]|] end;
  cbv beta iota zeta delta [negb fst snd];
  repeat match goal with |- context [Rmin ?a ?b] =>
    first [rewrite (Rmin_left a b) by interval | rewrite (Rmin_right a b) by interval] end;
  repeat match goal with |- context [Rmax ?a ?b] =>
    first [rewrite (Rmax_left a b) by interval | rewrite (Rmax_right a b) by interval] end;
  interval with (i_prec 80).
"""


def eos_coq_defs(case):
    if case["eos"] == "2step":
        aL, aH, mu = "(1/5)", "(1/10)", "(2/5)"
        return (
            "Definition pH (T : R) := T^4 + (%(aL)s - %(aH)s + %(aH)s * T^2 - %(mu)s)^2 - %(mu)s^2.\n"
            "Definition dpH (T : R) := 4 * T^3 + 4 * %(aH)s * T * (%(aL)s - %(aH)s + %(aH)s * T^2 - %(mu)s).\n"
            "Definition ddpH (T : R) := 12 * T^2 + 8 * %(aH)s^2 * T^2 + 4 * %(aH)s * (%(aL)s - %(aH)s + %(aH)s * T^2 - %(mu)s).\n"
            "Definition pL (T : R) := T^4 + (%(aL)s * T^2 - %(mu)s)^2 - %(mu)s^2.\n"
            "Definition dpL (T : R) := 4 * T^3 + 4 * %(aL)s * T * (%(aL)s * T^2 - %(mu)s).\n"
            "Definition ddpL (T : R) := 12 * T^2 + 8 * %(aL)s^2 * T^2 + 4 * %(aL)s * (%(aL)s * T^2 - %(mu)s).\n"
        ) % dict(aL=aL, aH=aH, mu=mu)
    psi = pyrx.rlit(Fraction(str(case["psi"])))
    return (
        "Definition pH (T : R) := T^4 - (1 - %(psi)s).\n"
        "Definition dpH (T : R) := 4 * T^3.\nDefinition ddpH (T : R) := 12 * T^2.\n"
        "Definition pL (T : R) := %(psi)s * T^4.\nDefinition dpL (T : R) := 4 * %(psi)s * T^3.\n"
        "Definition ddpL (T : R) := 12 * %(psi)s * T^2.\n") % dict(psi=psi)


def certified_eval_files(ctx):
    """Goals closed by the Interval tactic: the values returned by the real solvers are zeros
    of the GENERATED residuals (hypothesis of the theorems, validated inside Coq), and the
    generated `*_ret` definitions reproduce the returned v-."""
    R = vlib.coq_R
    cases = [dict(eos="2step", Tn=0.6), dict(eos="2step", Tn=0.8), dict(eos="bag", psi=0.9, Tn=0.9)]
    if not ctx.quick:
        cases += [dict(eos="2step", Tn=0.5), dict(eos="2step", Tn=0.9),
                  dict(eos="bag", psi=0.8, Tn=0.85), dict(eos="bag", psi=0.5, Tn=0.9)]
    files = []
    for k, case in enumerate(cases):
        model = make_model(case)
        h = new_hydro(model)
        Tn = model.Tnucl
        goals = []
        cs_n = math.sqrt(float(model.csqLowT(Tn)))
        for vw in (0.6 * cs_n, 0.5 * (cs_n + h.vJ)):
            vp, vm, Tp, Tm = (float(x) for x in h.findMatching(vw))
            vp2, vm2, Tp2, Tm2 = (float(x) for x in h.matchDeflagOrHyb(vw, vp))
            tol = 36e-5
            goals.append("Goal Rabs (fst (matching_fixed e0 %s %s %s %s %s %s)) <= %s /\\ "
                         "Rabs (snd (matching_fixed e0 %s %s %s %s %s %s)) <= %s.\n"
                         "Proof. split; ev. Qed." % (R(vw), R(vp), R(Tp2), R(Tm2), R(Tp2), R(Tm2),
                                                    R(tol), R(vw), R(vp), R(Tp2), R(Tm2), R(Tp2),
                                                    R(Tm2), R(tol)))
            goals.append("Goal Rabs (snd (fst (fst (deflag_ret_fixed e0 %s %s %s %s))) - %s) <= %s."
                         "\nProof. ev. Qed." % (R(vw), R(vp), R(Tp2), R(Tm2), R(vm2), R(1e-9)))
            ctx.count("certified_eval", dict(case=case, vw=vw), bucket="deflag/hybrid")
        for vw in (h.vJ * 1.02, 0.5 * (h.vJ + 1), 0.97):
            vp, vm, Tp, Tm = (float(x) for x in h.matchDeton(vw))
            sc = abs(deton_residual(model, vw, Tn))
            goals.append("Goal Rabs (deton_residual e0 %s %s) <= %s.\nProof. ev. Qed." % (
                R(vw), R(Tm), R(1e-5 * sc)))
            goals.append("Goal Rabs (snd (fst (fst (deton_ret e0 %s %s))) - %s) <= %s.\n"
                         "Proof. ev. Qed." % (R(vw), R(Tm), R(vm), R(1e-9)))
            # the returned root is on the weak side of the Jouguet point: d(v+^2)/dT- < 0
            goals.append("Goal vpDerivNum e0 %s * ((eHighT e0 (Tnucl e0) - eLowT e0 %s)) > 0.\n"
                         "Proof. ev. Qed." % (R(Tm), R(Tm)))
            goals.append("Goal Rabs (vJ_of_tm e0 %s - %s) <= %s.\nProof. ev. Qed." % (
                R(Tm), R(vw), R(1e-6)))
            ctx.count("certified_eval", dict(case=case, vw=vw), bucket="detonation")
        text = EVAL_HDR % dict(defs=eos_coq_defs(case), Tn=R(Tn), vJ=R(h.vJ)) + "\n".join(goals) + "\n"
        files.append((case, ctx.write("Cases/EvalEos_%d.v" % k, text)))
    return files


def certified_eval_start(ctx):
    procs = []
    for case, p in certified_eval_files(ctx):
        procs.append((case, p, subprocess.Popen(
            ["timeout", "900", "coqc"] + ctx.coq_args() + [p], cwd=ctx.bdir,
            stdout=subprocess.PIPE, stderr=subprocess.PIPE, text=True)))
    return procs


def certified_eval_finish(ctx, procs):
    for case, p, pr in procs:
        out, err = pr.communicate()
        if pr.returncode != 0:
            ctx.broken.append("correspondence: certified evaluation %s" % os.path.basename(p))
            ctx.log("certified evaluation failed for", json.dumps(case), vlib.tail(err, 8))

# =======================================================================================

def run(ctx):
    gen_ok = True
    files = []
    for fname, gen, out in (("hydrodynamics.py", gen_hydro_adm.generate_hydro, "HydroAdmGen.v"),
                            ("hydrodynamicsTemplateModel.py", gen_hydro_adm.generate_template,
                             "TemplAdmGen.v"),
                            ("thermodynamics.py", gen_thermo.generate, "Thermo.v")):
        src = vlib.read_src(fname)
        try:
            text, tr = gen(src)
            ctx.write(out, text, sources=dict(file="src/WallGo/" + fname, sha=vlib.sha(src),
                                              spans=tr.spans,
                                              error_exits=getattr(tr, "error_exits", []),
                                              asserts=tr.asserts))
            files.append(out)
        except pyrx.TranslateError as e:
            ctx.log("translator failed on %s:" % fname, e)
            ctx.broken.append("translator(%s): %s" % (fname, e))
            gen_ok = False
    proved = gen_ok and ctx.prove(extra=files, timeout=900)
    ctx.trusted += ["tools/pyrx.py + tools/gen_hydro_adm.py (AST translator, fail-closed)",
                    "Interval tactic (certified evaluation of the generated formulas at solver "
                    "outputs)",
                    "coq/Model/RangeLimit.v is hand-written; tied by exact vm_compute "
                    "correspondence on synthetic curves"]
    known_finding_replays(ctx)
    procs = []
    if proved:
        try:
            procs = certified_eval_start(ctx)
        except Exception as ex:
            import traceback
            ctx.log("certified evaluation could not be set up", traceback.format_exc())
            ctx.broken.append("correspondence: certified evaluation setup raised %r" % ex)
    ctx.log("decision-model correspondence ...")
    decision_correspondence(ctx)
    ctx.log("direct validation on real equations of state ...")
    direct_validation(ctx)
    certified_eval_finish(ctx, procs)
    ctx.log("certified evaluations done")
    ctx.cov["rule"] = (
        "decision model: random configurations (vJ, vMin, bracket, two range ends placed "
        "below / inside / exactly at / above the curve values at the window ends, both "
        "phase-end flags, all four prior flag states) with affine or one-kink monotone "
        "dyadic curves; distinct = distinct configuration. Direct validation: 2-step toy "
        "model (Tn grid), bag (psi, Tn), template EOS (random alN, psiN, cb2, cs2); every "
        "matching on a vw grid from vMin to 0.99 (bucketed deflagration/hybrid/detonation); "
        "ranges cut at random fractions of the T-(vw), T+(vw) spans")
    ctx.assumptions += [
        "scipy root / root_scalar / minimize_scalar return zeros of the residuals they are "
        "given (the theorems quantify over every such zero); brentq raises ValueError exactly "
        "when both ends have the same strict sign (brent_spec; compared on every synthetic case)",
        "T+(vw), T-(vw) are monotone inside the deflagration/hybrid window and T-(vw) "
        "decreases on the detonation branch (physics; scanned on every model)",
        "the slow end of the window is inside both tabulated ranges (otherwise the code "
        "returns vJ: see report)",
        "the detonation root returned by brentq on [Tn, argmin] is the first zero above Tn "
        "(scanned on every detonation matching)",
        "thermodynamic identities e = w - p, cs^2 = p'/e' (theorems of C10)"]


def replay(rep):
    print(json.dumps({k: v for k, v in rep.items() if k != "case"}, indent=1, default=str))
    case = rep.get("case")
    kind = rep.get("kind")
    if kind == "synthetic":
        class C:
            broken, violations = [], []

            def fail_input(self, what, r, key=None):
                print("REPRODUCED:", what)
                self.violations.append(what)

            def log(self, *a):
                print(*a)
        c = C()
        property_on_synthetic(c, case)
        return 1 if c.violations else 0
    if case is None:
        return 0
    model = make_model(case)
    if kind in ("range", "range-deton"):
        set_ranges(model, rep["TMaxLowT"], rep.get("lowEnds", False), rep["TMaxHighT"],
                   rep.get("highEnds", False))
    h = new_hydro(model)
    print("vJ=%r vMin=%r" % (h.vJ, h.vMin))
    if kind == "range":
        print("findMatching(vMin+vBracketLow=%r) =" % (h.vMin + h.vBracketLow),
              h.findMatching(h.vMin + h.vBracketLow))
        try:
            v = h.fastestDeflag()
            print("fastestDeflag() =", v, "flags", h.doesPhaseTraceLimitvmax)
        except Exception as ex:
            print("fastestDeflag() raised %r" % ex)
    if kind == "range-deton":
        print("slowestDeton() =", h.slowestDeton())
    if "vw" in rep:
        vp, vm, Tp, Tm = h.findMatching(rep["vw"])
        print("findMatching(%r) = v+ %r v- %r T+ %r T- %r; cs(T-) = %r; TMaxLowT %r TMaxHighT %r"
              % (rep["vw"], vp, vm, Tp, Tm, math.sqrt(model.csqLowT(Tm)), model.TMaxLowT,
                 model.TMaxHighT))
    return 1
