"""C06 -- matchings are admissible and correctly classified; Jouguet = Chapman-Jouguet point;
fastestDeflag / slowestDeton respect the tabulated temperature ranges."""
import json
import math
import os
import subprocess
import sys
import types
from fractions import Fraction

import numpy as np

import gen_hydro_adm
import gen_thermo
import pyrx
import vlib

EXPLANATION = (
    "The formulas that decide what kind of solution a matching is (vpvmAndvpovm, the residual "
    "closures `matching`, `tmFromvpsq`, `vpDerivNum`, the code executed after each scipy solver "
    "call in matchDeflagOrHyb, matchDeton, findJouguetVelocity, _inverseMappingT, the bracket "
    "orchestration of findJouguetVelocity (initial bracket, loop test and step, brentq/secant "
    "choice, brackets handed to the solvers), the template model's closed-form vJ, detonation "
    "branch and getVp) are regenerated from the two hydrodynamics source files by the pyrx "
    "translator. Coq proves for EVERY equation of state and every solver output that is a zero "
    "of the generated residual: v-^2=min(vw^2,cs^2) hence deflagration v-=vw / hybrid "
    "v-=cs(T-), speeds in the unit interval, mapped temperatures inside the hydro window; "
    "detonation v+=vw, T+=Tn, first root above Tn is the weak branch; vpDerivNum is the T- "
    "derivative of v+^2 up to a positive factor and factorises as K(v-^2-cs^2), so the "
    "detonation at the returned vJ is sonic, and a - -> + sign change makes vJ the minimum of "
    "v+; the bracket search walks adjacent intervals and hands brentq a bracket with a sign "
    "change; template: cb<=v-<v+ above vJ, v-=cb at vJ. The decision logic of fastestDeflag/"
    "slowestDeton is a hand-written model (Q instance compared by vm_compute with the real "
    "methods on synthetic curves; R instance carries the range theorems). The code's own tmSol "
    "is recorded and certified (Interval) to be a zero of the generated vpDerivNum with the "
    "sign change; vJ is compared with an independent Chapman-Jouguet reference also for strong "
    "transitions with short tables and small tmax; all clauses are evaluated on the real code "
    "for the 2-step, bag and template equations of state under several solver settings.")

sys.path.insert(0, os.path.join(vlib.REPO, "tests"))



# =======================================================================================
# 0. deterministic replay of the recorded known findings (one KNOWN-FINDING line each)
# =======================================================================================

def known_finding_replays(ctx):
    """The inputs recorded in known_findings.json are replayed on every run (no use of
    ctx.rng).  Each is reported only if it still fails in exactly the recorded way.  Elsewhere
    a failure is attributed to a known key only through the measured mechanism rules (see
    admissibility / vp_root_on_jump); every other clause stays active for such an input."""
    from test_Hydrodynamics import TestModelBag
    # (a) fastestDeflag raises TypeError because findMatching(vMin+vBracketLow) is (None,)*4
    try:
        model = TestModelBag(0.5, 0.9)
        set_ranges(model, TMaxLow=1.30744590709152, lowEnds=False)
        h = new_hydro(model)
        lo = h.vMin + h.vBracketLow
        start = h.findMatching(lo)
        ctx.count("known_finding_replay", bucket="window-start-unsolved")
        if start[0] is None:
            try:
                h.fastestDeflag()
            except TypeError as ex:
                ctx.fail_input(
                    "fastestDeflag raised %r: findMatching(vMin+vBracketLow=%.4g) returns no "
                    "solution [bag psi=0.5 Tn=0.9, rtol=atol=1e-8, TMaxLowT=1.30744590709152]"
                    % (ex, lo),
                    dict(kind="range", case=dict(eos="bag", psi=0.5, Tn=0.9), which="low",
                         TMaxLowT=1.30744590709152, TMaxHighT=500.0, lowEnds=False,
                         highEnds=False), key="fastestDeflag:window-start-unsolved")
    except Exception as ex:
        ctx.log("known-finding replay (a) could not be run:", repr(ex))
    # (b) spurious slow-wall solution near Tc makes fastestDeflag advertise the jump position
    try:
        TML, TMH = 1.0234292605860773, 1.0103859601831544
        model = TestModelBag(0.95, 0.95)
        set_ranges(model, TML, False, TMH, True)
        h = new_hydro(model)
        Tn = model.Tnucl
        slow = h.findMatching(0.002)
        ctx.count("known_finding_replay", bucket="spurious-slow-wall-solution")
        spurious = slow[0] is not None and abs(float(slow[2]) - Tn) > 0.01 * Tn
        if spurious:
            vmax = float(h.fastestDeflag())
            inside = []
            for vw in (0.05, 0.1, 0.3):
                _, _, Tp, Tm = h.findMatching(vw)
                inside.append(Tm <= TML and Tp <= TMH)
            if vmax < 0.01 and all(inside):
                ctx.fail_input(
                    "findMatching(0.002) returns the spurious solution T+=%.5f T-=%.5f (Tn=%.2f)"
                    " and fastestDeflag()=%.6f although the walls vw=0.05, 0.1, 0.3 are inside "
                    "both ranges [bag psi=0.95 Tn=0.95, rtol=atol=1e-8]" % (
                        float(slow[2]), float(slow[3]), Tn, vmax),
                    dict(kind="range", case=dict(eos="bag", psi=0.95, Tn=0.95), which="both",
                         TMaxLowT=TML, TMaxHighT=TMH, lowEnds=False, highEnds=True, vw=0.002),
                    key="findMatching:spurious-slow-wall-solution")
    except Exception as ex:
        ctx.log("known-finding replay (b) could not be run:", repr(ex))
    # (c) brentq in v+ converges onto a jump of shockTnuclDiff made by unconverged inner solves
    try:
        from test_Hydrodynamics import TestModel2Step
        model = TestModel2Step(0.2, 0.1, 0.4, 0.55)
        h = new_hydro(model, (10, 0.01, 1e-6, 1e-10))
        vw = 0.2448782744953586
        (vp, vm, Tp, Tm), conv = matching(h, vw)
        ctx.count("known_finding_replay", bucket="vp-root-on-unconverged-jump")
        if vp is not None and float(Tp) < model.Tnucl * (1 - 1e-3):
            back = vp_root_on_jump(h, vw, vp, Tp)
            if back is not None:
                what = ("findMatching(%.16g) = (v+=%.6f, v-=%.6f, T+=%.6f, T-=%.6f) with T+ < Tn="
                        "%.2f; the shock from it ends at %.6f, not Tn [2step Tn=0.55, "
                        "Hydrodynamics(model,10,0.01,1e-6,1e-10)]" % (
                            vw, vp, vm, Tp, Tm, model.Tnucl, back))
                rep = dict(kind="matching", case=dict(eos="2step", Tn=0.55), vw=vw,
                           hydro=[10, 0.01, 1e-6, 1e-10], shock_end=back)
                ctx.fail_input(what, rep, key=KNOWN_JUMP)
    except Exception as ex:
        ctx.log("known-finding replay (c) could not be run:", repr(ex))

# =======================================================================================
# 1. correspondence: decision model (Model/RangeLimit.v, Q instance) vs the real methods
# =======================================================================================

def q(x):
    x = Fraction(x)
    return "(%d # %d)" % (x.numerator, x.denominator)


class Curve:
    """monotone piecewise-affine curve with one optional kink; exact in Q, and in floats
    when the coefficients are dyadic"""

    def __init__(self, a, b, k=None, b2=None):
        self.a, self.b, self.k, self.b2 = Fraction(a), Fraction(b), k, b2

    def exact(self, v):
        v = Fraction(v)
        if self.k is None or v <= self.k:
            return self.a + self.b * v
        return self.a + self.b * self.k + self.b2 * (v - self.k)

    def __call__(self, v):
        v = float(v)
        if self.k is None or v <= float(self.k):
            return float(self.a) + float(self.b) * v
        return float(self.a) + float(self.b) * float(self.k) + float(self.b2) * (v - float(self.k))

    def coq(self):
        if self.k is None:
            return "(fun v : Q => %s + %s * v)" % (q(self.a), q(self.b))
        return "(fun v : Q => if Qle_bool v %s then %s + %s * v else %s + %s * (v - %s))" % (
            q(self.k), q(self.a), q(self.b), q(self.a + self.b * self.k), q(self.b2), q(self.k))

    def desc(self):
        return [str(self.a), str(self.b), None if self.k is None else str(self.k),
                None if self.b2 is None else str(self.b2)]


def synthetic_hydro(cfg, Tp, Tm, flags_in):
    """A real WallGo.Hydrodynamics object (its fastestDeflag / slowestDeton are the code
    under test) whose findMatching is replaced by the synthetic curves."""
    import WallGo
    h = object.__new__(WallGo.Hydrodynamics)
    h.vJ = float(cfg["vJ"])
    h.vMin = float(cfg["vMin"])
    h.vBracketLow = float(cfg["vBr"])
    h.TMaxLowT = float(cfg["TMaxLow"])
    h.TMaxHighT = float(cfg["TMaxHigh"])
    h.atol = 1e-12
    h.rtol = 1e-12
    h.thermodynamics = types.SimpleNamespace(
        freeEnergyLow=types.SimpleNamespace(
            maxPossibleTemperature=[h.TMaxLowT, bool(cfg["lowEnds"])]),
        freeEnergyHigh=types.SimpleNamespace(
            maxPossibleTemperature=[h.TMaxHighT, bool(cfg["highEnds"])]))
    h.doesPhaseTraceLimitvmax = list(flags_in)
    h.findMatching = lambda vw: (None, None, Tp(vw), Tm(vw))
    return h


def coq_cfg(cfg):
    return "(mk_cfg Q %s %s %s %s %s %s %s)" % (
        q(cfg["vJ"]), q(cfg["vMin"]), q(cfg["vBr"]), q(cfg["TMaxLow"]), q(cfg["TMaxHigh"]),
        "true" if cfg["lowEnds"] else "false", "true" if cfg["highEnds"] else "false")


def cb(b):
    return "true" if b else "false"


def pick_level(rng, lo_val, hi_val, allow_tie):
    """a range end relative to the curve values at the two ends of the window"""
    lo_val, hi_val = Fraction(lo_val), Fraction(hi_val)
    span = abs(hi_val - lo_val)
    kinds = ["below", "inside", "inside", "inside", "above", "above"]
    if allow_tie:
        kinds += ["tie_hi", "tie_lo"]
    kind = rng.choice(kinds)
    mn, mx = min(lo_val, hi_val), max(lo_val, hi_val)
    if kind == "below":
        return kind, mn - span * Fraction(rng.randint(1, 8), 16) - Fraction(1, 64)
    if kind == "above":
        return kind, mx + span * Fraction(rng.randint(1, 8), 16) + Fraction(1, 64)
    if kind == "tie_hi":
        return kind, hi_val
    if kind == "tie_lo":
        return kind, lo_val
    return kind, mn + span * Fraction(rng.randint(1, 63), 64)


def rand_curve(rng, v0, v1, t0, increasing):
    """curve through (v0, t0), monotone on [v0, v1]; dyadic coefficients"""
    b = Fraction(rng.randint(1, 64), 32)
    if not increasing:
        b = -b
    a = Fraction(t0) - b * Fraction(v0)
    if rng.random() < 0.4:
        k = Fraction(v0) + (Fraction(v1) - Fraction(v0)) * Fraction(rng.randint(1, 7), 8)
        b2 = Fraction(rng.randint(1, 64), 32) * (1 if increasing else -1)
        return Curve(a, b, k, b2)
    return Curve(a, b)


def decision_correspondence(ctx):
    rng = ctx.rng
    n = ctx.n(160, 1500)
    cases, meta = [], []
    tol = Fraction(1, 10 ** 8)
    for i in range(n):
        dy = rng.random() < 0.7        # fully dyadic configuration (exact float arithmetic)
        vJ = Fraction(rng.randint(32, 60), 64)
        vBr = Fraction(1, 1024) if dy else Fraction(1, 1000)
        vMin = rng.choice([Fraction(1, 1024), Fraction(rng.randint(1, 24), 64)])
        lo, hi = vMin + vBr, vJ - vBr
        Tn = Fraction(rng.randint(32, 96), 64)
        Tm = rand_curve(rng, lo, hi, Tn * Fraction(rng.randint(48, 63), 64), True)
        Tp = rand_curve(rng, lo, hi, Tn * Fraction(rng.randint(64, 72), 64), True)
        kL, TMaxLow = pick_level(rng, Tm.exact(lo), Tm.exact(hi), dy and Tm.k is None)
        kH, TMaxHigh = pick_level(rng, Tp.exact(lo), Tp.exact(hi), dy and Tp.k is None)
        cfg = dict(vJ=vJ, vMin=vMin, vBr=vBr, TMaxLow=TMaxLow, TMaxHigh=TMaxHigh,
                   lowEnds=rng.random() < 0.5, highEnds=rng.random() < 0.5)
        flags_in = rng.choice([(False, False)] * 3 + [(True, True), (True, False),
                                                       (False, True)])
        # ---- fastestDeflag
        h = synthetic_hydro(cfg, Tp, Tm, flags_in)
        try:
            res = h.fastestDeflag()
            fl = tuple(bool(x) for x in h.doesPhaseTraceLimitvmax)
            impl = "Some (%s, (%s, %s))" % (q(Fraction(float(res))), cb(fl[0]), cb(fl[1]))
        except Exception as ex:           # the model has no error outcome here
            impl = "None"
            res, fl = repr(ex), None
        term = ("match %s with Some (v, (f0, f1)) => "
                "let r := fastestDeflag opsQ %s %s %s brentqQ (%s, %s) in "
                "Qle_bool (Qabs (fst r - v)) %s && Bool.eqb (fst (snd r)) f0 && "
                "Bool.eqb (snd (snd r)) f1 | None => false end" % (
                    impl, coq_cfg(cfg), Tp.coq(), Tm.coq(), cb(flags_in[0]), cb(flags_in[1]),
                    q(tol)))
        cases.append(term)
        m = dict(kind="fastestDeflag", cfg={k: str(v) for k, v in cfg.items()},
                 Tp=Tp.desc(), Tm=Tm.desc(), flags_in=list(flags_in), impl_result=res,
                 impl_flags=fl, levels=[kL, kH])
        meta.append(m)
        ctx.count("fastestDeflag_synthetic", m, bucket="%s/%s" % (kL, kH))
        # ---- slowestDeton (T- decreasing on the detonation branch)
        dlo = vJ + Fraction(1, 10000)
        TmD = rand_curve(rng, dlo, 1, Tn * Fraction(rng.randint(66, 90), 64), False)
        kD, TMaxLowD = pick_level(rng, TmD.exact(dlo), TmD.exact(1), False)
        kD2, TMaxHighD = pick_level(rng, TmD.exact(dlo), TmD.exact(1), False)
        cfgD = dict(cfg, TMaxLow=TMaxLowD, TMaxHigh=TMaxHighD)
        h = synthetic_hydro(cfgD, lambda v: float(Tn), TmD, (False, False))
        try:
            res = h.slowestDeton()
            impl = "Some %s" % q(Fraction(float(res)))
        except Exception as ex:
            impl = "None"
            res = repr(ex)
        term = ("match %s with Some v => Qle_bool (Qabs (slowestDeton opsQ %s %s brentqQ - v)) "
                "%s | None => false end" % (impl, coq_cfg(cfgD), TmD.coq(), q(tol)))
        cases.append(term)
        m = dict(kind="slowestDeton", cfg={k: str(v) for k, v in cfgD.items()},
                 Tm=TmD.desc(), impl_result=res, levels=[kD, kD2])
        meta.append(m)
        ctx.count("slowestDeton_synthetic", m, bucket="%s/high:%s" % (kD, kD2))
        if i == 0:
            ctx.sample(meta[-2])
            ctx.sample(meta[-1])
    header = ("From Coq Require Import QArith Qabs Bool List.\nImport ListNotations.\n"
              "From WG Require Import Model.RangeLimit.\nLocal Open Scope Q_scope.\n")
    bad = ctx.run_cases("Decision", header, cases, per_file=80, timeout=600, jobs=8)
    for b in bad:
        ctx.broken.append("correspondence: decision model vs implementation (%s)" % b["file"])
        ctx.log("decision correspondence failed:", b["file"], b["err"][-300:])
        for k in b["cases"][:6]:
            m = meta[k]
            ctx.log("  disagreeing case:", json.dumps(m, default=str)[:600])
            property_on_synthetic(ctx, m)
        if not b["cases"]:
            ctx.log("  (could not identify the failing cases)")
    return not bad


def property_on_synthetic(ctx, m):
    """A synthetic configuration on which model and implementation disagree: evaluate the
    PROPERTY itself on the implementation's answer (the curves are exact, monotone)."""
    cfg = {k: (Fraction(v) if k not in ("lowEnds", "highEnds") else v == "True")
           for k, v in m["cfg"].items()}

    def mk(d):
        return Curve(Fraction(d[0]), Fraction(d[1]),
                     None if d[2] is None else Fraction(d[2]),
                     None if d[3] is None else Fraction(d[3]))
    Tm = mk(m["Tm"])
    if m["kind"] == "fastestDeflag":
        Tp = mk(m["Tp"])
        h = synthetic_hydro(cfg, Tp, Tm, m["flags_in"])
        v = h.fastestDeflag()
        lo, hi = float(cfg["vMin"] + cfg["vBr"]), float(cfg["vJ"] - cfg["vBr"])
        start_ok = Tm(lo) <= h.TMaxLowT and Tp(lo) <= h.TMaxHighT
        for x in np.linspace(lo, min(hi, v - 1e-6), 41):
            if start_ok and (Tm(x) > h.TMaxLowT * (1 + 1e-9) or Tp(x) > h.TMaxHighT * (1 + 1e-9)):
                ctx.fail_input(
                    "fastestDeflag()=%.6f but the slower wall vw=%.6f has T-=%.6f (TMaxLowT=%.6f)"
                    " T+=%.6f (TMaxHighT=%.6f) [synthetic monotone curves]" % (
                        v, x, Tm(x), h.TMaxLowT, Tp(x), h.TMaxHighT),
                    dict(kind="synthetic", case=m, vw=x), key="fastestDeflag:slower-wall-out-of-range")
                return
    else:
        h = synthetic_hydro(cfg, lambda v: 1.0, Tm, (False, False))
        v = h.slowestDeton()
        dlo = float(cfg["vJ"]) + 1e-4
        if v < 1:
            for x in np.linspace(max(v, dlo), 1.0, 41):
                if Tm(x) > h.TMaxLowT * (1 + 1e-9):
                    ctx.fail_input(
                        "slowestDeton()=%.6f but the faster detonation vw=%.6f has T-=%.6f > "
                        "TMaxLowT=%.6f [synthetic monotone curve]" % (v, x, Tm(x), h.TMaxLowT),
                        dict(kind="synthetic", case=m, vw=x),
                        key="slowestDeton:faster-wall-out-of-range")
                    return
        elif Tm(1.0) <= h.TMaxLowT:
            ctx.fail_input(
                "slowestDeton()=1 (no admissible detonation) although T-(vw=1)=%.6f <= "
                "TMaxLowT=%.6f [synthetic monotone curve]" % (Tm(1.0), h.TMaxLowT),
                dict(kind="synthetic", case=m), key="slowestDeton:returns-1-although-admissible")


# =======================================================================================
# 2. direct validation on real equations of state
# =======================================================================================

HYDRO_DEFAULT = (10, 0.01, 1e-8, 1e-8)
# (tmax, tmin, rtol, atol): tight, the package default (config.py: 1e-6 / 1e-10), two with
# rtol != atol in both orders, and a smaller hydro temperature window
HYDRO_CHOICES = [(10, 0.01, 1e-8, 1e-8), (10, 0.01, 1e-6, 1e-10), (10, 0.01, 1e-7, 1e-9),
                 (4, 0.01, 1e-9, 1e-7)]


def c15_template_nan_class(alN, cb2, cs2):
    """class rule of the C15 known finding template-alpha-below-threshold (template solver
    returns NaN / wrong v+): cb2 > cs2 and alN <= (mu - nu)/(3 mu)"""
    mu, nu = 1 + 1 / cs2, 1 + 1 / cb2
    return cb2 > cs2 and alN <= (mu - nu) / (3 * mu)


def eos_models(ctx):
    out = []
    rng = ctx.rng
    for Tn in ([0.5, 0.7, 0.8] if ctx.quick else
               [0.5, 0.55, 0.6, 0.65, 0.7, 0.75, 0.8, 0.85, 0.9, 0.95]):
        out.append(("2step Tn=%g" % Tn, dict(eos="2step", Tn=Tn)))
    for psi, Tn in ([(0.9, 0.9), (0.5, 0.9)] if ctx.quick else
                    [(0.9, 0.9), (0.9, 0.8), (0.8, 0.85), (0.7, 0.9), (0.5, 0.9), (0.95, 0.95)]):
        out.append(("bag psi=%g Tn=%g" % (psi, Tn), dict(eos="bag", psi=psi, Tn=Tn)))
    want = ctx.n(2, 12)
    while want:
        alN = round(rng.uniform(0.02, 0.25), 4)
        psiN = round(rng.uniform(0.6, 0.95), 4)
        cb2 = round(rng.uniform(0.26, 1 / 3), 4)
        cs2 = round(rng.uniform(0.28, 1 / 3), 4)
        Tn = rng.choice([1.0, 1.0, 100.0])           # a second unit system
        if alN <= 1.05 * (1 - psiN) / 3:
            # not a first-order transition at Tn: the low-T phase must have the higher
            # pressure there, p-(Tn) > p+(Tn) <=> alN > (1 - psiN)/3 (outside the quantifier)
            ctx.count("excluded_low_phase_not_favoured")
            continue
        if c15_template_nan_class(alN, cb2, cs2):
            # inside the quantifier, but the failure belongs to C15 (template solver NaN)
            ctx.count("excluded_C15_template_alpha_below_threshold")
            continue
        want -= 1
        out.append(("template alN=%g psiN=%g cb2=%g cs2=%g Tn=%g" % (alN, psiN, cb2, cs2, Tn),
                    dict(eos="template", alN=alN, psiN=psiN, cb2=cb2, cs2=cs2, Tn=Tn)))
    # solver settings: first model of each family tight, the others drawn (F5)
    seen = set()
    for label, case in out:
        if case["eos"] in seen:
            case["hydro"] = list(rng.choice(HYDRO_CHOICES))
        else:
            case["hydro"] = list(HYDRO_DEFAULT)
            seen.add(case["eos"])
    return out


def make_model(case):
    from test_Hydrodynamics import TestModel2Step, TestModelBag
    from test_HydroTemplateModel import TestModelTemplate
    if case["eos"] == "2step":
        return TestModel2Step(0.2, 0.1, 0.4, case["Tn"])
    if case["eos"] == "bag":
        return TestModelBag(case["psi"], case["Tn"])
    Tn = case.get("Tn", 1.0)
    m = TestModelTemplate(case["alN"], case["psiN"], case["cb2"], case["cs2"], Tn, 1.5 * Tn)
    big = 10.0 * Tn
    m.freeEnergyHigh.maxPossibleTemperature = [big, False]
    m.freeEnergyLow.maxPossibleTemperature = [big, False]
    m.freeEnergyHigh.minPossibleTemperature = [0.01 * Tn, False]
    m.freeEnergyLow.minPossibleTemperature = [0.01 * Tn, False]
    m.TMaxLowT = m.TMaxHighT = big
    m.TMinLowT = m.TMinHighT = 0.01 * Tn
    return m


def set_ranges(model, TMaxLow=None, lowEnds=False, TMaxHigh=None, highEnds=False):
    if TMaxLow is not None:
        model.TMaxLowT = TMaxLow
        model.freeEnergyLow.maxPossibleTemperature = [TMaxLow, lowEnds]
    if TMaxHigh is not None:
        model.TMaxHighT = TMaxHigh
        model.freeEnergyHigh.maxPossibleTemperature = [TMaxHigh, highEnds]


def new_hydro(model, args=None):
    """Hydrodynamics(model, tmax, tmin, rtol, atol) built by the real constructor; the calls
    root_scalar(vpDerivNum, ...) made by findJouguetVelocity are recorded from outside
    (h.c06_jouguet: method, start, root, converged, the closure itself)."""
    import WallGo
    import WallGo.hydrodynamics as hmod
    args = tuple(args or HYDRO_DEFAULT)
    rec = []
    orig = hmod.root_scalar

    def spy(f, *a, **k):
        res = orig(f, *a, **k)
        if getattr(f, "__name__", "") == "vpDerivNum":
            rec.append(dict(f=f, method=k.get("method"), bracket=k.get("bracket"),
                            x0=k.get("x0"), x1=k.get("x1"), root=float(res.root),
                            converged=bool(res.converged)))
        return res
    hmod.root_scalar = spy
    try:
        h = WallGo.Hydrodynamics(model, *args)
    finally:
        hmod.root_scalar = orig
    h.c06_jouguet = rec
    h.c06_args = args
    return h


class MatchingGuard:
    """While fastestDeflag / slowestDeton run: every exception raised INSIDE findMatching is
    recorded (the methods' `except ValueError` is meant for brentq's sign error only)."""

    def __init__(self, h):
        self.h, self.errors, self.calls = h, [], 0

    def __enter__(self):
        inner = type(self.h).findMatching.__get__(self.h)

        def wrapped(vw):
            self.calls += 1
            try:
                return inner(vw)
            except BaseException as ex:
                self.errors.append((float(vw), repr(ex)))
                raise
        self.h.findMatching = wrapped
        return self

    def __exit__(self, *a):
        del self.h.findMatching
        return False


HYBR = {"last": None, "installed": False, "calls": []}


def install_hybr_spy():
    """record (from outside, no source change) the result of the last scipy root(hybr) call
    made by matchDeflagOrHyb: a matching whose 2x2 solve did NOT converge is returned all the
    same (C02 unconverged-matching-returned / -accepted) -- the narrow mechanism behind the
    C06 known finding findMatching:spurious-slow-wall-solution"""
    import WallGo.hydrodynamics as hmod
    if HYBR["installed"] and getattr(hmod.root, "c06_spy", False):
        return
    orig = hmod.root

    def spy(*a, **k):
        r = orig(*a, **k)
        HYBR["last"] = r
        HYBR["calls"].append(bool(r.success))
        return r
    spy.c06_spy = True
    hmod.root = spy
    HYBR["installed"] = True


def matching(h, vw):
    """h.findMatching(vw) and whether its last hybr solve converged (None: no hybr call)"""
    install_hybr_spy()
    HYBR["last"] = None
    HYBR["calls"] = []
    r = h.findMatching(float(vw))
    last = HYBR["last"]
    return r, (None if last is None else bool(last.success))


SLOW = 0.05     # "very slow wall" of the known finding
KNOWN_SLOW = "findMatching:spurious-slow-wall-solution"
KNOWN_JUMP = "findMatching:vp-root-on-unconverged-jump"


def vp_root_on_jump(h, vw, vp, Tp):
    """Narrow mechanism of the finding KNOWN_JUMP, measured on the live object: the returned
    (v+, T+) does NOT satisfy the shock boundary condition (the shock started from it ends more
    than 0.1% away from Tn) AND the shooting residual the code's brentq was given,
        r(x) = solveHydroShock(vw, x, matchDeflagOrHyb(vw, x).T+) - Tn,
    rebuilt here, JUMPS across the returned v+: for some d in {10,100,1000} brentq tolerances,
    r(v+ - d) and r(v+ + d) have opposite signs, both exceed 0.1% Tn in size, and one of the
    two 2x2 solves did not converge (Hydrodynamics.success False).  A genuine zero of a wrong
    function, or any other wrong v+, does not pass.  Returns the shock end temperature or None."""
    Tn = h.Tnucl
    vw, vp = float(vw), float(vp)
    try:
        back = float(h.solveHydroShock(vw, vp, float(Tp)))
    except Exception:
        return None
    if abs(back - Tn) <= 1e-3 * Tn:
        return None

    def r(x):
        t = h.matchDeflagOrHyb(vw, x)
        ok = bool(h.success)
        return float(h.solveHydroShock(vw, x, float(t[2]))) - Tn, ok
    step = h.atol + h.rtol * vp
    for d in (10 * step, 100 * step, 1000 * step, 1e-7, 1e-6, 1e-5):
        if not 0 < d < 0.5 * vp:
            continue
        try:
            (ra, oka), (rb, okb) = r(vp - d), r(vp + d)
        except Exception:
            continue
        if ra * rb < 0 and min(abs(ra), abs(rb)) > 1e-3 * Tn and not (oka and okb):
            return back
    return None


def deton_residual(model, vw, tm):
    """the residual handed to brentq in matchDeton (harness copy, for scanning)"""
    Tn = model.Tnucl
    pH, wH = model.pHighT(Tn), model.wHighT(Tn)
    eH = wH - pH
    pL, wL = model.pLowT(tm), model.wLowT(tm)
    eL = wL - pL
    return vw ** 2 * (eH - eL) - (pH - pL) * (eL + pH) / (eH + pL)


def cj_reference(model):
    """Independent Chapman-Jouguet point from p and e only: the minimum of
    v+^2(T-) = (p+ - p-)(p+ + e-)/((e+ - e-)(e+ + p-)) over the detonation branch
    (e- > e+, p- > p+).  Returns (vJ, T-)."""
    from scipy.optimize import minimize_scalar
    Tn = model.Tnucl
    pH, eH = float(model.pHighT(Tn)), float(model.eHighT(Tn))

    def vpsq(t):
        pL, eL = float(model.pLowT(t)), float(model.eLowT(t))
        if not (eH - eL < 0 and pH - pL < 0):
            return float("inf")
        return (pH - pL) * (pH + eL) / (eH - eL) / (eH + pL)
    ts = np.geomspace(Tn, 40 * Tn, 4000)
    vals = np.array([vpsq(t) for t in ts])
    i = int(np.argmin(vals))
    if not np.isfinite(vals[i]) or i == 0 or i == len(ts) - 1:
        return None
    r = minimize_scalar(vpsq, bounds=(ts[i - 1], ts[i + 1]), method="bounded",
                        options=dict(xatol=1e-12 * Tn))
    if not (0 < r.fun < 1):
        return None
    return math.sqrt(r.fun), float(r.x)


MARGINS = {}


def margin(name, value, tol):
    """measured value / tolerance, worst case per check (recorded in the evidence)"""
    if tol > 0 and np.isfinite(value):
        MARGINS[name] = max(MARGINS.get(name, 0.0), float(value) / tol)


def jouguet_checks(ctx, label, case, model, h, templ_exact):
    """F1: the code's tmSol is a zero of vpDerivNum with a sign change - -> + (minimum of v+),
    and the advertised vJ is the Chapman-Jouguet point; the only accepted deviation is the
    documented fallback to the template's vJ when T-(CJ) lies outside the hydro temperature
    window [.., tmax*Tn] (the detonation at vJ cannot be represented there)."""
    Tn = model.Tnucl
    tmax = h.c06_args[0]
    rep = dict(kind="jouguet", case=case, hydro=list(h.c06_args), TMaxLowT=model.TMaxLowT,
               vJ=h.vJ, template_vJ=h.template.vJ)
    if not (isinstance(h.vJ, float) and 0 < h.vJ < 1):
        ctx.fail_input("vJ=%r is not a velocity in (0,1) [%s]" % (h.vJ, label), rep,
                       key="CJ:vJ-not-in-(0,1)")
        return None
    ref = cj_reference(model)
    ctx.count("jouguet", dict(case=case, hydro=list(h.c06_args), cut=model.TMaxLowT),
              bucket="tmax=%g" % tmax)
    if ref is None:
        ctx.broken.append("harness: no reference Chapman-Jouguet point for %s" % label)
        return None
    vref, Tref = ref
    rep.update(vJ_reference=vref, Tm_reference=Tref)
    THy = tmax * Tn
    fell_back = (h.vJ == h.template.vJ)
    if Tref > THy * (1 + 1e-3):
        # outside the configured temperature window: only the documented fallback (logged by
        # the code) or the true point are acceptable
        ctx.count("jouguet_outside_hydro_window", bucket="fallback" if fell_back else (
            "secant-converged-on-CJ" if abs(h.vJ - vref) <= 1e-6 else "other"))
        good = [r for r in h.c06_jouguet if r["converged"]]
        if not fell_back and good:
            # a converged result was accepted outside the window: it must still be a zero
            r = good[-1]
            sc = max(abs(r["f"](Tn)), abs(r["f"](2 * Tn)), 1e-300)
            ctx.count("tmSol_zero", bucket=str(r["method"]) + "-outside-window")
            if abs(r["f"](r["root"])) > 1e-6 * sc:
                ctx.fail_input("findJouguetVelocity accepted tmSol=%.8f from %s where "
                               "|vpDerivNum| = %.3e * scale: not a zero [%s]" % (
                                   r["root"], r["method"], abs(r["f"](r["root"])) / sc, label),
                               rep, key="CJ:tmSol-not-a-zero")
        if not fell_back and abs(h.vJ - vref) > 1e-6:
            ctx.fail_input("T-(CJ)=%.4f > tmax*Tn=%.4f and vJ=%.8f is neither the template "
                           "fallback %.8f nor the Chapman-Jouguet velocity %.8f [%s]" % (
                               Tref, THy, h.vJ, h.template.vJ, vref, label), rep,
                           key="CJ:vJ-not-chapman-jouguet")
        return ref
    if Tref > THy * (1 - 1e-3):
        return ref                      # margin band around the window end
    err = abs(h.vJ - vref)
    # vJ is stationary in T-: an error d in tmSol moves vJ by O(d^2); 1e-7 also covers the
    # reference's own minimisation (xatol 1e-12) -- measured margins are in the evidence
    margin("vJ_vs_reference(1e-7)", err, 1e-7)
    if err > 1e-7:
        why = " = template fallback (silently: only a log line)" if fell_back and not templ_exact \
            else ""
        ctx.fail_input("vJ=%.8f%s but the Chapman-Jouguet velocity (minimum of v+ over T-) is "
                       "%.8f at T-=%.5f = %.3f Tn < tmax*Tn [%s, tmax=%g, TMaxLowT=%.4g]" % (
                           h.vJ, why, vref, Tref, Tref / Tn, label, tmax, model.TMaxLowT), rep,
                       key="CJ:vJ-not-chapman-jouguet")
        return ref
    # the recorded solver call: hypothesis "vpDerivNum e tmSol = 0" of the CJ theorems
    good = [r for r in h.c06_jouguet if r["converged"]]
    if not good:
        ctx.fail_input("vJ=%.8f is right but no converged root_scalar(vpDerivNum) call was "
                       "recorded (%d calls) [%s]" % (h.vJ, len(h.c06_jouguet), label), rep,
                       key="CJ:tmSol-not-recorded")
        return ref
    r = good[-1]
    f, tm = r["f"], r["root"]
    scale = max(abs(f(Tn)), abs(f(min(2 * Tn, THy))), 1e-300)
    res = abs(f(tm))
    # |f(root)| <~ |f'| * max(xtol, rtol*root): with f' ~ scale/Tn this is ~ rtol*scale*few
    rtol = max(h.c06_args[2], h.c06_args[3] / Tn, 1e-12)
    tol = 100 * rtol
    margin("vpDerivNum(tmSol)/scale (100 rtol)", res / scale, tol)
    rep.update(tmSol=tm, method=r["method"], residual=res / scale)
    ctx.count("tmSol_zero", bucket=str(r["method"]))
    if res > tol * scale:
        ctx.fail_input("findJouguetVelocity accepted tmSol=%.8f from %s where |vpDerivNum| = "
                       "%.3e * scale: not a zero [%s]" % (tm, r["method"], res / scale, label),
                       rep, key="CJ:tmSol-not-a-zero")
    d = 1e-3
    if not (f(tm * (1 - d)) < 0 < f(tm * (1 + d))):
        ctx.fail_input("vpDerivNum does not change sign - -> + across tmSol=%.8f (%.3e, %.3e): "
                       "vJ is not a minimum of v+(T-) [%s]" % (tm, f(tm * (1 - d)),
                                                              f(tm * (1 + d)), label), rep,
                       key="CJ:tmSol-not-a-minimum")
    # the reference T- sits in a flat minimum (accuracy ~ sqrt(eps) Tn): 1e-4 Tn
    margin("tmSol_vs_reference(1e-4 Tn)", abs(tm - Tref) / Tn, 1e-4)
    if abs(tm - Tref) > 1e-4 * Tn:
        ctx.fail_input("tmSol=%.8f differs from the reference T-(CJ)=%.8f [%s]" % (
            tm, Tref, label), rep, key="CJ:tmSol-not-a-zero")
    return ref


def clause_failures(kind, vw, vp, vm, Tp, Tm, cs, Tn, vJ, tol=1e-9):
    """the admissibility clauses of the statement for one matching; list of failing clauses"""
    bad = []
    if not (0 < vp < 1 and 0 < vm <= 1 and (vm < 1 or vw >= 1)):
        bad.append("speeds outside (0,1)")
    if not (Tp > 0 and Tm > 0):
        bad.append("temperature not positive")
    if kind == "detonation":
        if abs(vp - vw) > 1e-12:
            bad.append("detonation with v+ != vw")
        if abs(Tp - Tn) > 1e-12 * Tn:
            bad.append("detonation with T+ != Tn")
        if not vm < vp:
            bad.append("detonation with v- >= v+")
        # v- - cs ~ sqrt(vw - vJ) near vJ; 2e-4 relative is the measured rounding of
        # sqrt(vpvm/vpovm) vs sqrt(csq) exactly AT the Jouguet point (see margins)
        if vm < cs * (1 - 2e-4):
            bad.append("detonation with v- below the sound speed behind the wall (strong branch)")
    else:
        if abs(vm - min(vw, cs)) > 1e-9:
            bad.append("%s with v- != min(vw, cs(T-))" % kind)
        if not vp < vm:
            bad.append("%s with v+ >= v-" % kind)
        # T+ - Tn is O(vw^2) for slow walls: compared at the accuracy of the shock solve
        if not Tp > Tn * (1 - tol):
            bad.append("%s with T+ below the nucleation temperature" % kind)
    return bad


def vw_grid_short(h):
    """strong-family grid: window start, 3 interior points, both sides of vJ, towards 1"""
    lo0 = h.vMin + h.vBracketLow
    top = h.vJ * (1 - 1e-3)
    grid = [lo0] + [lo0 + f * (top - lo0) for f in (0.25, 0.5, 0.75)] + \
        [top, h.vJ * (1 + 1e-6), h.vJ * (1 + 1e-2), 0.5 * (h.vJ + 0.99), max(0.99, 0.5 * (h.vJ + 1))]
    return sorted(set(float(v) for v in grid if lo0 <= v < 1)), {float(lo0)}


def vw_grid(ctx, h):
    """from the slow end of the bracket used by fastestDeflag (vMin + vBracketLow) to 0.99:
    regular points, the points around vJ, and seeded random points stratified over the slow
    end, the deflagration/hybrid transition, both sides of vJ and the ultra-relativistic end"""
    rng = ctx.rng
    lo0 = h.vMin + h.vBracketLow
    nv = ctx.n(12, 50)
    first = h.vMin + 2e-3 if h.vMin > h.vBracketLow else 0.02
    head = [lo0] + [v for v in (2 * lo0, 4 * lo0, 8 * lo0) if v < first]
    grid = head + list(np.linspace(first, h.vJ * (1 - 1e-6), nv)) + \
        list(np.linspace(h.vJ * (1 + 1e-6), 0.99, nv // 2 + 2)) + \
        [h.vJ * (1 - 1e-3), h.vJ * (1 + 1e-3)]
    cb = getattr(h.template, "cb", 0.55)
    grid += [math.exp(rng.uniform(math.log(lo0), math.log(max(first, 1.01 * lo0)))),
             min(cb, h.vJ) * rng.uniform(0.9, 0.999),
             min(cb, h.vJ) + (h.vJ - min(cb, h.vJ)) * rng.uniform(0.001, 0.2),
             h.vJ * (1 - 10 ** rng.uniform(-5, -2)), h.vJ * (1 + 10 ** rng.uniform(-5, -2)),
             rng.uniform(0.99, 0.9999)]
    return sorted(set(float(v) for v in grid if lo0 <= v < 1)), set(float(v) for v in head)


def admissibility(ctx, label, case, model, h, short=False):
    """every matching over vw in [vMin+vBracketLow, 0.99]: speeds, temperatures, branch,
    orderings.  Returns the curve and the velocity below which the known slow-wall finding
    (spurious solution) was met (None if not)."""
    Tn = model.Tnucl
    grid, head = vw_grid_short(h) if short else vw_grid(ctx, h)
    curve = []
    pending = []          # head points whose only failing clause concerns T+
    for vw in grid:
        rep = dict(kind="matching", case=case, vw=float(vw), hydro=list(h.c06_args))
        try:
            (vp, vm, Tp, Tm), conv = matching(h, vw)
        except Exception as ex:
            ctx.fail_input("findMatching(%.6f) raised %r [%s]" % (vw, ex, label), rep,
                           key="findMatching-raises")
            continue
        if vp is None:
            ctx.fail_input("findMatching(%.6f) returned no solution inside [vMin, 0.99] [%s]"
                           % (vw, label), rep, key="findMatching-none")
            continue
        vp, vm, Tp, Tm = float(vp), float(vm), float(Tp), float(Tm)
        if not all(np.isfinite([vp, vm, Tp, Tm])):
            ctx.fail_input("findMatching(%.6f) = (%r, %r, %r, %r) is not finite [%s]" % (
                vw, vp, vm, Tp, Tm, label), rep, key="findMatching-not-finite")
            continue
        cs = math.sqrt(max(float(model.csqLowT(Tm)), 0.0))
        rep.update(vp=vp, vm=vm, Tp=Tp, Tm=Tm, cs_minus=cs, vJ=h.vJ)
        deton = vw > h.vJ
        kind = "detonation" if deton else ("deflagration" if vw < cs else "hybrid")
        ctx.count("admissibility", dict(case=case, vw=round(float(vw), 9)),
                  bucket="%s:%s" % (case["eos"], kind))
        # T+ - Tn is only ~1e-6 Tn for slow walls while the inner root for Tn stops at
        # xtol = atol (absolute) and the outer one at rtol: the shock solve determines T+ to
        # ~100 max(rtol, atol/Tn) (measured: 7e-6 .. 1.8e-5 at atol = 1e-7 and vw ~ 0.002); the
        # v+ root has an ABSOLUTE xtol = atol, i.e. relative accuracy ~ atol/v+ ~ 1/vw: factor
        # max(1, 0.02/vw)
        bad = clause_failures(kind, vw, vp, vm, Tp, Tm, cs, Tn, h.vJ,
                              tol=max(1e-9, 100 * max(h.c06_args[2], h.c06_args[3] / Tn)
                                      * max(1.0, 0.02 / vw)))
        rep["hybr_converged"] = conv
        if deton and not bad:
            # hypothesis of first_root_detonation_is_weak: residual >= 0 on [Tn, Tm)
            ts = np.linspace(Tn, Tm, 24)[:-1]
            r = [deton_residual(model, vw, t) for t in ts]
            sc = abs(deton_residual(model, vw, Tn)) + 1e-300
            ctx.count("first_root_scan")
            if min(r) < -1e-7 * sc:
                bad.append("detonation root is not the first root above Tn (residual changes "
                           "sign before it)")
        if bad and not deton and all("T+ below" in b for b in bad):
            back = vp_root_on_jump(h, vw, vp, Tp)
            if back is not None:
                ctx.fail_input("vw=%.6f: v+=%.6f T+=%.6f T-=%.6f is not the matching for Tn=%.4g: "
                               "its shock ends at %.6f; brentq in v+ stopped on a jump of the "
                               "shooting residual caused by an unconverged 2x2 solve [%s]" % (
                                   vw, vp, Tp, Tm, Tn, back, label), dict(rep, shock_end=back),
                               key=KNOWN_JUMP)
                continue
        # narrow class rule of the known finding: a very slow wall (vw < 0.05, where the true
        # T+ - Tn < 1e-3 Tn) whose last hybr solve did NOT converge, whose T+ is off Tn by more
        # than 0.5% or below Tn, and at which no other clause fails
        slow = (not deton) and vw < SLOW and conv is False
        offT = abs(Tp - Tn) > 5e-3 * Tn or any("T+ below" in b for b in bad)
        if slow and offT and all("T+ below" in b for b in bad):
            pending.append((vw, rep, bad))
        else:
            for b in bad:
                ctx.fail_input("vw=%.6f: %s (v+=%.6f v-=%.6f T+=%.6f T-=%.6f cs-=%.6f vJ=%.6f) "
                               "[%s]" % (vw, b, vp, vm, Tp, Tm, cs, h.vJ, label), rep,
                               key="admissibility:" + b.split(" (")[0])
        curve.append((float(vw), Tp, Tm, deton))
    jump_v = None
    for vw, rep, bad in pending:
        jump_v = max(jump_v or 0.0, vw)
        ctx.fail_input("vw=%.6f: spurious slow-wall solution from an unconverged 2x2 solve: "
                       "T+=%.6f T-=%.6f (Tn=%.4g) [%s]" % (vw, rep["Tp"], rep["Tm"], Tn, label),
                       rep, key=KNOWN_SLOW)
    if jump_v is not None:
        # the next scanned wall above the spurious ones
        nxt = [c[0] for c in curve if c[0] > jump_v]
        jump_v = nxt[0] if nxt else jump_v
    return curve, jump_v


def chapman_jouguet(ctx, label, case, model, h):
    """a detonation at the Jouguet velocity has v- = cs(T-); vJ separates the families"""
    rep = dict(kind="CJ", case=case, vJ=h.vJ, hydro=list(h.c06_args))
    ctx.count("chapman_jouguet", case)
    eps = 1e-9
    try:
        vp, vm, Tp, Tm = h.matchDeton(h.vJ * (1 + eps))
    except Exception as ex:
        ctx.fail_input("matchDeton(vJ(1+1e-9)) raised %r [%s]" % (ex, label), rep,
                       key="CJ:matchDeton-raises")
        return
    cs = math.sqrt(float(model.csqLowT(Tm)))
    rep.update(vm=float(vm), cs_minus=cs, Tm=float(Tm))
    # sensitivity: v- - cs ~ sqrt(vw - vJ); vJ itself is known to ~rtol
    margin("sonic_at_vJ(2e-3)", abs(vm - cs), 2e-3)
    if abs(vm - cs) > 2e-3:
        ctx.fail_input("detonation at the Jouguet velocity vJ=%.8f has v-=%.6f but cs(T-)=%.6f "
                       "(T-=%.6f) [%s]" % (h.vJ, vm, cs, Tm, label), rep, key="CJ:not-sonic")
    vJ_is_smallest_detonation(ctx, label, rep, model, h)
    # template closed form on the template EOS
    if case["eos"] == "template":
        t = h.template
        if abs(t.vJ - h.vJ) > 1e-5:
            ctx.fail_input("template vJ=%.8f differs from the general vJ=%.8f on the template "
                           "EOS [%s]" % (t.vJ, h.vJ, label), rep, key="CJ:template-vJ")
    t = h.template          # the template model of ANY equation of state is a template model
    vp, vm, Tp, Tm = t.detonationVAndT(t.vJ)
    if abs(vm - t.cb) > 1e-6:
        ctx.fail_input("template detonation at vJ has v-=%.8f != cb=%.8f [%s]" % (
            vm, t.cb, label), rep, key="CJ:template-not-sonic")
    for vw in np.linspace(t.vJ * (1 + 1e-6), 0.995, 9):
        vp, vm, Tp, Tm = t.detonationVAndT(float(vw))
        ctx.count("template_deton_branch")
        if not (t.cb * (1 - 1e-9) <= vm < vp == vw):
            ctx.fail_input("template detonation vw=%.6f: v-=%.6f not in [cb=%.6f, v+) [%s]"
                           % (vw, vm, t.cb, label), dict(rep, vw=float(vw)),
                           key="template:deton-branch")


def template_deflagration_branch(ctx, label, case, h):
    """the template model's own findMatching below its vJ (used by WallGoManager and as the
    fallback of Hydrodynamics.findMatching): same admissibility clauses"""
    t = h.template
    if c15_template_nan_class(t.alN, t.cb2, t.cs2):
        ctx.count("template_branch_skipped_C15_class")
        return
    Tn = t.Tnucl
    for vw in np.linspace(max(t.vMin, 0.0) + 0.02, t.vJ * (1 - 1e-4), ctx.n(5, 12)):
        rep = dict(kind="template-matching", case=case, vw=float(vw))
        try:
            vp, vm, Tp, Tm = t.findMatching(float(vw))
        except Exception as ex:
            ctx.fail_input("template.findMatching(%.6f) raised %r [%s]" % (vw, ex, label), rep,
                           key="template:findMatching-raises")
            continue
        ctx.count("template_deflag_branch")
        if vp is None:
            ctx.fail_input("template.findMatching(%.6f) returned no solution above its vMin=%.4f "
                           "[%s]" % (vw, t.vMin, label), rep, key="template:findMatching-none")
            continue
        vp, vm, Tp, Tm = float(vp), float(vm), float(Tp), float(Tm)
        kind = "deflagration" if vw < t.cb else "hybrid"
        ok = all(np.isfinite([vp, vm, Tp, Tm]))
        bad = clause_failures(kind, vw, vp, vm, Tp, Tm, t.cb, Tn, t.vJ) if ok else ["not finite"]
        for b in bad:
            ctx.fail_input("template vw=%.6f: %s (v+=%.6f v-=%.6f T+=%.6f T-=%.6f cb=%.6f) [%s]"
                           % (vw, b, vp, vm, Tp, Tm, t.cb, label), rep,
                           key="template-admissibility:" + b.split(" (")[0])


def vmin_consistency(ctx, label, case, h):
    """vMin is the code's own ground truth for every grid and bracket above: when it is not
    the floor vBracketLow it must be where the strongest shock reaches Tn (sign change of
    strongestShock - Tn), and strictly below vJ"""
    rep = dict(kind="vMin", case=case, vMin=h.vMin, hydro=list(h.c06_args))
    ctx.count("vMin_consistency", bucket="floor" if h.vMin <= h.vBracketLow else "shock")
    if not (h.vBracketLow <= h.vMin < h.vJ):
        ctx.fail_input("vMin=%r is not in [vBracketLow, vJ=%.6f) [%s]" % (h.vMin, h.vJ, label),
                       rep, key="vMin:not-below-vJ")
        return
    if h.vMin > h.vBracketLow:
        Tn = h.Tnucl
        a = h.strongestShock(h.vMin * 0.99) - Tn
        b = h.strongestShock(min(h.vMin * 1.01, h.vJ)) - Tn
        c = h.strongestShock(h.vMin) - Tn
        margin("strongestShock(vMin)-Tn (1e-4 Tn)", abs(c) / Tn, 1e-4)
        if not (a * b < 0 and abs(c) < 1e-4 * Tn):
            ctx.fail_input("vMin=%.6f is not where the strongest shock reaches Tn: "
                           "strongestShock-Tn = %.3e, %.3e, %.3e at 0.99 vMin, vMin, 1.01 vMin [%s]"
                           % (h.vMin, a, c, b, label), rep, key="vMin:not-strongest-shock-root")


def vJ_is_smallest_detonation(ctx, label, rep, model, h):
    """Chapman-Jouguet point, stated with p and e only (so also valid when the tabulated
    ranges are cut): a detonation matching exists just above the advertised vJ and none just
    below it."""
    ts = np.geomspace(model.Tnucl, 12 * model.Tnucl, 1200)
    below = min(deton_residual(model, h.vJ * (1 - 2e-3), t) for t in ts)
    above = min(deton_residual(model, h.vJ * (1 + 2e-3), t) for t in ts)
    ctx.count("vJ_smallest_detonation")
    if below <= 0 or above > 0:
        ctx.fail_input(
            "the advertised vJ=%.6f is not the Chapman-Jouguet velocity: min over T- of the "
            "detonation residual is %.3e at 0.998 vJ (must be > 0) and %.3e at 1.002 vJ (must be "
            "< 0) [TMaxLowT=%.6g, %s]" % (h.vJ, below, above, model.TMaxLowT, label),
            dict(rep, vJ=h.vJ), key="CJ:vJ-not-smallest-detonation")


def monotone(vals, increasing, rel=1e-6):
    bad = 0
    for a, b in zip(vals, vals[1:]):
        if (b < a * (1 - rel)) if increasing else (b > a * (1 + rel)):
            bad += 1
    return bad


def call_guarded(ctx, label, rep, h, name):
    """h.fastestDeflag() / h.slowestDeton() with findMatching guarded; returns value or None"""
    with MatchingGuard(h) as g:
        try:
            val = float(getattr(h, name)())
            raised = None
        except Exception as ex:
            val, raised = None, ex
    ctx.count(name + "_guarded_calls")
    if raised is not None:
        ctx.fail_input("%s raised %r [%s]" % (name, raised, label), rep, key=name + "-raises")
    elif g.errors:
        ctx.fail_input("%s()=%.6f swallowed an exception raised inside findMatching(%.6f): %s "
                       "[%s]" % (name, val, g.errors[0][0], g.errors[0][1], label),
                       dict(rep, errors=g.errors[:3]), key=name + ":foreign-exception-swallowed")
    return val


def independent_Tm_deton(model, vw):
    """T-(vw) of a detonation from p and e only (harness copy of the junction residual):
    the FIRST zero above Tn"""
    from scipy.optimize import brentq, minimize_scalar
    Tn = model.Tnucl
    f = lambda t: deton_residual(model, vw, t)
    ts = np.geomspace(Tn, 12 * Tn, 600)
    vals = [f(t) for t in ts]
    if not vals[0] > 0:
        return None
    for a, b, fa, fb in zip(ts, ts[1:], vals, vals[1:]):
        if fa > 0 >= fb:
            return float(brentq(f, a, b, xtol=1e-13 * Tn))
    # close to the Jouguet velocity the residual dips below zero only on a short interval
    i = int(np.argmin(vals))
    if 0 < i < len(ts) - 1:
        r = minimize_scalar(f, bounds=(ts[i - 1], ts[i + 1]), method="bounded",
                            options=dict(xatol=1e-13 * Tn))
        if r.fun <= 0:
            return float(brentq(f, ts[i - 1], float(r.x), xtol=1e-13 * Tn))
    return None


def judge_cut_matching(ctx, label, rep, model, h, vw, ref_model):
    """a matching returned by a CUT-table object is judged like any other: clauses, junction
    residual, and (detonations: p, e only) agreement with the independent T-(vw)"""
    (vp, vm, Tp, Tm), conv = matching(h, vw)
    if vp is None:
        ctx.fail_input("findMatching(%.6f) returned no solution on the cut-table object [%s]" % (
            vw, label), dict(rep, vw=float(vw)), key="findMatching-none")
        return None
    vp, vm, Tp, Tm = float(vp), float(vm), float(Tp), float(Tm)
    Tn = model.Tnucl
    ctx.count("cut_object_matching")
    if vw > h.vJ:
        cs = math.sqrt(max(float(model.csqLowT(Tm)), 0.0))
        bad = clause_failures("detonation", vw, vp, vm, Tp, Tm, cs, Tn, h.vJ)
        # v- >= cs is judged on the ample model only (toy models freeze cs^2 above the cut)
        bad = [b for b in bad if "strong branch" not in b]
        Tind = independent_Tm_deton(ref_model, vw)
        if Tind is None:
            bad.append("no detonation solution exists (p, e only) but one was returned")
        else:
            # the code's brentq for T- stops at xtol = atol, rtol
            tolTm = max(1e-6, 10 * max(h.c06_args[2], h.c06_args[3] / Tn))
            margin("cut_deton_Tm_vs_independent (max(1e-6, 10 rtol))", abs(Tm - Tind) / Tind, tolTm)
            if abs(Tm - Tind) > tolTm * Tind:
                bad.append("detonation T-=%.8f differs from the junction solution %.8f" % (Tm, Tind))
        res = abs(deton_residual(ref_model, vw, Tm)) / (abs(deton_residual(ref_model, vw, Tn)) + 1e-300)
        if res > max(1e-5, 100 * max(h.c06_args[2], h.c06_args[3] / Tn)):
            bad.append("detonation violates the junction condition (relative residual %.2e)" % res)
        for b in bad:
            ctx.fail_input("cut-table object (TMaxLowT=%.6g): vw=%.6f: %s (v+=%.6f v-=%.6f T+=%.6f "
                           "T-=%.6f) [%s]" % (model.TMaxLowT, vw, b, vp, vm, Tp, Tm, label),
                           dict(rep, vw=float(vw), vp=vp, vm=vm, Tp=Tp, Tm=Tm),
                           key="admissibility:" + b.split(" (")[0].split(" T-=")[0])
    return vp, vm, Tp, Tm, conv


def range_limits(ctx, label, case, curve, h0, jump_v, light=False):
    """tabulated ranges that cut the window short, with the 'phase really ends' flag both
    ways: the advertised fastest deflagration / slowest detonation"""
    Tn = h0.Tnucl
    args = h0.c06_args
    rtol = max(args[2], args[3])
    tolT = max(2e-5, 30 * rtol)   # T at a velocity known to ~rtol, dT/dvw = O(1): measured below
    defl = [(v, Tp, Tm) for v, Tp, Tm, d in curve if not d and (jump_v is None or v >= jump_v)]
    det = [(v, Tp, Tm) for v, Tp, Tm, d in curve if d]
    if len(defl) < 4 or len(det) < 3:
        ctx.broken.append("harness: too few matchings for the range tests on %s" % label)
        return
    # hypothesis of the theorems: monotone in vw (scanned, above the known slow-wall jump)
    nm = monotone([x[2] for x in defl], True, 1e-3) + monotone([x[1] for x in defl], True, 1e-3)
    nd = monotone([x[2] for x in det], False, 1e-3)
    ctx.count("monotonicity_scan", bucket="violations=%d" % (nm + nd))
    if nm + nd:
        ctx.log("note: T+-(vw) not monotone on the scan for", label, "(%d steps)" % (nm + nd))
    rng = ctx.rng
    Tm_lo, Tm_hi = defl[0][2], defl[-1][2]
    Tp_lo, Tp_hi = defl[0][1], defl[-1][1]
    big = 50.0 * Tn
    configs = [("low", Tm_lo + rng.uniform(0.25, 0.9) * (Tm_hi - Tm_lo), big),
               ("high", big, Tp_lo + rng.uniform(0.25, 0.9) * (Tp_hi - Tp_lo)),
               ("both", Tm_lo + rng.uniform(0.3, 0.9) * (Tm_hi - Tm_lo),
                Tp_lo + rng.uniform(0.3, 0.9) * (Tp_hi - Tp_lo)),
               ("ample", big, big)]
    if light:
        configs = configs[:1]
    elif Tp_lo > Tn * 1.005 and jump_v is None:
        # documented behaviour (theorem fastest_blind_when_window_starts_out_of_range): the
        # high-T table already ends below T+ at the slow end of a shock-limited window
        configs.append(("start-out", big, Tn + 0.5 * (Tp_lo - Tn)))
    known_key = KNOWN_SLOW
    prev_raised_flag = False
    lo0 = h0.vMin + h0.vBracketLow
    spurious_start = None
    if jump_v is not None:
        st = [c for c in curve if abs(c[0] - lo0) < 1e-12]
        if st and abs(st[0][1] - Tn) > 5e-3 * Tn:
            spurious_start = st[0][:3]
    for which, TML, TMH in configs:
        if TML <= Tn or TMH <= Tn:
            continue          # the nucleation temperature must be inside both tables
        results = {}
        combos = [(False, False), (True, True)] if ctx.quick else \
            [(False, False), (True, True), (True, False), (False, True)]
        rng.shuffle(combos)
        if light or which == "start-out":
            combos = combos[:1]
        for lowEnds, highEnds in combos:
            model = make_model(case)
            set_ranges(model, TML, lowEnds, TMH, highEnds)
            rep = dict(kind="range", case=case, which=which, TMaxLowT=TML, TMaxHighT=TMH,
                       lowEnds=lowEnds, highEnds=highEnds, hydro=list(args))
            try:
                h = new_hydro(model, args)
            except Exception as ex:
                ctx.fail_input("Hydrodynamics(...) raised %r with ranges %s [%s]" % (
                    ex, which, label), rep, key="constructor-raises")
                continue
            # a freshly constructed object has no flag raised, whatever other objects did
            fresh = [bool(x) for x in h.doesPhaseTraceLimitvmax]
            ctx.count("fresh_flags", bucket="after-raised" if prev_raised_flag else "first")
            if fresh != [False, False]:
                ctx.fail_input("a freshly constructed Hydrodynamics object has "
                               "doesPhaseTraceLimitvmax=%s [%s]" % (fresh, label), rep,
                               key="fastestDeflag:fresh-object-flags")
            vmax = call_guarded(ctx, label, rep, h, "fastestDeflag")
            if vmax is None:
                continue
            flags = [bool(x) for x in h.doesPhaseTraceLimitvmax]
            prev_raised_flag = prev_raised_flag or any(flags)
            rep.update(vmax=vmax, vJ=h.vJ, flags=flags)
            if which == "start-out":
                ctx.count("window_start_out_of_range_real")
                if abs(vmax - h.vJ) > 1e-12 or flags != [False, False]:
                    ctx.fail_input("T+ at the slow end of the window (%.6f) is already above "
                                   "TMaxHighT=%.6f: the decision model predicts vJ and no flag, "
                                   "the code gives %.6f %s [%s]" % (Tp_lo, TMH, vmax, flags, label),
                                   rep, key="fastestDeflag:window-start-out-of-range")
                continue
            vJ_is_smallest_detonation(ctx, label, rep, model, h)
            results[(lowEnds, highEnds)] = vmax
            ctx.count("fastestDeflag_real", dict(case=case, which=which, e=[lowEnds, highEnds]),
                      bucket="%s:%s" % (which, "cut" if vmax < h.vJ else "vJ"))
            # history: a second call on the same object gives the same answer and flags
            v2 = float(h.fastestDeflag())
            f2 = [bool(x) for x in h.doesPhaseTraceLimitvmax]
            if abs(v2 - vmax) > 1e-9 or f2 != flags:
                ctx.fail_input("second fastestDeflag() on the same object: %.8f %s, first: %.8f %s"
                               " [%s]" % (v2, f2, vmax, flags, label), rep,
                               key="fastestDeflag:depends-on-history")
            lo = h.vMin + h.vBracketLow
            if vmax > h.vJ * (1 + 1e-12):
                ctx.fail_input("fastestDeflag()=%.6f > vJ=%.6f [%s]" % (vmax, h.vJ, label), rep,
                               key="fastestDeflag:above-vJ")
            if jump_v is not None and vmax <= jump_v * (1 + 1e-6):
                # the recorded mechanism: brentq converged onto the jump of the spurious
                # slow-wall solution; nothing else can be judged from this answer
                ctx.fail_input("fastestDeflag()=%.6f is the position of the slow-wall jump "
                               "(spurious solution below vw=%.4g) [%s]" % (vmax, jump_v, label),
                               rep, key=known_key)
                continue
            if jump_v is not None and spurious_start is not None and (
                    spurious_start[2] > TML or spurious_start[1] > TMH):
                # same finding, other symptom: the spurious values at the slow end of the
                # bracket are already above the cut, brentq sees no sign change
                ctx.fail_input("fastestDeflag()=%.6f: the spurious slow-wall solution at "
                               "vw=%.4g (T+=%.6f T-=%.6f) is above the cut, no sign change for "
                               "brentq [%s]" % ((vmax,) + tuple(spurious_start) + (label,)), rep,
                               key=known_key)
                continue
            # every slower wall of the window inside both ranges
            top = min(vmax, h.vJ - h.vBracketLow) - 1e-6
            bottom = max(lo + 1e-3, (jump_v or 0.0) * 1.001)
            for vw in np.linspace(bottom, top, ctx.n(6, 25)):
                (_, _, Tp, Tm), conv = matching(h, vw)
                ctx.count("slower_wall")
                if conv is False and vw < SLOW:
                    if Tm > TML * (1 + tolT) or Tp > TMH * (1 + tolT):
                        ctx.fail_input("slower wall vw=%.6f out of range at a spurious slow-wall "
                                       "solution (unconverged 2x2 solve) [%s]" % (vw, label),
                                       dict(rep, vw=float(vw)), key=known_key)
                    continue
                margin("slower_wall_T/TMax-1 (tolT)", max(Tm / TML, Tp / TMH) - 1, tolT)
                if Tm > TML * (1 + tolT) or Tp > TMH * (1 + tolT):
                    ctx.fail_input(
                        "fastestDeflag()=%.6f (vJ=%.6f) but the slower wall vw=%.6f has T-=%.6f "
                        "(TMaxLowT=%.6f) T+=%.6f (TMaxHighT=%.6f); phase-end flags low=%s high=%s "
                        "[%s]" % (vmax, h.vJ, vw, Tm, TML, Tp, TMH, lowEnds, highEnds, label),
                        dict(rep, vw=float(vw), Tp=float(Tp), Tm=float(Tm)),
                        key="fastestDeflag:slower-wall-out-of-range")
                    break
            if vmax < h.vJ * (1 - 1e-9):
                _, _, Tp, Tm = h.findMatching(vmax)
                hit = min(abs(Tm - TML) / TML, abs(Tp - TMH) / TMH)
                # brentq stops within max(xtol, rtol*v) of the crossing: 5 tolT
                margin("range_hit (5 tolT)", hit, 5 * tolT)
                if hit > 5 * tolT:
                    ctx.fail_input("fastestDeflag()=%.6f < vJ is not where a range is reached "
                                   "(T+=%.6f, T-=%.6f) [%s]" % (vmax, Tp, Tm, label), rep,
                                   key="fastestDeflag:not-a-range-hit")
                # flags: raised iff the limiting range end is not a genuine end of the phase
                hitL = abs(Tm - TML) / TML <= 5 * tolT
                hitH = abs(Tp - TMH) / TMH <= 5 * tolT
                if (flags[1] and lowEnds) or (flags[0] and highEnds):
                    ctx.fail_input("doesPhaseTraceLimitvmax=%s although the flagged phase "
                                   "really ends [%s]" % (flags, label), rep,
                                   key="fastestDeflag:flag-raised-for-genuine-end")
                if (hitL and not lowEnds and not flags[1]) or (hitH and not highEnds and
                                                                not flags[0]):
                    ctx.fail_input("range limits vmax but doesPhaseTraceLimitvmax=%s [%s]" % (
                        flags, label), rep, key="fastestDeflag:flag-not-raised")
            else:
                if flags != [False, False]:
                    ctx.fail_input("fastestDeflag() returned vJ (no range reached) but "
                                   "doesPhaseTraceLimitvmax=%s [%s]" % (flags, label), rep,
                                   key="fastestDeflag:flag-raised-without-limit")
                if which != "ample":
                    # the range is reached inside the window, so vJ must not be advertised
                    _, _, Tp, Tm = h.findMatching(h.vJ - h.vBracketLow)
                    if Tm > TML * (1 + tolT) or Tp > TMH * (1 + tolT):
                        ctx.fail_input(
                            "fastestDeflag() returns vJ=%.6f although at vw=vJ-%.0e T-=%.6f "
                            "(TMaxLowT=%.6f) T+=%.6f (TMaxHighT=%.6f) [%s]" % (
                                h.vJ, h.vBracketLow, Tm, TML, Tp, TMH, label), rep,
                            key="fastestDeflag:slower-wall-out-of-range")
        vals = list(results.values())
        if vals and max(vals) - min(vals) > 1e-6:
            ctx.fail_input("fastestDeflag depends on the phase-end flags: %s [%s, %s]" % (
                {str(k): v for k, v in results.items()}, which, label),
                dict(kind="range", case=case, which=which, TMaxLowT=TML, TMaxHighT=TMH,
                     results={str(k): v for k, v in results.items()}),
                key="fastestDeflag:depends-on-phase-end-flag")
    # ---- slowest detonation: T- decreases from T-(vJ+) to T-(1).  Judged against an
    # INDEPENDENT T-(vw) (junction condition from p and e of the ample-table model), never
    # against the matching returned by the cut-table object itself.
    from scipy.optimize import brentq
    ref = make_model(case)
    Tm_1 = independent_Tm_deton(ref, 1.0)
    Tm_J = independent_Tm_deton(ref, h0.vJ * (1 + 1e-6))
    if Tm_1 is None or Tm_J is None:
        ctx.broken.append("harness: no independent detonation temperature for %s" % label)
        return
    margin("T-(1) code vs independent (1e-6)", abs(float(h0.findMatching(1.0)[3]) - Tm_1) / Tm_1,
           1e-6)
    cfgs = [("cut", Tm_1 + rng.uniform(0.2, 0.8) * (Tm_J - Tm_1), big),
            ("cut-highTlow", Tm_1 + rng.uniform(0.2, 0.8) * (Tm_J - Tm_1),
             Tn + 0.5 * (Tm_1 - Tn)),
            ("none-admissible", Tn + rng.uniform(0.3, 0.9) * (Tm_1 - Tn), big),
            ("none-admissible-highTlow", Tn + 0.6 * (Tm_1 - Tn), Tn + 0.3 * (Tm_1 - Tn)),
            ("all-admissible-highTlow", Tm_J * 1.05, Tn + 0.5 * (Tm_1 - Tn)),
            ("ample", big, big)]
    if light:
        cfgs = [cfgs[0], cfgs[2]]
    for which, TML, TMH in cfgs:
        if TML <= Tn or TMH <= Tn:
            continue
        model = make_model(case)
        set_ranges(model, TML, False, TMH, False)
        rep = dict(kind="range-deton", case=case, which=which, TMaxLowT=TML, TMaxHighT=TMH,
                   hydro=list(args))
        try:
            h = new_hydro(model, args)
        except Exception as ex:
            ctx.fail_input("Hydrodynamics(...) raised %r with ranges %s [%s]" % (ex, which, label),
                           rep, key="constructor-raises")
            continue
        vmin = call_guarded(ctx, label, rep, h, "slowestDeton")
        if vmin is None:
            continue
        rep.update(vmin=vmin, vJ=h.vJ, Tm_at_1=Tm_1)
        ctx.count("slowestDeton_real", dict(case=case, which=which),
                  bucket="%s:%s" % (which, "1" if vmin >= 1 else ("vJ" if vmin <= h.vJ else "cut")))
        if not (h.vJ * (1 - 1e-12) <= vmin <= 1):
            ctx.fail_input("slowestDeton()=%.6f outside [vJ=%.6f, 1] [%s]" % (vmin, h.vJ, label),
                           rep, key="slowestDeton:outside-[vJ,1]")
        # two-sided: 1 is returned exactly when no detonation is admissible
        if vmin >= 1:
            if Tm_1 <= TML * (1 - 1e-6):
                ctx.fail_input("slowestDeton()=1 (no admissible detonation) although T-(vw=1)="
                               "%.6f <= TMaxLowT=%.6f [%s]" % (Tm_1, TML, label), rep,
                               key="slowestDeton:returns-1-although-admissible")
            continue
        if Tm_1 > TML * (1 + tolT):
            ctx.fail_input("slowestDeton()=%.6f < 1 although even the fastest detonation has "
                           "T-(vw=1)=%.6f > TMaxLowT=%.6f: no detonation is admissible [%s]" % (
                               vmin, Tm_1, TML, label), rep,
                           key="slowestDeton:admits-detonations-although-none-admissible")
            continue
        pts = list(np.linspace(max(vmin, h.vJ * (1 + 1e-6), h.vJ + 1e-4), 0.999, ctx.n(6, 25)))
        for k, vw in enumerate(pts):
            Tind = independent_Tm_deton(ref, float(vw))
            ctx.count("faster_detonation")
            if Tind is None:
                ctx.fail_input("no detonation solution exists at vw=%.6f > slowestDeton()=%.6f "
                               "[%s]" % (vw, vmin, label), dict(rep, vw=float(vw)),
                               key="slowestDeton:faster-wall-out-of-range")
                break
            margin("faster_detonation_T/TMax-1 (tolT)", Tind / TML - 1, tolT)
            if Tind > TML * (1 + tolT):
                ctx.fail_input(
                    "slowestDeton()=%.6f (vJ=%.6f) but the faster detonation vw=%.6f has T-=%.6f"
                    " > TMaxLowT=%.6f (TMaxHighT=%.6f) [%s]" % (vmin, h.vJ, vw, Tind, TML, TMH,
                                                               label),
                    dict(rep, vw=float(vw), Tm=float(Tind)),
                    key="slowestDeton:faster-wall-out-of-range")
                break
            if k in (0, len(pts) // 2, len(pts) - 1):
                judge_cut_matching(ctx, label, rep, model, h, float(vw), ref)
        if h.vJ + 2e-3 < vmin < 1:
            f = lambda v: independent_Tm_deton(ref, v) - TML
            lo_v = h.vJ * (1 + 1e-6)
            if f(lo_v) > 0 > f(1.0):
                vx = float(brentq(f, lo_v, 1.0, xtol=1e-12))
                dv = abs(vmin - 0.01 - vx)
                # brentq of the code: xtol = atol, rtol; T-(vw) itself to ~rtol: 100 rtol
                margin("slowest_crossing (100 rtol, >= 1e-5)", dv, max(1e-5, 100 * rtol))
                if dv > max(1e-5, 100 * rtol):
                    ctx.fail_input("slowestDeton()-0.01=%.6f but T-(vw) reaches TMaxLowT=%.6f at "
                                   "vw=%.6f [%s]" % (vmin - 0.01, TML, vx, label),
                                   dict(rep, crossing=vx), key="slowestDeton:not-a-range-hit")
            else:
                ctx.fail_input("slowestDeton()=%.6f strictly inside (vJ, 1) although T-(vw) does "
                               "not cross TMaxLowT=%.6f on the detonation branch [%s]" % (
                                   vmin, TML, label), rep, key="slowestDeton:not-a-range-hit")


def strong_family(ctx):
    """F1: strong transitions whose low-T table ends at about Tc (the normal outcome of phase
    tracing, so the first bracket of findJouguetVelocity is [Tn, 2Tn]) with tmax in
    {1.3, 2, 10}: the bracket-growing loop, the secant branch and the template fallback run"""
    rng = ctx.rng
    fam = []
    for Tn in ([0.3, 0.4] if ctx.quick else [0.3, 0.33, 0.36, 0.4, 0.45]):
        fam.append(("strong 2step Tn=%g" % Tn, dict(eos="2step", Tn=Tn), 1.0, False))
    for psi, Tn in ([(0.3, 0.7), (0.15, 0.55)] if ctx.quick else
                    [(0.3, 0.7), (0.15, 0.55), (0.2, 0.6), (0.4, 0.5), (0.1, 0.65)]):
        fam.append(("strong bag psi=%g Tn=%g" % (psi, Tn), dict(eos="bag", psi=psi, Tn=Tn), 1.0,
                    True))
    for _ in range(ctx.n(1, 4)):
        alN = round(rng.uniform(1 / 3, 1.5), 4)
        psiN = round(rng.uniform(0.3, 0.7), 4)
        cb2 = round(rng.uniform(0.26, 1 / 3), 4)
        cs2 = round(rng.uniform(0.28, 1 / 3), 4)
        if c15_template_nan_class(alN, cb2, cs2):
            continue
        fam.append(("strong template alN=%g psiN=%g cb2=%g cs2=%g" % (alN, psiN, cb2, cs2),
                    dict(eos="template", alN=alN, psiN=psiN, cb2=cb2, cs2=cs2, Tn=1.0), 1.2,
                    True))
    for label, case, Tc, templ_exact in fam:
        ref_cj = None
        for tmax in (1.3, 2, 10, None):
            for cut in (True, False):
                if not cut and tmax != 10:
                    continue
                if tmax is None:
                    # hydro window ending just below T-(CJ): first bracket and loop find no
                    # sign change, the SECANT branch runs (it may converge outside the window)
                    if ref_cj is None:
                        continue
                    tmax = 0.95 * ref_cj[1] / case["Tn"]
                model = make_model(case)
                if cut:
                    set_ranges(model, TMaxLow=Tc, lowEnds=True)
                args = (tmax, 0.01, 1e-8, 1e-8)
                rep = dict(kind="jouguet", case=case, hydro=list(args), TMaxLowT=model.TMaxLowT)
                try:
                    h = new_hydro(model, args)
                except Exception as ex:
                    ctx.fail_input("Hydrodynamics(...) raised %r [%s, tmax=%g]" % (ex, label, tmax),
                                   rep, key="constructor-raises")
                    continue
                lab = "%s tmax=%.4g cut=%s" % (label, tmax, cut)
                r = jouguet_checks(ctx, lab, case, model, h, templ_exact)
                ref_cj = ref_cj or r
                if tmax == 10 and cut:
                    vmin_consistency(ctx, label, case, h)
                if tmax == 10 and not cut and r is not None and h.vJ < 0.985:
                    # F2: the matchings and the range functions themselves on strong
                    # transitions (T-(CJ) up to 2.3 Tn, window start served by the template
                    # fallback): short grid, CJ point, one cut pair
                    try:
                        curve, jump_v = admissibility(ctx, lab, case, model, h, short=True)
                        chapman_jouguet(ctx, lab, case, model, h)
                        range_limits(ctx, lab, case, curve, h, jump_v, light=True)
                    except Exception:
                        import traceback
                        ctx.log("direct validation raised on", lab, traceback.format_exc())
                        ctx.broken.append("harness: direct validation raised on %s" % lab)


def tmin_observation(ctx):
    """Outside the statement (decision recorded in the manifest note): the clause is about the
    window being cut short from ABOVE; slower walls whose T- falls below the lower end of the
    low-T table are evaluated on the extrapolated equation of state and the code has no logic
    for it.  Kept as a counted observation only."""
    try:
        case = dict(eos="2step", Tn=0.5)
        model = make_model(case)
        model.TMinLowT = 0.45
        model.freeEnergyLow.minPossibleTemperature = [0.45, False]
        h = new_hydro(model)
        v = float(h.fastestDeflag())
        Tm = float(h.findMatching(0.5 * (h.vMin + 0.5))[3])
        ctx.count("observation_TMinLowT_not_limiting",
                  bucket="T-(slower wall) %s TMinLowT, fastestDeflag %s vJ" % (
                      "<" if Tm < 0.45 else ">=", "==" if v == h.vJ else "<"))
    except Exception as ex:
        ctx.log("TMin observation could not be run:", repr(ex))


def direct_validation(ctx):
    tmin_observation(ctx)
    models = eos_models(ctx)
    first_template = True
    for label, case in models:
        rep = dict(kind="model", case=case)
        try:
            model = make_model(case)
            h = new_hydro(model, case["hydro"])
        except Exception as ex:
            ctx.fail_input("Hydrodynamics(...) raised %r [%s]" % (ex, label), rep,
                           key="constructor-raises")
            continue
        label = "%s hydro=%s" % (label, tuple(case["hydro"]))
        ref = jouguet_checks(ctx, label, case, model, h, case["eos"] != "2step")
        if ref is None:
            continue
        if not h.vJ < 0.985:
            ctx.broken.append("harness: vJ=%.4f >= 0.985 for %s (outside the designed grid)" % (
                h.vJ, label))
            continue
        ctx.sample(dict(eos=case, vJ=h.vJ, vMin=h.vMin))
        try:
            vmin_consistency(ctx, label, case, h)
            curve, jump_v = admissibility(ctx, label, case, model, h)
            chapman_jouguet(ctx, label, case, model, h)
            template_deflagration_branch(ctx, label, case, h)
            if case["eos"] != "template" or not ctx.quick or first_template:
                range_limits(ctx, label, case, curve, h, jump_v)
            else:
                range_limits(ctx, label, case, curve, h, jump_v, light=True)
            if case["eos"] == "template":
                first_template = False
        except Exception:
            import traceback
            ctx.log("direct validation raised on", label, traceback.format_exc())
            ctx.broken.append("harness: direct validation raised on %s" % label)
    strong_family(ctx)
    ctx.cov["margins"] = {k: round(v, 4) for k, v in sorted(MARGINS.items())}
    ctx.log("measured/tolerance (worst case):", json.dumps(ctx.cov["margins"]))


# =======================================================================================
# 3. certified evaluation: generated formulas vs outputs of the real solvers (Interval)
# =======================================================================================

EVAL_HDR = """From Coq Require Import Reals Lra.
From Interval Require Import Tactic.
From WG Require Import Lib.NumpySem.
From GenC06 Require Import HydroAdmGen.
Local Open Scope R_scope.
%(defs)s
Definition e0 : env := {| Tnucl := %(Tn)s; vJ := %(vJ)s; TMaxLowT := %(TML)s;
  TMaxHydro := %(THmax)s; TMinHydro := %(THmin)s;
  pHighT := pH; pLowT := pL;
  eHighT := fun T => T * dpH T - pH T; eLowT := fun T => T * dpL T - pL T;
  wHighT := fun T => T * dpH T; wLowT := fun T => T * dpL T;
  dpLowT := dpL; deLowT := fun T => T * ddpL T;
  csqLowT := fun T => dpL T / (T * ddpL T); csqHighT := fun T => dpH T / (T * ddpH T) |}.
Ltac ev :=
  cbv beta iota zeta delta [deton_residual deton_ret matching_fixed deflag_ret_fixed vpvmAndvpovm
    vJ_of_tm vpDerivNum fst snd Tnucl pHighT pLowT eHighT eLowT wHighT wLowT dpLowT deLowT
    csqLowT csqHighT e0 pH dpH ddpH pL dpL ddpL];
  repeat match goal with |- context [Req_EM_T ?x ?y] =>
    let E := fresh "E" in destruct (Req_EM_T x y) as [E|E];
    [exfalso; revert E; first [apply Rlt_not_eq; interval | apply Rgt_not_eq; interval]|] end;
  cbv beta iota zeta delta [negb fst snd];
  repeat match goal with |- context [Rmin ?a ?b] =>
    first [rewrite (Rmin_left a b) by interval | rewrite (Rmin_right a b) by interval] end;
  repeat match goal with |- context [Rmax ?a ?b] =>
    first [rewrite (Rmax_left a b) by interval | rewrite (Rmax_right a b) by interval] end;
  interval with (i_prec 80).
"""


def eos_coq_defs(case):
    if case["eos"] == "2step":
        aL, aH, mu = "(1/5)", "(1/10)", "(2/5)"
        return (
            "Definition pH (T : R) := T^4 + (%(aL)s - %(aH)s + %(aH)s * T^2 - %(mu)s)^2 - %(mu)s^2.\n"
            "Definition dpH (T : R) := 4 * T^3 + 4 * %(aH)s * T * (%(aL)s - %(aH)s + %(aH)s * T^2 - %(mu)s).\n"
            "Definition ddpH (T : R) := 12 * T^2 + 8 * %(aH)s^2 * T^2 + 4 * %(aH)s * (%(aL)s - %(aH)s + %(aH)s * T^2 - %(mu)s).\n"
            "Definition pL (T : R) := T^4 + (%(aL)s * T^2 - %(mu)s)^2 - %(mu)s^2.\n"
            "Definition dpL (T : R) := 4 * T^3 + 4 * %(aL)s * T * (%(aL)s * T^2 - %(mu)s).\n"
            "Definition ddpL (T : R) := 12 * T^2 + 8 * %(aL)s^2 * T^2 + 4 * %(aL)s * (%(aL)s * T^2 - %(mu)s).\n"
        ) % dict(aL=aL, aH=aH, mu=mu)
    psi = pyrx.rlit(Fraction(str(case["psi"])))
    return (
        "Definition pH (T : R) := T^4 - (1 - %(psi)s).\n"
        "Definition dpH (T : R) := 4 * T^3.\nDefinition ddpH (T : R) := 12 * T^2.\n"
        "Definition pL (T : R) := %(psi)s * T^4.\nDefinition dpL (T : R) := 4 * %(psi)s * T^3.\n"
        "Definition ddpL (T : R) := 12 * %(psi)s * T^2.\n") % dict(psi=psi)


def certified_eval_files(ctx):
    """Goals closed by the Interval tactic: the values returned by the real solvers are zeros
    of the GENERATED residuals (hypothesis of the theorems, validated inside Coq), and the
    generated `*_ret` definitions reproduce the returned v-."""
    R = vlib.coq_R
    cases = [dict(eos="2step", Tn=0.6), dict(eos="2step", Tn=0.8), dict(eos="bag", psi=0.9, Tn=0.9),
             # strong transitions, low-T table up to Tc resp. just above Tn: the bracket-growing
             # loop of findJouguetVelocity runs (only the tmSol goals)
             dict(eos="bag", psi=0.3, Tn=0.7, cut=1.0, jouguet_only=True),
             dict(eos="2step", Tn=0.3, cut=0.33, jouguet_only=True)]
    if not ctx.quick:
        cases += [dict(eos="2step", Tn=0.5), dict(eos="2step", Tn=0.9),
                  dict(eos="bag", psi=0.8, Tn=0.85), dict(eos="bag", psi=0.5, Tn=0.9)]
    files = []
    for k, case in enumerate(cases):
        model = make_model(case)
        if case.get("cut"):
            set_ranges(model, TMaxLow=case["cut"], lowEnds=True)
        h = new_hydro(model)
        Tn = model.Tnucl
        goals = []
        cs_n = math.sqrt(float(model.csqLowT(Tn)))
        for vw in (() if case.get("jouguet_only") else (0.6 * cs_n, 0.5 * (cs_n + h.vJ))):
            vp, vm, Tp, Tm = (float(x) for x in h.findMatching(vw))
            vp2, vm2, Tp2, Tm2 = (float(x) for x in h.matchDeflagOrHyb(vw, vp))
            # the code multiplies both equations by c = 36 here (Tp0=Tp, Tm0=Tm); a converged
            # hybr solve (xtol=1e-8) leaves |eq| ~ 1e-8 (measured 3e-13): 36 * 1e-8
            tol = 36e-8
            goals.append("Goal Rabs (fst (matching_fixed e0 %s %s %s %s %s %s)) <= %s /\\ "
                         "Rabs (snd (matching_fixed e0 %s %s %s %s %s %s)) <= %s.\n"
                         "Proof. split; ev. Qed." % (R(vw), R(vp), R(Tp2), R(Tm2), R(Tp2), R(Tm2),
                                                    R(tol), R(vw), R(vp), R(Tp2), R(Tm2), R(Tp2),
                                                    R(Tm2), R(tol)))
            goals.append("Goal Rabs (snd (fst (fst (deflag_ret_fixed e0 %s %s %s %s))) - %s) <= %s."
                         "\nProof. ev. Qed." % (R(vw), R(vp), R(Tp2), R(Tm2), R(vm2), R(1e-9)))
            ctx.count("certified_eval", dict(case=case, vw=vw), bucket="deflag/hybrid")
        for vw in (() if case.get("jouguet_only") else (h.vJ * 1.02, 0.5 * (h.vJ + 1), 0.97)):
            vp, vm, Tp, Tm = (float(x) for x in h.matchDeton(vw))
            sc = abs(deton_residual(model, vw, Tn))
            goals.append("Goal Rabs (deton_residual e0 %s %s) <= %s.\nProof. ev. Qed." % (
                R(vw), R(Tm), R(1e-5 * sc)))
            goals.append("Goal Rabs (snd (fst (fst (deton_ret e0 %s %s))) - %s) <= %s.\n"
                         "Proof. ev. Qed." % (R(vw), R(Tm), R(vm), R(1e-9)))
            # the returned root is on the weak side of the Jouguet point: d(v+^2)/dT- < 0
            goals.append("Goal vpDerivNum e0 %s * ((eHighT e0 (Tnucl e0) - eLowT e0 %s)) > 0.\n"
                         "Proof. ev. Qed." % (R(Tm), R(Tm)))
            goals.append("Goal Rabs (vJ_of_tm e0 %s - %s) <= %s.\nProof. ev. Qed." % (
                R(Tm), R(vw), R(1e-6)))
            ctx.count("certified_eval", dict(case=case, vw=vw), bucket="detonation")
        # the code's own tmSol (recorded root_scalar call of findJouguetVelocity): it is a zero
        # of the GENERATED vpDerivNum (hypothesis of the Chapman-Jouguet theorems), vpDerivNum
        # changes sign - -> + across it (hypothesis of vJ_is_minimum_of_vp), and the generated
        # tail evaluated there is the advertised vJ
        good = [r for r in h.c06_jouguet if r["converged"]]
        if good:
            tm = good[-1]["root"]
            f = good[-1]["f"]
            sc = max(abs(f(Tn)), abs(f(2 * Tn)))
            goals.append("Goal Rabs (vpDerivNum e0 %s) <= %s.\nProof. ev. Qed." % (
                R(tm), R(1e-6 * sc)))
            goals.append("Goal vpDerivNum e0 %s < 0 /\\ 0 < vpDerivNum e0 %s.\n"
                         "Proof. split; ev. Qed." % (R(tm * (1 - 1e-3)), R(tm * (1 + 1e-3))))
            goals.append("Goal Rabs (vJ_of_tm e0 %s - %s) <= %s.\nProof. ev. Qed." % (
                R(tm), R(h.vJ), R(1e-12)))
            ctx.count("certified_eval", dict(case=case, tmSol=tm), bucket="tmSol")
        else:
            ctx.broken.append("correspondence: no converged root_scalar(vpDerivNum) call "
                              "recorded for %s" % json.dumps(case))
        text = EVAL_HDR % dict(defs=eos_coq_defs(case), Tn=R(Tn), vJ=R(h.vJ), TML=R(model.TMaxLowT),
                               THmax=R(h.TMaxHydro), THmin=R(h.TMinHydro)) + "\n".join(goals) + "\n"
        files.append((case, ctx.write("Cases/EvalEos_%d.v" % k, text)))
    return files


def certified_eval_start(ctx):
    procs = []
    for case, p in certified_eval_files(ctx):
        procs.append((case, p, subprocess.Popen(
            ["timeout", "900", "coqc"] + ctx.coq_args() + [p], cwd=ctx.bdir,
            stdout=subprocess.PIPE, stderr=subprocess.PIPE, text=True)))
    return procs


def certified_eval_finish(ctx, procs):
    for case, p, pr in procs:
        out, err = pr.communicate()
        if pr.returncode != 0:
            ctx.broken.append("correspondence: certified evaluation %s" % os.path.basename(p))
            ctx.log("certified evaluation failed for", json.dumps(case), vlib.tail(err, 8))

# =======================================================================================

def run(ctx):
    gen_ok = True
    files = []
    for fname, gen, out in (("hydrodynamics.py", gen_hydro_adm.generate_hydro, "HydroAdmGen.v"),
                            ("hydrodynamicsTemplateModel.py", gen_hydro_adm.generate_template,
                             "TemplAdmGen.v"),
                            ("thermodynamics.py", gen_thermo.generate, "Thermo.v")):
        src = vlib.read_src(fname)
        try:
            text, tr = gen(src)
            ctx.write(out, text, sources=dict(file="src/WallGo/" + fname, sha=vlib.sha(src),
                                              spans=tr.spans,
                                              error_exits=getattr(tr, "error_exits", []),
                                              asserts=tr.asserts))
            files.append(out)
        except pyrx.TranslateError as e:
            ctx.log("translator failed on %s:" % fname, e)
            ctx.broken.append("translator(%s): %s" % (fname, e))
            gen_ok = False
    proved = gen_ok and ctx.prove(extra=files, timeout=900)
    ctx.trusted += ["tools/pyrx.py + tools/gen_hydro_adm.py (AST translator, fail-closed)",
                    "Interval tactic (certified evaluation of the generated formulas at solver "
                    "outputs)",
                    "coq/Model/RangeLimit.v is hand-written; tied by exact vm_compute "
                    "correspondence on synthetic curves"]
    known_finding_replays(ctx)
    procs = []
    if proved:
        try:
            procs = certified_eval_start(ctx)
        except Exception as ex:
            import traceback
            ctx.log("certified evaluation could not be set up", traceback.format_exc())
            ctx.broken.append("correspondence: certified evaluation setup raised %r" % ex)
    ctx.log("decision-model correspondence ...")
    decision_correspondence(ctx)
    ctx.log("direct validation on real equations of state ...")
    direct_validation(ctx)
    certified_eval_finish(ctx, procs)
    ctx.log("certified evaluations done")
    ctx.cov["rule"] = (
        "decision model: random configurations (vJ, vMin, bracket, two range ends placed "
        "below / inside / exactly at / above the curve values at the window ends, both "
        "phase-end flags, all four prior flag states) with affine or one-kink monotone "
        "dyadic curves; distinct = distinct configuration. Direct validation: 2-step toy "
        "model (Tn grid), bag (psi, Tn), template EOS (random alN > (1-psiN)/3, psiN, cb2, cs2 "
        "outside the C15 class, Tn in {1, 100}); solver settings drawn from four sets; every "
        "matching on a vw grid from vMin+vBracketLow to 0.99 plus seeded stratified points "
        "(bucketed deflagration/hybrid/detonation); ranges cut at random fractions of the "
        "T-(vw), T+(vw) spans; strong family (2-step Tn<=0.45, bag psi<=0.4, template alN>=1/3) "
        "with the low-T table cut at Tc and tmax in {1.3, 2, 10} for the Jouguet search")
    ctx.assumptions += [
        "scipy root / root_scalar / minimize_scalar return zeros of the residuals they are "
        "given (the theorems quantify over every such zero); brentq raises ValueError exactly "
        "when both ends have the same strict sign (brent_spec; compared on every synthetic case)",
        "T+(vw), T-(vw) are monotone inside the deflagration/hybrid window and T-(vw) "
        "decreases on the detonation branch (physics; scanned on every model)",
        "the slow end of the window is inside both tabulated ranges (otherwise the code "
        "returns vJ: see report)",
        "the detonation root returned by brentq on [Tn, argmin] is the first zero above Tn "
        "(scanned on every detonation matching)",
        "thermodynamic identities e = w - p, cs^2 = p'/e' (theorems of C10)"]


def replay(rep):
    print(json.dumps({k: v for k, v in rep.items() if k != "case"}, indent=1, default=str))
    case = rep.get("case")
    kind = rep.get("kind")
    if kind == "synthetic":
        class C:
            broken, violations = [], []

            def fail_input(self, what, r, key=None):
                print("REPRODUCED:", what)
                self.violations.append(what)

            def log(self, *a):
                print(*a)
        c = C()
        property_on_synthetic(c, case)
        return 1 if c.violations else 0
    if case is None:
        return 0
    model = make_model(case)
    if kind in ("range", "range-deton"):
        set_ranges(model, rep["TMaxLowT"], rep.get("lowEnds", False), rep["TMaxHighT"],
                   rep.get("highEnds", False))
    elif kind == "jouguet" and rep.get("TMaxLowT") is not None:
        set_ranges(model, TMaxLow=rep["TMaxLowT"], lowEnds=True)
    h = new_hydro(model, rep.get("hydro") or case.get("hydro"))
    print("Hydrodynamics args (tmax, tmin, rtol, atol) =", h.c06_args)
    print("vJ=%r vMin=%r template.vJ=%r" % (h.vJ, h.vMin, h.template.vJ))
    if kind == "jouguet":
        print("reference Chapman-Jouguet point (vJ, T-) =", cj_reference(model))
        for r in h.c06_jouguet:
            print("root_scalar(vpDerivNum): method=%s start=%s root=%r converged=%s "
                  "vpDerivNum(root)=%r" % (r["method"], r["bracket"] or (r["x0"], r["x1"]),
                                           r["root"], r["converged"], r["f"](r["root"])))
    if kind == "vMin":
        print("strongestShock(0.99 vMin, vMin, 1.01 vMin) - Tn =",
              [h.strongestShock(h.vMin * x) - h.Tnucl for x in (0.99, 1.0, 1.01)])
    if kind == "template-matching":
        print("template.findMatching(%r) =" % rep["vw"], h.template.findMatching(rep["vw"]))
        return 1
    if kind == "range":
        print("findMatching(vMin+vBracketLow=%r) =" % (h.vMin + h.vBracketLow),
              h.findMatching(h.vMin + h.vBracketLow))
        try:
            v = h.fastestDeflag()
            print("fastestDeflag() =", v, "flags", h.doesPhaseTraceLimitvmax)
        except Exception as ex:
            print("fastestDeflag() raised %r" % ex)
    if kind == "range-deton":
        print("slowestDeton() =", h.slowestDeton())
    if "vw" in rep:
        vp, vm, Tp, Tm = h.findMatching(rep["vw"])
        print("findMatching(%r) = v+ %r v- %r T+ %r T- %r; cs(T-) = %r; TMaxLowT %r TMaxHighT %r"
              % (rep["vw"], vp, vm, Tp, Tm, math.sqrt(model.csqLowT(Tm)), model.TMaxLowT,
                 model.TMaxHighT))
    return 1
