"""C04 -- the plasma profile inside the wall conserves T^30, T^33 pointwise; asymptotes."""
import json
import math
import os
import subprocess
import sys
import types
from fractions import Fraction

import numpy as np

import gen_eom_plasma
import pyrx
import vlib

EXPLANATION = (
    "gammaSq, plasmaVelocity, temperatureProfileEqLHS, deltaToTmunu, the WHOLE of "
    "findPlasmaProfilePoint (bracket-search loop included), the grid loop of findPlasmaProfile "
    "(success flag) and the tail of findHydroBoundaries are regenerated from the source by the pyrx-based translator on "
    "every run. Coq proves, for every potential / particle content / moments: the "
    "generated velocity is the unique subluminal solution of w g^2 v = s1; the T33 "
    "residual at (T, v(T)) IS the generated LHS; deltaToTmunu is the (3,0),(3,3) momentum "
    "flux of arbitrary ensembles having the supplied moments (Eq.14, trace N m^2 D00); "
    "(T+,-v+) and (T-,-v-) solve both equations with the constants of "
    "findHydroBoundaries; the point solver always terminates and returns the minimiser / "
    "(0,0) / a root in the FIRST sign-change bracket of the geometric sequence on the "
    "side selected by |Tn-T+|<1e-10 Tn; on the root path both components are conserved; the "
    "success flag is true exactly when no point returned (0,0), so 'success => T33' is "
    "REFUTED by a witness (no root: the minimiser is returned), replayed on the code. "
    "Model values are compared with the implementation (on stub collaborators) by "
    "certified interval evaluation, including the decision path; the property is "
    "evaluated directly on EOM.findPlasmaProfile for real models on all three branches, in "
    "histories of calls on one object without re-gridding, and end to end on the "
    "BoltzmannBackground / WallGoResults returned by wallPressure and "
    "findWallVelocityDeflagrationHybrid (LTE); call-site facts of the path wallPressure -> "
    "_getNextPressure -> _intermediatePressureResults -> findPlasmaProfile (argument "
    "positions, freeze guard, default forceEnergyConservation) are checked fail closed.")

RTOL = Fraction(1, 10 ** 9)
ATOL = Fraction(1, 10 ** 12)
CBV = ("cbv -[Rplus Rminus Rmult Rdiv Rinv Ropp Rabs sqrt pow IZR Rle Rlt Rge Rgt Rmax Rmin PI "
       "Rlt_dec Rle_dec]")


def R(x):
    return pyrx.rlit(Fraction(x))


# =====================================================================================
# stub collaborators: the methods under test run unchanged on analytic inputs
# =====================================================================================

class StubPot:
    """V(phi,T) = -a T^4 + b S T^2 + c S^2,  S = sum phi_i^2 (exact T-derivative)"""

    def __init__(self, a, b, c):
        self.a, self.b, self.c = float(a), float(b), float(c)

    def evaluate(self, fields, T):
        S = float(np.sum(np.asarray(fields, dtype=float) ** 2))
        return -self.a * T ** 4 + self.b * S * T ** 2 + self.c * S ** 2

    def derivT(self, fields, T):
        S = float(np.sum(np.asarray(fields, dtype=float) ** 2))
        return -4 * self.a * T ** 3 + 2 * self.b * S * T


def field_point(vals):
    from WallGo import Fields
    return Fields([float(v) for v in vals]).getFieldPoint(0)


def stub_eom(case):
    from WallGo import EOM
    eom = object.__new__(EOM)
    eom.thermo = types.SimpleNamespace(effectivePotential=StubPot(*case["pot"]))
    eom.hydrodynamics = types.SimpleNamespace(Tnucl=float(case["Tn"]))
    eom.errTol = float(case.get("errTol", Fraction(1, 2 ** 30)))
    parts = []
    for (N, y, j, m0) in case["particles"]:
        parts.append(types.SimpleNamespace(
            totalDOFs=float(N),
            msqVacuum=(lambda f, y=float(y), j=j, m0=float(m0):
                       y * float(np.asarray(f)[j]) ** 2 + m0)))
    eom.particles = parts
    return eom


def stub_deltas(case):
    d = {}
    for nm in ("Delta00", "Delta02", "Delta20", "Delta11"):
        d[nm] = types.SimpleNamespace(coefficients=np.array(
            [[float(x) for x in row] for row in case[nm]]))
    return types.SimpleNamespace(**d)


def rand_case(rng):
    q = lambda lo, hi, den: Fraction(rng.randint(lo, hi), den)
    nP = rng.randint(1, 3)
    nK = 4
    case = dict(
        pot=[q(4, 24, 4), q(0, 8, 16), q(0, 4, 16)],
        Tn=q(8, 16, 8),
        particles=[[rng.choice([12, 6, 9, 4, 2]), q(0, 8, 8), rng.randint(0, 1), q(0, 4, 8)]
                   for _ in range(nP)],
        fields=[q(-8, 8, 8), q(-8, 8, 8)],
        dPhidz=[q(-8, 8, 16), q(-8, 8, 16)],
        index=rng.randint(0, nK - 1),
        vmid=q(-60, 60, 64),
    )
    for nm in ("Delta00", "Delta02", "Delta20", "Delta11"):
        case[nm] = [[q(-8, 8, 256) for _ in range(nK)] for _ in range(nP)]
    return case


def jcase(case):
    def cv(x):
        if isinstance(x, Fraction):
            return str(x)
        if isinstance(x, (list, tuple)):
            return [cv(y) for y in x]
        return x
    return {k: cv(v) for k, v in case.items()}


def ucase(j):
    def cv(x):
        if isinstance(x, str):
            return Fraction(x)
        if isinstance(x, list):
            return [cv(y) for y in x]
        return x
    return {k: cv(v) for k, v in j.items()}


def coq_header(case):
    a, b, c = case["pot"]
    parts = "; ".join("mk_particle %s (fun f : FieldPt => %s * nth %d f 0 ^ 2 + %s)" % (
        R(N), R(y), j, R(m0)) for (N, y, j, m0) in case["particles"])
    tab = lambda t: "(tab [" + "; ".join("[" + "; ".join(R(x) for x in row) + "]"
                                         for row in t) + "])"
    return """From Coq Require Import Reals Lra Lia List.
From Interval Require Import Tactic.
From WG Require Import Lib.NumpySem Lib.Plasma.
From GenC04 Require Import EomPlasma Props_C04.
Import ListNotations.
Local Open Scope R_scope.
Transparent sum_list.
Definition S2 (f : FieldPt) := sum_list (map (fun x : R => x ^ 2) f).
Definition pot_dT (f : FieldPt) (T : R) := - 4 * %s * T ^ 3 + 2 * %s * S2 f * T.
Definition pot_V (f : FieldPt) (T : R) := - %s * T ^ 4 + %s * S2 f * T ^ 2 + %s * S2 f ^ 2.
Definition e0 (tm : R) (rb : R -> R -> R) :=
  mk_env %s pot_dT pot_V %s [%s] (fun _ _ _ _ => tm) (fun _ x y _ _ => rb x y).
(* same, the oracle returning a combination of the two tolerances it is handed *)
Definition e0tol (tm : R) :=
  mk_env %s pot_dT pot_V %s [%s] (fun _ _ _ _ => tm) (fun _ _ _ xt rt => xt + 3 * rt).
Definition tab (t : list (list R)) (i k : nat) : R := nth k (nth i t []) 0.
Definition D0 := mk_Deltas %s %s %s %s.
Definition fl : FieldPt := [%s].
Definition dfl : FieldPt := [%s].
Ltac rm := repeat match goal with
  | |- context [Rmax ?x ?y] => first [rewrite (Rmax_left x y) by interval with (i_prec 90)
                                     | rewrite (Rmax_right x y) by interval with (i_prec 90)]
  | |- context [Rmin ?x ?y] => first [rewrite (Rmin_left x y) by interval with (i_prec 90)
                                     | rewrite (Rmin_right x y) by interval with (i_prec 90)]
  end.
Ltac ev := %s; rm; interval with (i_prec 90).
Ltac evn := lazy beta iota; apply Rle_not_lt; ev.
""" % (R(a), R(b), R(a), R(b), R(c), R(case.get("errTol", Fraction(1, 2 ** 30))), R(case["Tn"]),
       parts, R(case.get("errTol", Fraction(1, 2 ** 30))), R(case["Tn"]), parts,
       tab(case["Delta00"]), tab(case["Delta02"]), tab(case["Delta20"]), tab(case["Delta11"]),
       "; ".join(R(x) for x in case["fields"]), "; ".join(R(x) for x in case["dPhidz"]), CBV)


def close_goal(term, y):
    qy = Fraction(float(y))
    tol = abs(qy) * RTOL + ATOL
    return "Goal Rabs (%s - %s) <= %s.\nProof. ev. Qed." % (term, R(qy), R(tol))


class Recorder:
    """wraps scipy.optimize.minimize_scalar / root_scalar as seen by equationOfMotion.py,
    from outside, to learn which path each call of findPlasmaProfilePoint takes"""

    def __init__(self):
        import scipy.optimize
        self.mod = scipy.optimize
        self.points = []

    def __enter__(self):
        self.m0, self.r0 = self.mod.minimize_scalar, self.mod.root_scalar
        rec = self

        def mini(f, *a, **k):
            res = rec.m0(f, *a, **k)
            rec.points.append(dict(path="early", tmin=float(res.x), fmin=float(f(res.x)),
                                   f=f, bounds=list(k.get("bounds", []))))
            return res

        def root(f, *a, **k):
            res = rec.r0(f, *a, **k)
            p = rec.points[-1]
            br = k.get("bracket")
            p.update(path="root", bracket=(float(br[0]), float(br[1])),
                     fa=float(f(br[0])), fb=float(f(br[1])), root=float(res.root),
                     xtol=k.get("xtol"), rtol=k.get("rtol"),
                     # independent, fully converged zero in the same bracket
                     ref=float(rec.r0(f, bracket=br, xtol=1e-300, rtol=8.9e-16).root),
                     froot=float(f(res.root)))
            return res
        self.mod.minimize_scalar, self.mod.root_scalar = mini, root
        return self

    def __exit__(self, *a):
        self.mod.minimize_scalar, self.mod.root_scalar = self.m0, self.r0


def straight_line_rows(ctx, rng, case):
    """implementation values of the straight-line functions on a stub case"""
    eom = stub_eom(case)
    fp, dfp = field_point(case["fields"]), field_point(case["dPhidz"])
    D = stub_deltas(case)
    T = Fraction(rng.randint(8, 24), 8)
    s1 = Fraction(rng.choice([-1, 1]) * rng.randint(1, 64), 8)
    s2 = Fraction(rng.randint(-64, 64), 8)
    rows = []
    rows.append(("plasmaVelocity (e0 0 (fun x _ => x)) fl %s %s" % (R(T), R(s1)),
                 eom.plasmaVelocity(fp, float(T), float(s1))))
    rows.append(("temperatureProfileEqLHS (e0 0 (fun x _ => x)) fl dfl %s %s %s" % (
        R(T), R(s1), R(s2)), eom.temperatureProfileEqLHS(fp, dfp, float(T), float(s1),
                                                          float(s2))))
    t30, t33 = eom.deltaToTmunu(case["index"], fp, float(case["vmid"]), D)
    call = "deltaToTmunu (e0 0 (fun x _ => x)) %d fl %s D0" % (case["index"], R(case["vmid"]))
    rows.append(("fst (%s)" % call, float(t30)))
    rows.append(("snd (%s)" % call, float(t33)))
    return rows, dict(T=str(T), s1=str(s1), s2=str(s2))


def hydro_rows(rng):
    """Hydrodynamics.findHydroBoundaries on a stub thermodynamics and a stub matching"""
    from WallGo import Hydrodynamics
    hy = object.__new__(Hydrodynamics)
    kw, kp = Fraction(rng.randint(4, 40), 4), Fraction(rng.randint(1, 10), 4)
    hy.thermodynamics = types.SimpleNamespace(wHighT=lambda T: float(kw) * T ** 4,
                                              pHighT=lambda T: float(kp) * T ** 4 - 0.5)
    hy.vMin = 0.0
    vp, vm = Fraction(rng.randint(3, 60), 64), Fraction(rng.randint(3, 60), 64)
    Tp, Tm = Fraction(rng.randint(8, 16), 8), Fraction(rng.randint(8, 16), 8)
    hy.findMatching = lambda vw: (float(vp), float(vm), float(Tp), float(Tm))
    c1, c2, Tp_, Tm_, vmid = hy.findHydroBoundaries(0.5)
    hdr = "Definition h0 := mk_H_env (fun T => %s * T ^ 4) (fun T => %s * T ^ 4 - 1 / 2).\n" % (
        R(kw), R(kp))
    call = "H_hydroBoundaries h0 %s %s %s %s" % (R(vp), R(vm), R(Tp), R(Tm))
    rows = [("fst (fst (fst (fst (%s))))" % call, c1),
            ("snd (fst (fst (fst (%s))))" % call, c2),
            ("snd (fst (fst (%s)))" % call, Tp_), ("snd (fst (%s))" % call, Tm_),
            ("snd (%s)" % call, vmid)]
    return hdr, rows


def point_case(rng, kind):
    """a stub case on which findPlasmaProfilePoint has a clear-cut path"""
    case = rand_case(rng)
    for nm in ("Delta00", "Delta02", "Delta20", "Delta11"):
        case[nm] = [[x / 8 for x in row] for row in case[nm]]
    case["fields"] = [x / 2 for x in case["fields"]]
    case["dPhidz"] = [x / 4 for x in case["dPhidz"]]
    pot = StubPot(*case["pot"])
    fp = field_point(case["fields"])
    T0 = Fraction(rng.randint(10, 16), 8)
    v0 = Fraction(rng.choice([44, 50, 56, 58, 60] if kind == "det" else [10, 12, 16, 20, 26]), 64)
    if kind in ("deflk", "detk", "gaveup"):   # several enlargements of the bracket are needed
        v0 = Fraction(10 if kind == "deflk" else 60, 64)
    w0 = -float(T0) * pot.derivT(fp, float(T0))
    p0 = -pot.evaluate(fp, float(T0))
    g2 = 1.0 / (1.0 - float(v0) ** 2)
    c1 = Fraction(-w0 * g2 * float(v0))
    c2 = Fraction(p0 + w0 * g2 * float(v0) ** 2)
    if kind == "noroot":
        c2 = Fraction(float(c2) * 0.6)
    if kind == "gaveup":      # detonation rule, LHS negative on the whole of (0, tmin]: no bracket
        c2 = Fraction(float(c2) * 1.35)
    Tp = Fraction(float(T0) * (1 + rng.choice([-1, 1]) * rng.uniform(0.03, 0.2)))
    Tm = Fraction(float(T0) * (1 + rng.choice([-1, 1]) * rng.uniform(0.03, 0.2)))
    if kind == "deflk":
        Tp = Fraction(float(T0) * rng.uniform(0.70, 0.78))
    if kind in ("detk", "gaveup"):
        Tm = Fraction(float(T0) * rng.uniform(1.45, 1.6))
    if kind in ("det", "detk", "gaveup"):
        # inside the relative window |Tn - T+| < 1e-10 Tn
        case["Tn"] = Tp * (1 + rng.choice([Fraction(0), Fraction(5, 10 ** 11), -Fraction(5, 10 ** 11)]))
        case["Tn"] = Fraction(float(case["Tn"]))
    elif kind == "edge":      # just outside the 1e-10 window: still a deflagration
        case["Tn"] = Fraction(float(Tp * (1 + rng.choice([1, -1]) * Fraction(2, 10 ** 10))))
    else:
        case["Tn"] = Fraction(float(Tp) - rng.uniform(0.01, 0.2))
    case.update(c1=c1, c2=c2, Tplus=Tp, Tminus=Tm,
                errTol=Fraction(1, 2 ** rng.randint(8, 30)))
    return case


def point_eval(ctx, case):
    """run the implementation on the stub case; return the Coq goals certifying that the
    generated model takes the same path and returns the same numbers"""
    eom = stub_eom(case)
    fp, dfp = field_point(case["fields"]), field_point(case["dPhidz"])
    D = stub_deltas(case)
    with Recorder() as rec:
        T, v = eom.findPlasmaProfilePoint(case["index"], float(case["c1"]), float(case["c2"]),
                                          float(case["vmid"]), fp, dfp, D,
                                          float(case["Tplus"]), float(case["Tminus"]))
    p = rec.points[-1]
    f = p["f"]
    args = "%d %s %s %s fl dfl D0 %s %s" % (case["index"], R(case["c1"]), R(case["c2"]),
                                            R(case["vmid"]), R(case["Tplus"]), R(case["Tminus"]))
    tm = R(Fraction(p["tmin"]))
    scale = abs(float(case["c2"])) + 1e-300
    goals, margin = [], abs(p["fmin"]) / scale
    info = dict(path=p["path"], T=float(T), v=float(v), tmin=p["tmin"])
    if float(T) == 0.0:
        # the give-up outcome: certified through theorem no_bracket_returns_zero (the LHS is
        # negative on (0, B], proved by interval bisection in T)
        info["path"] = "gaveup"
        det = abs(float(case["Tn"]) - float(case["Tplus"])) < 1e-10 * float(case["Tn"])
        M = min(float(case["Tminus"]) / p["tmin"], 0.8)
        if not det or not (0 < M <= 1) or p["path"] != "early":
            return None, 0.0, info
        B = Fraction(p["tmin"] * M) * (1 + Fraction(1, 10 ** 6))
        grid_T = [float(B) * x / 64.0 for x in range(1, 65)]
        margin = min(min(-f(t) for t in grid_T) / scale, abs(p["fmin"]) / scale,
                     abs(abs(float(case["Tn"]) - float(case["Tplus"])) / float(case["Tn"]) - 1e-10)
                     / 1e-10,
                     abs(float(case["Tminus"]) / p["tmin"] - 0.8))
        goals.append(
            "Goal findPlasmaProfilePoint (e0 %s (fun x _ => x)) %s = Some (0, 0).\n"
            "Proof. apply (no_bracket_returns_zero _ _ _ _ _ _ _ _ _ _ %s); "
            "[ev | ev | ev | split; ev | ev | intros T [HT1 HT2]; %s; "
            "interval with (i_bisect T, i_depth 30, i_prec 60)]. Qed." % (tm, args, R(B), CBV))
        info.update(det=True, B=float(B))
        return goals, margin, info
    if p["path"] == "early":
        for rb, target in (("(fun x _ => x)", None),):
            goals.append(
                "Goal exists T v, findPlasmaProfilePoint (e0 %s %s) %s = Some (T, v) /\\ "
                "T = %s /\\ Rabs (v - %s) <= %s.\nProof. eexists; eexists; split; "
                "[apply no_root_returns_minimum; ev | split; [reflexivity | ev]]. Qed." % (
                    tm, rb, args, tm, R(Fraction(float(v))),
                    R(abs(Fraction(float(v))) * RTOL + ATOL)))
        return goals, margin, info
    det = abs(float(case["Tn"]) - float(case["Tplus"])) < 1e-10 * float(case["Tn"])
    M = min(float(case["Tminus"]) / p["tmin"], 0.8) if det else \
        max(float(case["Tplus"]) / p["tmin"], 1.2)
    a, b = p["bracket"]
    k = int(round(math.log(a / p["tmin"]) / math.log(M))) if a != p["tmin"] else 0
    info.update(det=det, k=k, bracket=[a, b], root=p["root"])
    for j in range(k + 1):
        margin = min(margin, abs(f(p["tmin"] * M ** (j + 1))) / scale)
    margin = min(margin, abs(abs(float(case["Tn"]) - float(case["Tplus"])) / float(case["Tn"])
                             - 1e-10) / 1e-10)
    margin = min(margin, abs(float(case["Tminus"]) / p["tmin"] - 0.8) if det else
                 abs(float(case["Tplus"]) / p["tmin"] - 1.2))
    hj = "(intros j Hj; " + " ".join("destruct j as [|j]; [ev|];" for _ in range(k)) + \
        " exfalso; lia)"
    proof_eq = ("apply (bracket_is_first_sign_change _ _ _ _ _ _ _ _ _ _ %s %d%%nat); "
                "[ev | %s | lia | %s | ev]" % ("true" if det else "false", k,
                                               "ev" if det else "evn", hj))
    for rb, target in (("(fun x _ => x)", a), ("(fun _ y => y)", b)):
        goals.append(
            "Goal exists T v, findPlasmaProfilePoint (e0 %s %s) %s = Some (T, v) /\\ "
            "Rabs (T - %s) <= %s.\nProof. eexists; eexists; split; [%s | ev]. Qed." % (
                tm, rb, args, R(Fraction(target)), R(abs(Fraction(target)) * RTOL + ATOL),
                proof_eq))
    # the tolerances handed to the solver (xtol + 3 rtol), as seen by the model's oracle
    tolv = Fraction(float(p["xtol"])) + 3 * Fraction(float(p["rtol"]))
    goals.append(
        "Goal exists T v, findPlasmaProfilePoint (e0tol %s) %s = Some (T, v) /\\ "
        "Rabs (T - %s) <= %s.\nProof. eexists; eexists; split; [%s | ev]. Qed." % (
            tm, args, R(tolv), R(tolv * RTOL), proof_eq))
    info.update(xtol=float(p["xtol"]), rtol=float(p["rtol"]))
    rt = R(Fraction(p["root"]))
    goals.append(
        "Goal exists T v, findPlasmaProfilePoint (e0 %s (fun _ _ => %s)) %s = Some (T, v) /\\ "
        "Rabs (v - %s) <= %s.\nProof. eexists; eexists; split; [%s | ev]. Qed." % (
            tm, rt, args, R(Fraction(float(v))), R(abs(Fraction(float(v))) * RTOL + ATOL),
            proof_eq))
    return goals, margin, info


def compile_parallel(ctx, files, jobs=4, timeout=600):
    """files: list of (label, path, payload). Returns list of (label, payload, err) failing"""
    bad, running = [], []

    def drain():
        for label, path, payload, pr in running:
            out, err = pr.communicate()
            if pr.returncode != 0:
                bad.append((label, payload, vlib.tail(err, 8)))
        running.clear()
    for label, path, payload in files:
        running.append((label, path, payload, subprocess.Popen(
            ["timeout", str(timeout), "coqc"] + ctx.coq_args() + [path], cwd=ctx.bdir,
            stdout=subprocess.PIPE, stderr=subprocess.PIPE, text=True)))
        if len(running) >= jobs:
            drain()
    drain()
    return bad


def stub_correspondence(ctx, proved):
    rng = ctx.rng
    files = []
    # straight-line functions
    for m in range(ctx.n(3, 30)):
        case = rand_case(rng)
        rows, extra = straight_line_rows(ctx, rng, case)
        hdr, hrows = hydro_rows(rng)
        text = coq_header(case) + hdr + "\n".join(close_goal(t, y) for t, y in rows + hrows) + "\n"
        for _ in rows + hrows:
            ctx.count("certified_eval_straight")
        ctx.count("stub_case", jcase(case), bucket="particles=%d" % len(case["particles"]))
        if m == 0:
            ctx.sample(dict(stub=jcase(case), inputs=extra,
                            impl=[(t[:40], float(y)) for t, y in rows]))
        if proved:
            files.append(("straight_%d" % m, ctx.write("Cases/Straight_%d.v" % m, text),
                          jcase(case)))
    # decision path of findPlasmaProfilePoint
    kinds = ["defl", "det", "edge", "noroot", "deflk", "detk", "gaveup"]
    want = ctx.n(7, 49)
    done, tries, paths = 0, 0, {}
    while done < want and tries < 20 * want:
        kind = kinds[tries % len(kinds)]
        tries += 1
        case = point_case(rng, kind)
        try:
            goals, margin, info = point_eval(ctx, case)
        except Exception as ex:                      # noqa: BLE001
            ctx.log("stub point case raised %r" % ex)
            continue
        if kind == "noroot" and info.get("path") != "early":
            continue                     # redraw: this kind must exercise the no-root return
        if kind == "gaveup" and info.get("path") != "gaveup":
            continue
        if goals is None or margin < 1e-6 or info.get("k", 0) > 6:
            ctx.count("point_case_skipped_small_margin", nontrivial=False)
            continue
        done += 1
        key = "%s/%s/k=%s" % (kind, info["path"], info.get("k", "-"))
        paths[key] = paths.get(key, 0) + 1
        ctx.count("certified_eval_decision", jcase(case), bucket=key)
        if done <= 2:
            ctx.sample(dict(point_case=jcase(case), impl=info))
        if proved:
            files.append(("point_%d" % done, ctx.write(
                "Cases/Point_%d.v" % done, coq_header(case) + "\n".join(goals) + "\n"),
                dict(case=jcase(case), impl=info)))
    ctx.log("decision-path cases:", json.dumps(paths, sort_keys=True))
    if done < want:
        ctx.broken.append("harness: only %d of %d certified decision cases could be built "
                          "(margins too small)" % (done, want))
    bad = compile_parallel(ctx, files)
    for label, payload, err in bad:
        ctx.broken.append("correspondence: certified evaluation %s" % label)
        ctx.log("certified evaluation failed:", label, err)
        ctx.log("case", json.dumps(payload, default=str)[:1500])
    ctx.log("certified evaluation files: %d, failing: %d" % (len(files), len(bad)))


# =====================================================================================
# direct validation on real models
# =====================================================================================

MODELS = {
    # shipped O(g^2 T^4) Z2 singlet model, benchmark BM1, top quark out of equilibrium
    "xSM_BM1": dict(kind="xsm", geff=None, gluon=False, Tn=100.0),
    # the same with 10x the light d.o.f.: weak transition, (T+ - Tn)/Tn < 1e-3 for subsonic
    # walls; top quark and gluon out of equilibrium (two species)
    "xSM_BM1_weak": dict(kind="xsm", geff=1077.5, gluon=True, Tn=100.0),
    # one-field quartic potential of tools/wgmodels.py
    "quartic1": dict(kind="quartic", unit=1.0, Tn=83.0, tier="thorough"),
    # the SAME physics expressed in other units (everything dimensionful rescaled): the property
    # must not depend on the unit system. TeV: Tn = 0.083; units with Tn ~ 1
    "quartic1_TeV": dict(kind="quartic", unit=1e-3, Tn=83.0e-3),
    "quartic1_T1": dict(kind="quartic", unit=1.0 / 80.0, Tn=83.0 / 80.0, tier="thorough"),
    "quartic1_u4": dict(kind="quartic", unit=1e-4, Tn=83.0e-4),
    # directed case only (Tn = 8.3e-7; was the finding "minimiser-absolute-xatol", fixed 12044cf)
    "quartic1_u8": dict(kind="quartic", unit=1e-8, Tn=83.0e-8, tier="recorded"),
    # the EOM as PRODUCTION builds it: WallGoManager with Config() defaults (registerModel,
    # setupThermodynamicsHydrodynamics, setupWallSolver -> buildGrid, buildEOM); end-to-end only
    "manager_xSM": dict(kind="manager", Tn=100.0, tier="recorded"),
}
_CACHE = {}


def build_model(name):
    if name in _CACHE:
        return _CACHE[name]
    root = vlib.REPO
    if root not in sys.path:
        sys.path.insert(0, root)
    import WallGo
    cfg = MODELS[name]
    Tn = cfg["Tn"]
    if cfg["kind"] == "manager":
        import logging
        from Models.SingletStandardModel_Z2.SingletStandardModel_Z2_Simple import (
            SingletSM_Z2_Simple)
        from tests.Benchmarks.SingletSM_Z2.Benchmarks_singlet import BM1
        manager = WallGo.WallGoManager()
        manager.setVerbosity(logging.ERROR)
        model = SingletSM_Z2_Simple(BM1.inputParams)
        model.defineParticles(False)
        model.getEffectivePotential().effectivePotentialError = 1e-15
        manager.registerModel(model)
        manager.setupThermodynamicsHydrodynamics(
            WallGo.PhaseInfo(temperature=Tn, phaseLocation1=BM1.expectedResults["phaseLocation1"],
                             phaseLocation2=BM1.expectedResults["phaseLocation2"]),
            WallGo.VeffDerivativeSettings(temperatureVariationScale=1.0,
                                          fieldValueVariationScale=[1.0, 1.0]))
        solver = manager.setupWallSolver(WallGo.WallSolverSettings(
            bIncludeOffEquilibrium=False, meanFreePathScale=50.0, wallThicknessGuess=5.0))
        eom = solver.eom
        _CACHE[name] = (model.getEffectivePotential(), manager.thermodynamics,
                        manager.hydrodynamics, eom.grid, eom, Tn, 2)
        _CACHE[name + ":manager"] = manager
        _CACHE[name + ":built_flags"] = dict(includeOffEq=eom.includeOffEq,
                                             forceEnergyConservation=eom.forceEnergyConservation)
        return _CACHE[name]
    if cfg["kind"] == "xsm":
        from Models.SingletStandardModel_Z2.SingletStandardModel_Z2_Simple import (
            SingletSM_Z2_Simple, EffectivePotentialxSM_Z2_Simple)
        from tests.Benchmarks.SingletSM_Z2.Benchmarks_singlet import BM1
        geff = cfg["geff"]
        model = SingletSM_Z2_Simple(BM1.inputParams)
        if geff:
            class ManyLightDof(EffectivePotentialxSM_Z2_Simple):
                def constantTerms(self, temperature):
                    return -geff * np.pi ** 2 / 90 * temperature ** 4
            model.effectivePotential = ManyLightDof(model)
        model.defineParticles(cfg["gluon"])
        particles = model.outOfEquilibriumParticles
        veff = model.getEffectivePotential()
        veff.configureDerivatives(WallGo.VeffDerivativeSettings(1.0, 1.0))
        veff.effectivePotentialError = 1e-15
        thermo = WallGo.Thermodynamics(veff, Tn, BM1.expectedResults["phaseLocation2"],
                                       BM1.expectedResults["phaseLocation1"])
        ranges = ((50.0, 150.0, 0.1), (50.0, 150.0, 0.1))
        nf = 2
    else:
        import wgmodels
        from WallGo import Particle, Fields
        u = cfg["unit"]
        veff = wgmodels.quartic1(D=0.2, E=0.05, lam=0.1, T0=80.0, g=100.0, unit=u)
        ex = wgmodels.quartic1_exact(**veff.params)
        veff.configureDerivatives(WallGo.VeffDerivativeSettings(
            temperatureVariationScale=1.0 * u, fieldValueVariationScale=10.0 * u))
        veff.effectivePotentialError = 1e-15
        thermo = WallGo.Thermodynamics(veff, Tn, Fields([ex["phi_broken"](Tn)]), Fields([0.0]))
        ranges = ((80.5 * u, 120.0 * u, 0.05 * u), (40.0 * u, ex["Tspin_broken"] * 0.9999, 0.05 * u))
        particles = [Particle("top", index=0, msqVacuum=lambda f: 0.5 * f.getField(0) ** 2,
                              msqDerivative=lambda f: np.transpose([f.getField(0)]),
                              statistics="Fermion", totalDOFs=12)]
        nf = 1
    thermo.freeEnergyHigh.disableAdaptiveInterpolation()
    thermo.freeEnergyLow.disableAdaptiveInterpolation()
    thermo.freeEnergyHigh.tracePhase(*ranges[0])
    thermo.freeEnergyLow.tracePhase(*ranges[1])
    thermo.setExtrapolate()
    hydro = WallGo.Hydrodynamics(thermo, 10.0, 0.01, 1e-10, 1e-10)
    grid = WallGo.grid3Scales.Grid3Scales(22, 11, 20.0 / Tn, 20.0 / Tn, 5.0 / Tn, Tn)
    boltzmann = WallGo.BoltzmannSolver(grid, basisM="Cardinal", basisN="Chebyshev")
    boltzmann.updateParticleList(particles)
    eom = WallGo.EOM(boltzmann, thermo, hydro, grid, nf, 0.0, (0.1, 100.0), (-10.0, 10.0),
                     includeOffEq=True)
    _CACHE[name] = (veff, thermo, hydro, grid, eom, Tn, nf)
    return _CACHE[name]


def dVdT(veff, fp, T):
    """independent 4th-order central difference of the potential (step relative to T)"""
    h = 2e-4 * T
    f = lambda t: float(np.ravel(veff.evaluate(fp, t))[0])
    return (-f(T + 2 * h) + 8 * f(T + h) - 8 * f(T - h) + f(T - 2 * h)) / (12 * h)


def lorentz(v):
    g = 1.0 / math.sqrt(1.0 - v * v)
    L = np.eye(4)
    L[0, 0] = L[3, 3] = g
    L[0, 3] = L[3, 0] = g * v
    return L


def make_moments(seed, shape, nP, z, width, amp, msq, TN):
    """Deltas as moments of explicit on-shell momentum ensembles (3 momenta per particle and
    grid point) and, independently, the ensembles themselves.
    shape: 'none' | 'bump' (decays away from the wall) | 'flat' (same size everywhere)"""
    import random
    rng = random.Random(seed)
    n = len(z)
    ens = np.zeros((nP, n, 3, 3))          # weight, E, pz
    D = {k: np.zeros((nP, n)) for k in ("00", "02", "20", "11")}
    if shape == "none":
        return D, ens
    for i in range(nP):
        for k in range(n):
            env = 1.0 if shape == "flat" else 1.0 / math.cosh(z[k] / (2 * width)) ** 2
            for q in range(3):
                pz = TN * rng.uniform(-3, 3)
                pperp2 = (TN * rng.uniform(0, 3)) ** 2
                E = math.sqrt(pz * pz + pperp2 + max(msq[i][k], 0.0))
                wgt = amp * env * rng.uniform(-1, 1) * TN ** 2 / 3
                ens[i, k, q] = (wgt, E, pz)
                D["00"][i, k] += wgt
                D["20"][i, k] += wgt * E * E
                D["02"][i, k] += wgt * pz * pz
                D["11"][i, k] += wgt * E * pz
    return D, ens


def flux_ref(ens_ik, vmid):
    """sum_k w p^mu p^nu with p boosted by an explicit Lorentz matrix -> (T30, T33)"""
    L = lorentz(vmid)
    T = np.zeros((4, 4))
    for wgt, E, pz in ens_ik:
        p = L @ np.array([E, 0.0, 0.0, pz])
        T += wgt * np.outer(p, p)
    return T[3, 0], T[3, 3]


def run_profile(name, vw, widths, offsets, shape, seed, amp, errTol=1e-6, offEq=True,
                regrid=True):
    """one call of the real EOM.findPlasmaProfile + independent recomputation"""
    from WallGo.containers import BoltzmannDeltas, WallParams
    from WallGo.polynomial import Polynomial
    veff, thermo, hydro, grid, eom, TN, nf = build_model(name)
    eom.errTol = errTol                     # read by findPlasmaProfilePoint at call time
    eom.includeOffEq = bool(offEq)          # the supplied moments count whatever this flag says
    try:
        c1, c2, Tp, Tm, vMid = hydro.findHydroBoundaries(vw)
        vp, vm, _, _ = hydro.findMatching(vw)
    except Exception as ex:                      # noqa: BLE001  (Hydrodynamics, not this property)
        return dict(nohydro=True, why="Hydrodynamics raised " + repr(ex)[:80])
    out = dict(c1=c1, c2=c2, Tp=Tp, Tm=Tm, vMid=vMid, vp=vp, vm=vm, vJ=hydro.vJ, Tn=TN)
    if vMid is None or (c1 == 0 and c2 == 0):
        out["nohydro"] = True
        out["why"] = "no hydrodynamic solution"
        return out
    out["branch"] = "detonation" if vw > hydro.vJ else ("hybrid" if vm < vw - 1e-9
                                                         else "deflagration")
    wp = WallParams(widths=np.array(widths[:nf]) / TN, offsets=np.array(offsets[:nf]))
    if regrid:
        eom._updateGrid(wp, vMid)           # pylint: disable=protected-access
    if not (thermo.TMinLowT <= Tm <= thermo.TMaxLowT and thermo.TMinHighT <= Tp <= thermo.TMaxHighT):
        # outside the traced phases the EOS is an extrapolation, not the potential's
        out["nohydro"] = True
        out["why"] = "T+/T- outside the tabulated phases"
        return out
    try:
        phiLow = thermo.freeEnergyLow(Tm).fieldsAtMinimum
        phiHigh = thermo.freeEnergyHigh(Tp).fieldsAtMinimum
    except Exception as ex:                      # noqa: BLE001  (T- or T+ outside the traced phase)
        out["nohydro"] = True
        out["why"] = repr(ex)[:80]
        return out
    fields, dPhidz = eom.wallProfile(grid.xiValues, phiLow, phiHigh, wp)
    z = np.asarray(grid.xiValues)
    n = len(z)
    parts = eom.particles
    msq = [[float(np.ravel(p.msqVacuum(fields.getFieldPoint(k)))[0]) for k in range(n)]
           for p in parts]
    D, ens = make_moments(seed, shape, len(parts), z, widths[0] / TN, amp, msq, TN)
    poly = lambda a: Polynomial(a, grid, direction=("Array", "z"), basis=("Array", "Cardinal"))
    deltas = BoltzmannDeltas(Delta00=poly(D["00"]), Delta02=poly(D["02"]),
                             Delta20=poly(D["20"]), Delta11=poly(D["11"]))
    calls = []
    orig = eom.findPlasmaProfilePoint

    def spy(index, *a, **k):
        r = orig(index, *a, **k)
        calls.append((int(index), float(r[0]), float(r[1])))
        return r
    eom.findPlasmaProfilePoint = spy          # instance attribute, removed below
    try:
        with Recorder() as rec:
            T, v = eom.findPlasmaProfile(c1, c2, vMid, fields, dPhidz, deltas, Tp, Tm)
    finally:
        del eom.findPlasmaProfilePoint
    out["success"] = bool(eom.successTemperatureProfile)
    out["calls"] = calls
    pts = []
    for k in range(n):
        fp = fields.getFieldPoint(k)
        dp = np.asarray(dPhidz.getFieldPoint(k), dtype=float)
        rp = rec.points[k]
        path = rp["path"]
        if path == "early" and abs(T[k] - rp["tmin"]) > 1e-12 * abs(rp["tmin"]):
            path = "gaveup"          # the point solver returned (0,0); previous point copied
        o30 = o33 = 0.0
        for i, p in enumerate(parts):
            a30, a33 = flux_ref(ens[i, k], vMid)
            o30 += p.totalDOFs * a30
            o33 += p.totalDOFs * a33
        w = -T[k] * dVdT(veff, fp, T[k])
        V = float(np.ravel(veff.evaluate(fp, T[k]))[0])
        g2 = 1.0 / (1.0 - v[k] ** 2) if abs(v[k]) < 1 else float("inf")
        r30 = (w * g2 * v[k] + o30 - c1) / abs(c1)
        r33 = (0.5 * float(np.sum(dp ** 2)) - V + w * g2 * v[k] ** 2 + o33 - c2) / abs(c2)
        d = dict(k=k, T=float(T[k]), v=float(v[k]), path=path, r30=r30, r33=r33, w=w,
                 tmin=rp["tmin"], fmin_rel=rp["fmin"] / abs(c2),
                 # size of what was supplied on top of the equilibrium problem, in units of |c2|
                 pert_rel=(abs(o30) + abs(o33)) / abs(c2),
                 kin_rel=0.5 * float(np.sum(dp ** 2)) / abs(c2))
        if path == "root":
            d.update(bracket=rp["bracket"], fa=rp["fa"], fb=rp["fb"], root=rp["root"],
                     root_err=abs(rp["root"] - rp["ref"]), root_ref=rp["ref"],
                     froot_rel=rp["froot"] / abs(c2))
        pts.append(d)
    out["points"] = pts
    out["T"], out["v"] = [float(x) for x in T], [float(x) for x in v]
    # hypotheses of the asymptote theorems, measured
    fpH, fpL = phiHigh, phiLow
    out["hyp"] = dict(
        VH=float(np.ravel(veff.evaluate(fpH, Tp))[0]) + float(thermo.pHighT(Tp)),
        wH=-Tp * dVdT(veff, fpH, Tp) - float(thermo.wHighT(Tp)),
        VL=float(np.ravel(veff.evaluate(fpL, Tm))[0]) + float(thermo.pLowT(Tm)),
        wL=-Tm * dVdT(veff, fpL, Tm) - float(thermo.wLowT(Tm)),
        j1=(float(thermo.wLowT(Tm)) * vm / (1 - vm ** 2)
            - float(thermo.wHighT(Tp)) * vp / (1 - vp ** 2)) / abs(c1),
        j2=(float(thermo.pLowT(Tm)) + float(thermo.wLowT(Tm)) * vm ** 2 / (1 - vm ** 2)
            - c2) / abs(c2),
        c1=(c1 + float(thermo.wHighT(Tp)) * vp / (1 - vp ** 2)) / abs(c1),
        wscale=float(thermo.wHighT(Tp)))
    # sound speeds behind the wall: equilibrium (thermodynamics) and at FIXED field
    # cs_f^2 = p_T / (T p_TT), p = -V(phi-, T)
    hT = 2e-3 * Tm
    pT = -dVdT(veff, fpL, Tm)
    pTT = -(dVdT(veff, fpL, Tm + hT) - dVdT(veff, fpL, Tm - hT)) / (2 * hT)
    out["cs_eq"] = math.sqrt(float(thermo.csqLowT(Tm)))
    out["cs_fixed"] = math.sqrt(pT / (Tm * pTT)) if pT > 0 and pTT > 0 else float("nan")
    return out


TOL_ASYM = 1e-3


def tol_cons(errTol):
    """relative to |c1|, |c2|: the root is located to rtol = errTol/10 and
    |dLHS/dlnT| is a few |c2|, so the residual is below ~0.5 errTol; 1e-5 floor for the
    harness' own finite-difference enthalpy"""
    return max(2 * errTol, 1e-5)
FINDING_KEY = "success-without-root"
JUNCTION_MAX = 0.1       # larger defects of the matching are not accepted as an excuse
HYP_MAX_FRACTION = 0.08  # of the profiles may have hypotheses (Hydrodynamics/Thermodynamics) fail


def registered(ctx, key):
    return any(k.get("property") == ctx.pid and k.get("key") == key
               for k in ctx.known.get("findings", []))


def judge(ctx, name, vw, widths, offsets, shape, seed, amp, res, stats, errTol=1e-6,
          offEq=True, history=False, prefix=None):
    """evaluate the property on one profile; report failing inputs"""
    rep = dict(kind="profile", model=name, vw=vw, widths=widths, offsets=offsets,
               moments=shape, seed=seed, amp=amp, errTol=errTol, offEq=offEq)
    if history:
        rep["history"] = "call on an object that already served other calls on the same grid"
        rep["prefix"] = list(prefix or [])
    TOL_CONS = tol_cons(errTol)
    fails = {}

    def fail(key, size, what, r):
        if key not in fails or size > fails[key][0]:
            fails[key] = (size, what, r)
    br = res["branch"]
    tag = "%s/%s/%s" % (name, br, shape)
    ctx.count("profile", rep, bucket=tag)
    # A-validation: hypotheses of the asymptote theorems
    h = res["hyp"]
    hyp_bad = set()
    for nm, val, tol in (("V(phi+,T+) = -pHighT", h["VH"] / h["wscale"], 1e-6),
                         ("-T dV/dT(phi+,T+) = wHighT", h["wH"] / h["wscale"], 1e-5),
                         ("V(phi-,T-) = -pLowT", h["VL"] / h["wscale"], 1e-6),
                         ("-T dV/dT(phi-,T-) = wLowT", h["wL"] / h["wscale"], 1e-5),
                         ("junction T30", h["j1"], 5e-4), ("junction T33", h["j2"], 5e-4),
                         ("c1 = -w+ g2 v+", h["c1"], 1e-12)):
        ctx.count("hypothesis_checked", nontrivial=False)
        if abs(val) > tol:
            hyp_bad.add(nm)
            stats["hyp_bad"] = stats.get("hyp_bad", 0) + 1
            ctx.log("hypothesis of the asymptote theorems not met: %s off by %.2e (%s vw=%g)"
                    % (nm, val, name, vw))
            if nm.startswith("c1"):
                ctx.fail_input("findHydroBoundaries: c1 != -wHighT(T+) gamma^2 v+ (rel %.2e)"
                               % val, rep, key="c1-convention")
    # theorem profile_success_flag on the real loop: the flag is true exactly when every point
    # solver call returned T > 0; stored values are the point outputs / a copy of the previous
    calls, Ts, vs = res["calls"], res["T"], res["v"]
    ctx.count("success_flag_checked", nontrivial=False)
    sem_ok = [c[0] for c in calls] == list(range(len(Ts))) and \
        res["success"] == all(c[1] > 0 for c in calls)
    for k, Tc, vc in (calls if sem_ok else []):
        want = (Tc, vc) if Tc > 0 else ((Ts[k - 1], vs[k - 1]) if k > 0 else (0.0, 0.0))
        sem_ok = sem_ok and (Ts[k], vs[k]) == want
    if not sem_ok:
        ctx.fail_input("findPlasmaProfile: success flag / stored profile do not follow the "
                       "point solver outputs (flag=%s, point T>0: %s) [%s vw=%g]" % (
                           res["success"], [c[1] > 0 for c in calls], tag, vw), rep,
                       key="success-flag-semantics")
    junction_bad = bool({"junction T30", "junction T33"} & hyp_bad)
    if hyp_bad:
        stats["hyp_bad_profiles"] = stats.get("hyp_bad_profiles", 0) + 1
    if not res["success"]:
        # the property is conditional on success: nothing more is claimed for this profile
        stats["nosuccess"] = stats.get("nosuccess", 0) + 1
        ctx.count("profile_without_success", nontrivial=False, bucket=tag)
        if shape == "none" and not junction_bad:
            ctx.fail_input("equilibrium profile not found on a regular %s (%s, vw=%g): "
                           "successTemperatureProfile=False" % (br, name, vw), rep,
                           key="no-profile:" + br)
    worst = dict(r30=0.0, r33=0.0)
    for d in res["points"]:
        if not d["T"] > 0 or d["path"] == "gaveup":
            ctx.count("grid_point", nontrivial=False, bucket="gaveup")
            continue
        ctx.count("grid_point", nontrivial=False, bucket=d["path"])
        if not abs(d["v"]) < 1 or not d["w"] > 0:
            fail("unphysical-state", 1.0, "point %d: |v|>=1 or w<=0 (T=%g v=%g w=%g) [%s vw=%g]" % (
                d["k"], d["T"], d["v"], d["w"], tag, vw), dict(rep, k=d["k"]))
            continue
        if d["path"] == "root":
            # contract of the root finder + theorem loop_bracket, on the real run
            a, b = d["bracket"]
            ctx.count("root_contract_checked", nontrivial=False)
            if not (d["fa"] < 0 <= d["fb"]) or not (min(a, b) <= d["root"] <= max(a, b)) \
                    or abs(d["froot_rel"]) > TOL_CONS:
                fail("root-contract", abs(d["froot_rel"]) + 1.0,
                     "point %d: bracket (%.8g,%.8g) f=(%.3e,%.3e) root %.8g "
                     "f(root)/|c2|=%.2e violates the sign-change/root contract [%s]"
                     % (d["k"], a, b, d["fa"], d["fb"], d["root"], d["froot_rel"], tag),
                     dict(rep, k=d["k"]))
            # conclusion of theorem root_accuracy_is_relative, measured: the returned temperature
            # is within 1e-10 Tn + errTol/10 |r| of the zero (relative: independent of the units)
            bound = 1e-10 * res["Tn"] + errTol / 10 * abs(d["root_ref"])
            if d["root_err"] > 1.01 * bound + 4e-16 * abs(d["root_ref"]):
                fail("root-accuracy", d["root_err"] / bound,
                     "point %d: returned T=%.12g is %.2e away from the zero %.12g of the LHS, "
                     "more than 1e-10*Tn + errTol/10*|T| = %.2e (errTol=%g) [%s vw=%g]" % (
                         d["k"], d["root"], d["root_err"], d["root_ref"], bound, errTol, tag, vw),
                     dict(rep, k=d["k"]))
            det = br == "detonation"
            if (det and not d["root"] <= d["tmin"] * (1 + 1e-12)) or \
                    (not det and not d["root"] >= d["tmin"] * (1 - 1e-12)):
                fail("branch-side:" + br, abs(d["root"] - d["tmin"]),
                     "point %d: root %.8g on the wrong side of the minimiser %.8g for "
                     "a %s [%s vw=%g]" % (d["k"], d["root"], d["tmin"], br, tag, vw),
                     dict(rep, k=d["k"]))
        worst["r30"] = max(worst["r30"], abs(d["r30"]))
        if abs(d["r30"]) > TOL_CONS:
            fail("T30:" + d["path"], abs(d["r30"]), "T30 not conserved at grid point %d: residual %.2e |c1| "
                           "(T=%.6g v=%.6g, path %s) [%s vw=%g]" % (
                               d["k"], d["r30"], d["T"], d["v"], d["path"], tag, vw),
                 dict(rep, k=d["k"]))
        if abs(d["r33"]) > TOL_CONS:
            # Class of the registered finding "success-without-root", by its MECHANISM: the point
            # solver took the no-root path, the minimum of the LHS is positive, and the T33
            # residual recomputed independently EQUALS that minimum (theorems
            # no_root_returns_minimum + T33 residual = LHS). The equilibrium problem with
            # consistent boundary constants has a root, and dLHS/ds1 <= 1, dLHS/ds2 = -1, so the
            # minimum cannot exceed what was put on top of it: the supplied stress |Tout30| +
            # |Tout33| plus the measured defects of the junction conditions. Anything larger
            # (in particular any residual without moments and with good matching) is a VIOLATION.
            # ... nor the gradient energy 1/2 phi'^2 of the wall shape that was imposed (thin walls).
            # Measured junction defects are admitted up to JUNCTION_MAX only (B8).
            cap = 1.05 * (d["pert_rel"] + d["kin_rel"] + min(JUNCTION_MAX, abs(h["j1"])) *
                          abs(res["c1"] / res["c2"]) + min(JUNCTION_MAX, abs(h["j2"]))) + TOL_CONS
            if d["path"] == "early" and 0 < d["fmin_rel"] <= cap and \
                    abs(d["r33"] - d["fmin_rel"]) <= TOL_CONS:
                stats.setdefault("finding", []).append(dict(rep, k=d["k"], r33=d["r33"],
                                                            T=d["T"], v=d["v"],
                                                            fmin_rel=d["fmin_rel"],
                                                            junction_bad=junction_bad))
                continue
            fail("T33:" + d["path"], abs(d["r33"]),
                 "T33 not conserved at grid point %d: residual %.2e |c2| "
                 "(T=%.6g v=%.6g, path %s) [%s vw=%g]" % (
                     d["k"], d["r33"], d["T"], d["v"], d["path"], tag, vw), dict(rep, k=d["k"]))
        else:
            worst["r33"] = max(worst["r33"], abs(d["r33"]))
    for key, (size, what, r) in sorted(fails.items()):
        ctx.fail_input(what, r, key=key)
    if worst["r33"] > stats.get("worst33", 0.0) and errTol <= 1e-6:
        stats["worst33_where"] = (tag, vw, [(d["k"], d["path"], "%.1e" % d["r33"]) for d in res["points"] if abs(d["r33"]) > 0.3 * worst["r33"]][:6])
    if errTol <= 1e-6:
        stats["worst30"] = max(stats.get("worst30", 0.0), worst["r30"])
        stats["worst33"] = max(stats.get("worst33", 0.0), worst["r33"])
    # asymptotes (index 0: deep behind the wall; last: far in front)
    if shape in ("none", "bump") and not res["success"]:
        ctx.count("asymptote_not_claimed_no_success", nontrivial=False, bucket=br)
    if shape in ("none", "bump") and res["success"]:
        T, v = res["T"], res["v"]
        eb = max(abs(T[0] / res["Tm"] - 1), abs(v[0] + res["vm"]))
        ef = max(abs(T[-1] / res["Tp"] - 1), abs(v[-1] + res["vp"]))
        tol_a = TOL_ASYM if shape == "none" else 10 * TOL_ASYM   # moments do not vanish at the ends
        p0 = res["points"][0]
        back_hyp = {"V(phi-,T-) = -pLowT", "-T dV/dT(phi-,T-) = wLowT", "junction T30",
                    "junction T33"} & hyp_bad
        front_hyp = {"V(phi+,T+) = -pHighT", "-T dV/dT(phi+,T+) = wHighT"} & hyp_bad
        if back_hyp:      # premises of asymptote_back measured false: the theorem says nothing
            ctx.count("asymptote_skipped_hypothesis", nontrivial=False, bucket="back:" + br)
            eb = 0.0
        if front_hyp:
            ctx.count("asymptote_skipped_hypothesis", nontrivial=False, bucket="front:" + br)
            ef = 0.0
        if eb > tol_a and br == "detonation" and p0["tmin"] < res["Tm"] * (1 - 1e-7) and \
                res["cs_eq"] < res["vm"] < res["cs_fixed"]:
            # The hydrodynamic state (T-, v-) itself lies ABOVE the minimiser of the LHS at the
            # last point behind the wall (v- is supersonic for the equilibrium sound speed but
            # subsonic for the sound speed at fixed field); by theorem branch_rule the detonation
            # rule can only return roots <= minimiser, so it cannot tend to (T-, -v-).
            stats.setdefault("finding2", []).append(dict(
                rep, Tminus=res["Tm"], vminus=res["vm"], T_back=T[0], v_back=v[0],
                minimiser_back=p0["tmin"], cs_eq=res["cs_eq"], cs_fixed=res["cs_fixed"], err=eb))
            eb = 0.0
        stats["worst_asym"] = max(stats.get("worst_asym", 0.0), eb, ef)
        if max(eb, ef) >= stats.get("worst_asym", 0.0):
            stats["worst_asym_where"] = (tag, vw, errTol, "back %.1e front %.1e" % (eb, ef))
        ctx.count("asymptote_checked", nontrivial=False, bucket=br)
        if eb > tol_a:
            ctx.fail_input("behind the wall the profile tends to (T=%.6g, v=%.6g) instead of "
                           "(T-=%.6g, -v-=%.6g) [%s vw=%g, (T+-Tn)/Tn=%.2e]" % (
                               T[0], v[0], res["Tm"], -res["vm"], tag, vw,
                               (res["Tp"] - res["Tn"]) / res["Tn"]), rep, key="asymptote-back:" + br)
        if ef > tol_a:
            ctx.fail_input("in front of the wall the profile tends to (T=%.6g, v=%.6g) instead "
                           "of (T+=%.6g, -v+=%.6g) [%s vw=%g, (T+-Tn)/Tn=%.2e]" % (
                               T[-1], v[-1], res["Tp"], -res["vp"], tag, vw,
                               (res["Tp"] - res["Tn"]) / res["Tn"]), rep, key="asymptote-front:" + br)


def direct_validation(ctx):
    rng = ctx.rng
    stats = {}
    plan = []
    # the RECORDED input of the known finding "detonation-root-above-minimiser" is replayed first
    # on every run; it is reported under that key only if the independent criterion of judge()
    # still classifies it (hydrodynamic T- above the LHS minimiser behind the wall)
    rpath = os.path.join(vlib.VERIF, "findings", "C04_detonation_wrong_root.json")
    if os.path.exists(rpath):
        with open(rpath) as fh:
            ri = json.load(fh)
        try:
            res = run_profile(ri["model"], ri["vw"], ri["widths"], ri["offsets"], ri["moments"],
                              ri["seed"], ri["amp"], errTol=ri.get("errTol", 1e-6),
                              offEq=ri.get("offEq", True))
            ctx.count("recorded_finding_replayed", nontrivial=False)
            if res.get("nohydro"):
                ctx.log("recorded input findings/C04_detonation_wrong_root.json: no profile "
                        "(%s)" % res.get("why"))
            else:
                judge(ctx, ri["model"], ri["vw"], ri["widths"], ri["offsets"], ri["moments"],
                      ri["seed"], ri["amp"], res, stats, errTol=ri.get("errTol", 1e-6),
                      offEq=ri.get("offEq", True))
                for d in stats.get("finding2", []):
                    d["recorded_input"] = True
                if not stats.get("finding2"):
                    ctx.log("recorded input findings/C04_detonation_wrong_root.json no longer "
                            "shows the detonation taking the root below a minimiser that lies "
                            "below T- (back: T=%.8g, T-=%.8g)" % (res["T"][0], res["Tm"]))
        except Exception as ex:                          # noqa: BLE001
            ctx.log("replay of findings/C04_detonation_wrong_root.json raised %r" % ex)
    # DIRECTED case (fixed in 12044cf: tolerances of the point solver relative to the temperature
    # scale): a unit system with T ~ 1e-6; judged like any other profile, a failure is a VIOLATION
    rpath = os.path.join(vlib.VERIF, "findings", "C04_minimiser_xatol.json")
    if os.path.exists(rpath):
        with open(rpath) as fh:
            ri = json.load(fh)
        for vw_d in (ri["vw"], 0.58, 0.3):
            res = run_profile(ri["model"], vw_d, ri["widths"], ri["offsets"], ri["moments"],
                              ri["seed"], ri["amp"], errTol=ri.get("errTol", 1e-6))
            ctx.count("directed_small_units", nontrivial=False)
            if res.get("nohydro"):
                ctx.broken.append("harness: directed small-unit case has no profile (%s)" %
                                  res.get("why"))
            else:
                judge(ctx, ri["model"], vw_d, ri["widths"], ri["offsets"], ri["moments"],
                      ri["seed"], ri["amp"], res, stats, errTol=ri.get("errTol", 1e-6))
    # (model, velocity window) -- windows relative to the model's own cs / vJ, see below
    for name in MODELS:
        tier = MODELS[name].get("tier")
        if tier == "recorded" or (tier == "thorough" and ctx.quick):
            continue
        _, thermo, hydro, _, _, TN, _ = build_model(name)
        vJ = hydro.vJ
        cs = math.sqrt(float(thermo.csqLowT(TN)))
        weak = MODELS[name].get("geff") is not None
        nd, nh, nt = ctx.n(2, 14), ctx.n(1, 8), ctx.n(1, 8)
        if name.startswith("quartic1"):
            nd, nh, nt = ctx.n(1, 8), ctx.n(1, 5), ctx.n(1, 5)
        if weak:
            # weak transition: (T+ - Tn)/Tn < 1e-3 for subsonic walls, v+ > 1/3
            vws = [rng.uniform(0.35, 0.44) for _ in range(nd)] + [rng.uniform(0.2, 0.33)]
        else:
            vws = [rng.uniform(max(hydro.vMin, 0.01) + 0.005, cs - 0.002) for _ in range(nd)]
            # one slow wall per model (largest dLHS/dT at the root)
            vws.append(rng.uniform(max(hydro.vMin, 0.01) + 0.005, 0.3))
        # whole hybrid window; profiles whose T-/T+ leave the tabulated phases or whose measured
        # junction conditions fail are handled by the measurements in run_profile / judge
        vws += [rng.uniform(cs + 0.001, vJ - 0.001) for _ in range(nh)]
        vws += [rng.uniform(vJ + 0.01, 0.99) for _ in range(nt)]
        vws.append(rng.uniform(vJ + 0.0005, vJ + 0.02))      # detonation just above Jouguet
        for vw in vws:
            plan.append((name, round(vw, 4)))
    first_of = {}
    for name, vw in plan:
        first_of.setdefault(name, (name, vw))
    # directed thin wall (inside the EOM's own bounds 0.1-100/Tn): no-root points caused by the
    # gradient energy alone -- same mechanism as the registered success-without-root
    resd = run_profile("xSM_BM1", 0.5983, [1.0, 1.0], [0.0, 0.0], "none", 1, 0.0)
    if not resd.get("nohydro"):
        ctx.count("directed_thin_wall", nontrivial=False)
        judge(ctx, "xSM_BM1", 0.5983, [1.0, 1.0], [0.0, 0.0], "none", 1, 0.0, resd, stats)
    for name, vw in plan:
        # wall shapes: mostly 3-8/Tn, but also thin (0.15-2/Tn) and thick (20-60/Tn, large
        # offsets) walls -- the EOM itself allows widths 0.1-100/Tn and offsets +-10
        u = rng.random()
        if u < 0.7:
            lo, hi, omax = 3.0, 8.0, 0.3
        elif u < 0.85:
            lo, hi, omax = 0.15, 2.0, 2.0
        else:
            lo, hi, omax = 20.0, 60.0, 5.0
        widths = [round(rng.uniform(lo, hi), 3), round(rng.uniform(lo, hi), 3)]
        offsets = [0.0, round(rng.uniform(-omax, omax), 3)]
        for shape in ("none", "bump", "flat"):
            seed = rng.randint(0, 10 ** 9)
            amp = 10 ** rng.uniform(-4, -2.7) if shape != "none" else 0.0
            offEq = shape != "bump" or rng.random() < 0.5
            try:
                res = run_profile(name, vw, widths, offsets, shape, seed, amp, offEq=offEq)
            except Exception as ex:                      # noqa: BLE001
                import traceback
                ctx.log("profile raised", traceback.format_exc())
                ctx.fail_input("findPlasmaProfile raised %r (%s vw=%g %s)" % (ex, name, vw, shape),
                               dict(kind="profile", model=name, vw=vw, widths=widths,
                                    offsets=offsets, moments=shape, seed=seed, amp=amp),
                               key="raises")
                continue
            if res.get("nohydro"):
                ctx.count("profile_skipped_no_hydro", nontrivial=False,
                          bucket=str(res.get("why"))[:40])
                break
            judge(ctx, name, vw, widths, offsets, shape, seed, amp, res, stats, offEq=offEq)
            if shape == "none":
                # the same equilibrium profile with the solver's DEFAULT tolerance
                res3 = run_profile(name, vw, widths, offsets, shape, seed, amp, errTol=1e-3)
                judge(ctx, name, vw, widths, offsets, shape, seed, amp, res3, stats, errTol=1e-3)
            if shape == "flat" and (not ctx.quick or (name, vw) == first_of.get(name)):
                # HISTORY on one object: more calls of findPlasmaProfile with other moments,
                # tolerance and includeOffEq and NO _updateGrid in between (this is what
                # wallPressure does); every call is judged on its own by the independent
                # recomputation, so any state kept between calls shows up
                prefix = [dict(moments="flat", seed=seed, amp=amp, errTol=1e-6, offEq=offEq,
                               regrid=True)]
                for hshape, herr, hoff in (("bump", 1e-6, True), ("none", 1e-3, False),
                                           ("flat", 1e-6, False), ("bump", 1e-6, True)):
                    hseed = rng.randint(0, 10 ** 9)
                    hamp = 10 ** rng.uniform(-4, -2.7) if hshape != "none" else 0.0
                    resh = run_profile(name, vw, widths, offsets, hshape, hseed, hamp,
                                       errTol=herr, offEq=hoff, regrid=False)
                    ctx.count("history_call", nontrivial=False)
                    judge(ctx, name, vw, widths, offsets, hshape, hseed, hamp, resh, stats,
                          errTol=herr, offEq=hoff, history=True, prefix=prefix)
                    prefix.append(dict(moments=hshape, seed=hseed, amp=hamp, errTol=herr,
                                       offEq=hoff, regrid=False))
            if len(ctx.cov["samples"]) < 6 and shape == "bump":
                ctx.sample(dict(model=name, vw=vw, branch=res["branch"],
                                Tp_minus_Tn_rel=(res["Tp"] - res["Tn"]) / res["Tn"],
                                worst=[stats.get("worst30"), stats.get("worst33")]))
    ctx.cov["asymptote_hypotheses_not_met"] = stats.get("hyp_bad", 0)
    nprof = max(1, ctx.cov["correspondence"].get("profile", 0))
    nbadp = stats.get("hyp_bad_profiles", 0)
    ctx.cov["profiles_with_failed_hypotheses"] = nbadp
    if nbadp > max(4, HYP_MAX_FRACTION * nprof):
        ctx.broken.append("hypotheses: %d of %d profiles have V=-p, w=-T dV/dT or the junction "
                          "conditions violated (Thermodynamics/Hydrodynamics): the asymptote "
                          "clause would be switched off too often" % (nbadp, nprof))
    ctx.cov["profiles_without_success_nothing_claimed"] = stats.get("nosuccess", 0)
    ctx.log("direct validation: %d profiles;" % ctx.cov["correspondence"].get("profile", 0),
            "worst |dT30|/|c1| = %.2e, worst |dT33|/|c2| (conserving "
            "points) = %.2e, worst asymptote error = %.2e, profiles without success: %d" % (
                stats.get("worst30", 0), stats.get("worst33", 0), stats.get("worst_asym", 0),
                stats.get("nosuccess", 0)))
    ctx.log("worst conserving T33 residual at", stats.get("worst33_where"),
            "; worst asymptote at", stats.get("worst_asym_where"))
    f2 = stats.get("finding2", [])
    f2.sort(key=lambda d: (not d.get("recorded_input", False), -d["err"]))
    ctx.cov["finding_detonation_wrong_root"] = dict(count=len(f2), worst=f2[0] if f2 else None)
    for top in f2:
        what = ("detonation whose v- lies between the equilibrium and the fixed-field sound "
                "speed: the hydrodynamic T-=%.8g is ABOVE the minimiser %.8g of the Eq.(20) LHS "
                "behind the wall, the detonation rule takes the root below it and the profile "
                "tends to (T=%.8g, v=%.6g) instead of (T-, -v-=%.6g); T30/T33 still conserved "
                "(model %s vw=%g%s)" % (
                    top["Tminus"], top["minimiser_back"], top["T_back"], top["v_back"],
                    -top["vminus"], top["model"], top["vw"],
                    ", recorded input" if top.get("recorded_input") else ""))
        if registered(ctx, "detonation-root-above-minimiser"):
            ctx.fail_input(what, top, key="detonation-root-above-minimiser")
        else:
            ctx.log("FINDING (not registered in known_findings.json, not counted):", what)
    # the RECORDED input of the known finding is replayed on every run (deterministic)
    recorded = []
    rpath = os.path.join(vlib.VERIF, "findings", "C04_success_without_root.json")
    if os.path.exists(rpath):
        with open(rpath) as fh:
            rec_in = json.load(fh)
        try:
            res = run_profile(rec_in["model"], rec_in["vw"], rec_in["widths"], rec_in["offsets"],
                              rec_in["moments"], rec_in["seed"], rec_in["amp"],
                              errTol=rec_in.get("errTol", 1e-6))
            ctx.count("recorded_finding_replayed", nontrivial=False)
            base = {k: rec_in[k] for k in ("model", "vw", "widths", "offsets", "moments",
                                           "seed", "amp")}
            base.update(kind="profile", errTol=rec_in.get("errTol", 1e-6))
            for d in res.get("points", []):
                if d["path"] == "early" and res["success"] and \
                        abs(d["r33"]) > tol_cons(base["errTol"]) and \
                        0 < d["fmin_rel"] <= (1.05 * (d["pert_rel"] + d["kin_rel"]) +
                                              tol_cons(base["errTol"])) and \
                        abs(d["r33"] - d["fmin_rel"]) <= tol_cons(base["errTol"]):
                    recorded.append(dict(base, k=d["k"], r33=d["r33"], T=d["T"], v=d["v"],
                                         fmin_rel=d["fmin_rel"]))
            if not recorded:
                ctx.log("recorded input findings/C04_success_without_root.json no longer shows "
                        "success without a root (branch %s, success %s)" % (
                            res.get("branch"), res.get("success")))
        except Exception as ex:                          # noqa: BLE001
            ctx.log("replay of findings/C04_success_without_root.json raised %r" % ex)
    f = stats.get("finding", [])
    # ONE ctx.fail_input per failing PROFILE (worst point of the profile), recorded input first,
    # so that ctx.known_count counts profiles and the max_hits cap of the key can bite
    def by_profile(pts):
        groups = {}
        for d in pts:
            pk = json.dumps({k_: d.get(k_) for k_ in ("model", "vw", "widths", "offsets",
                                                       "moments", "seed", "errTol", "offEq",
                                                       "history")}, sort_keys=True, default=str)
            if pk not in groups or abs(d["r33"]) > abs(groups[pk][0]["r33"]):
                groups[pk] = (d, groups.get(pk, (None, 0))[1] + 1)
            else:
                groups[pk] = (groups[pk][0], groups[pk][1] + 1)
        return list(groups.values())
    gr, gf = by_profile(recorded), by_profile(f)
    ctx.cov["finding_success_without_root"] = dict(
        recorded_input_points=len(recorded), random_run_points=len(f),
        recorded_input_profiles=len(gr), random_run_profiles=len(gf),
        worst=(max(recorded + f, key=lambda d: abs(d["r33"])) if recorded or f else None))
    for origin, groups in (("recorded input findings/C04_success_without_root.json", gr),
                           ("random profile", gf)):
        for top, npts in groups:
            cause = "supplied moments" if top.get("moments") != "none" else (
                "junction conditions not met by Hydrodynamics" if top.get("junction_bad")
                else "gradient energy of the imposed (thin) wall")
            what = ("findPlasmaProfilePoint returns the position of a POSITIVE minimum of the "
                    "Eq.(20) LHS (no root; cause: %s) and findPlasmaProfile keeps "
                    "successTemperatureProfile=True; T33 is off by %.2e |c2| at grid point %d "
                    "(%d such points in this profile; model %s vw=%g widths %s, %s)" % (
                        cause, top["r33"], top["k"], npts, top["model"], top["vw"],
                        top.get("widths"), origin))
            if registered(ctx, FINDING_KEY):
                ctx.fail_input(what, top, key=FINDING_KEY)
            else:
                ctx.log("FINDING (not registered in known_findings.json, not counted):", what)


# =====================================================================================
# end to end: the profile that wallPressure / solveWall hand back (WallGoResults)
# =====================================================================================

def run_e2e(name, vw, improve, errTol=1e-5, solve=False, offeq=None):
    """LTE run of the real EOM.wallPressure (or findWallVelocityDeflagrationHybrid): the
    returned BoltzmannBackground / WallGoResults is judged, and every findPlasmaProfile call
    made on the way is observed from outside (arguments, in their order, and results)."""
    from WallGo.containers import WallParams, BoltzmannDeltas
    from WallGo.results import BoltzmannResults
    from WallGo.polynomial import Polynomial
    veff, thermo, hydro, grid, eom, TN, nf = build_model(name)
    eom.errTol = errTol
    eom.includeOffEq = bool(offeq)
    eom.forceImproveConvergence = bool(improve)
    out = dict(kind="e2e", model=name, vw=vw, improve=bool(improve), errTol=errTol, bad=[],
               offeq=offeq)
    bs = eom.boltzmannSolver
    ngd = [0]
    if offeq:
        # the production configuration (WallGoManager.buildEOM: includeOffEq=True): the real
        # setBackground / mixing / boosts run; only the collision-file dependent Boltzmann solve
        # is replaced: delta f = 0 ("zero"), fixed wall-localised moments ("moments"), or
        # moments that change at every iteration ("varying": drives under-relaxation)
        def get_deltas_stub(deltaF=None):
            ngd[0] += 1
            nP, M1, N1 = len(eom.particles), grid.M - 1, grid.N - 1
            z = np.asarray(grid.xiValues)
            if offeq == "zero":
                D = {k_: np.zeros((nP, M1)) for k_ in ("00", "02", "20", "11")}
            else:
                fl = bs.background.fieldProfiles
                msq = [[float(np.ravel(p_.msqVacuum(fl.getFieldPoint(k_ + 1)))[0])
                        for k_ in range(M1)] for p_ in eom.particles]
                D, _ = make_moments(4711 + (ngd[0] if offeq == "varying" else 0), "bump", nP, z,
                                    5.0 / TN, 3e-4 if offeq == "moments" else 2e-3, msq, TN)
            poly = lambda a: Polynomial(a, grid, direction=("Array", "z"),
                                        basis=("Array", "Cardinal"))
            return BoltzmannResults(
                deltaF=np.zeros((nP, M1, N1, N1)),
                Deltas=BoltzmannDeltas(Delta00=poly(D["00"]), Delta02=poly(D["02"]),
                                       Delta20=poly(D["20"]), Delta11=poly(D["11"])),
                truncationError=0.0, linearizationCriterion1=np.zeros(nP),
                linearizationCriterion2=np.zeros(nP))
        bs.getDeltas = get_deltas_stub
    if eom.forceEnergyConservation is not True:
        out["bad"].append("EOM built with default arguments has forceEnergyConservation=%r" %
                          eom.forceEnergyConservation)
    calls = []
    orig = eom.findPlasmaProfile

    def spy(*a, **k):
        r = orig(*a, **k)
        calls.append(dict(args=a, kw=k, T=np.array(r[0], dtype=float), v=np.array(r[1], dtype=float),
                          success=bool(eom.successTemperatureProfile)))
        return r
    eom.findPlasmaProfile = spy
    mults = []
    orig_ipr = eom._intermediatePressureResults           # pylint: disable=protected-access

    def spy_ipr(*a, **k):
        mults.append(float(k.get("multiplier", a[11] if len(a) > 11 else 1.0)))
        return orig_ipr(*a, **k)
    eom._intermediatePressureResults = spy_ipr             # pylint: disable=protected-access
    saved_rtol, saved_maxit = eom.pressRelErrTol, eom.maxIterations
    if offeq == "varying":
        eom.pressRelErrTol = 1e-9        # never converges: under-relaxation / give-up branches run
        eom.maxIterations = 22
    try:
        if solve:
            res = eom.findWallVelocityDeflagrationHybrid()
            vw = res.wallVelocity
            Tprof, vprof, fprof = res.temperatureProfile, res.velocityProfile, res.fieldProfiles
            out.update(vw=vw, solve=True, success=bool(res.success))
            if vw is None:
                out["skipped"] = "no deflagration/hybrid solution"
                return out
        else:
            guess = WallParams(widths=np.array([5.0 / TN] * nf), offsets=np.array([0.0] * nf))
            _, wp, _, bg, hres = eom.wallPressure(vw, guess)
            Tprof, vprof, fprof = bg.temperatureProfile, bg.velocityProfile, bg.fieldProfiles
    finally:
        del eom.findPlasmaProfile
        del eom._intermediatePressureResults                # pylint: disable=protected-access
        eom.pressRelErrTol, eom.maxIterations = saved_rtol, saved_maxit
        eom.forceImproveConvergence = False
        eom.includeOffEq = True
        if offeq:
            del bs.getDeltas
    out["getDeltas_calls"] = ngd[0]
    out["multipliers"] = sorted(set(mults))
    out["successWallPressure"] = bool(eom.successWallPressure)
    if not solve:
        if getattr(bg, "velocityWall", 0) != 0 or bg.velocityMid != hydro.findHydroBoundaries(vw)[4]:
            out["bad"].append("returned BoltzmannBackground is not in the wall frame "
                              "(velocityWall=%r, velocityMid=%r)" % (
                                  getattr(bg, "velocityWall", None), bg.velocityMid))
    c1, c2, Tp, Tm, vMid = hydro.findHydroBoundaries(vw)
    vp, vm, _, _ = hydro.findMatching(vw)
    out.update(branch="detonation" if vw > hydro.vJ else ("hybrid" if vm < vw - 1e-9
                                                           else "deflagration"),
               Tp=Tp, Tm=Tm, vp=vp, vm=vm, ncalls=len(calls))
    Tprof, vprof = np.asarray(Tprof, dtype=float), np.asarray(vprof, dtype=float)
    n = len(grid.xiValues)
    tol = tol_cons(errTol)
    bad = out["bad"]
    if len(Tprof) != n + 2 or len(vprof) != n + 2:
        bad.append("returned profile has %d entries for %d grid points" % (len(Tprof), n))
        return out
    if Tprof[0] != Tm or Tprof[-1] != Tp:
        bad.append("end entries (%.10g, %.10g) are not (T-, T+) = (%.10g, %.10g)" % (
            Tprof[0], Tprof[-1], Tm, Tp))
    # every observed call receives the hydrodynamic constants, each in its own position
    want = dict(c1=c1, c2=c2, velocityMid=vMid, Tplus=Tp, Tminus=Tm)
    pos = dict(c1=0, c2=1, velocityMid=2, Tplus=6, Tminus=7)
    last = None
    for c in calls:
        if np.array_equal(np.asarray(c["args"][3]), np.asarray(fprof)[1:-1]):
            last = c
    for c in (calls if not solve else [x for x in [last] if x is not None]):
        for nm, i in pos.items():
            got = c["args"][i] if i < len(c["args"]) else c["kw"].get(nm)
            if got is None or abs(float(got) - want[nm]) > 1e-12 * abs(want[nm]):
                bad.append("findPlasmaProfile received %s = %r, hydrodynamics gives %.10g" % (
                    nm, got, want[nm]))
                break
        if bad:
            break
    if not calls:
        bad.append("findPlasmaProfile was never called")
    if last is None:
        bad.append("no findPlasmaProfile call was made with the field profile that is returned: "
                   "the returned plasma profile does not belong to the returned wall")
    elif not (np.array_equal(last["T"], Tprof[1:-1]) and np.array_equal(last["v"], vprof[1:-1])):
        bad.append("returned interior profile differs from the output of the findPlasmaProfile "
                   "call made with the returned field profile")
    # independent recomputation on what is returned
    r30 = r33 = 0.0
    dphi = last["args"][4] if last is not None else None
    dl = last["args"][5] if last is not None else None
    g_ = 1.0 / math.sqrt(1.0 - vMid * vMid)
    u0_, u3_, b0_, b3_ = g_, g_ * vMid, g_ * vMid, g_
    for k in range(1, n + 1):
        fp = fprof.getFieldPoint(k)
        T, v = float(Tprof[k]), float(vprof[k])
        if not (T > 0 and abs(v) < 1):
            bad.append("unphysical state at point %d: T=%g v=%g" % (k, T, v))
            continue
        w = -T * dVdT(veff, fp, T)
        g2 = 1.0 / (1.0 - v * v)
        o30 = o33 = 0.0
        if dl is not None:
            # out-of-equilibrium stress of the moments handed to that call, by the boost formula
            # (theorem deltaToTmunu_is_boost), not by deltaToTmunu
            for i_, p_ in enumerate(eom.particles):
                d20, d02, d11 = (float(getattr(dl, nm_).coefficients[i_, k - 1])
                                 for nm_ in ("Delta20", "Delta02", "Delta11"))
                o30 += p_.totalDOFs * (d20 * u3_ * u0_ + d02 * b3_ * b0_
                                       + d11 * (u3_ * b0_ + b3_ * u0_))
                o33 += p_.totalDOFs * (d20 * u3_ * u3_ + d02 * b3_ * b3_ + 2 * d11 * u3_ * b3_)
        elif offeq and offeq != "zero":
            continue
        r30 = max(r30, abs(w * g2 * v + o30 - c1) / abs(c1))
        if dphi is not None:
            dp = np.asarray(dphi.getFieldPoint(k - 1), dtype=float)
            V = float(np.ravel(veff.evaluate(fp, T))[0])
            r33 = max(r33, abs(0.5 * float(np.sum(dp ** 2)) - V + w * g2 * v * v + o33 - c2)
                      / abs(c2))
    out.update(r30=r30, r33=r33)
    if calls and not calls[-1]["success"]:
        out["skipped"] = "successTemperatureProfile is False"
        return out
    if r30 > tol:
        bad.append("T30 of the returned profile off by %.2e |c1|" % r30)
    if r33 > tol:
        if offeq in ("moments", "varying") and out["branch"] != "deflagration":
            out["skipped_T33"] = ("moments on a hybrid/near-sonic wall: no-root points possible "
                                  "(registered success-without-root), r33=%.2e" % r33)
        else:
            bad.append("T33 of the returned profile off by %.2e |c2|" % r33)
    inside = thermo.TMinLowT <= Tm <= thermo.TMaxLowT and thermo.TMinHighT <= Tp <= thermo.TMaxHighT
    eb = max(abs(Tprof[1] / Tm - 1), abs(vprof[1] + vm))
    ef = max(abs(Tprof[-2] / Tp - 1), abs(vprof[-2] + vp))
    out.update(asym_back=eb, asym_front=ef)
    if inside and max(eb, ef) > (TOL_ASYM if offeq in (None, "zero") else 10 * TOL_ASYM):
        bad.append("first/last interior point (T=%.8g v=%.6g | T=%.8g v=%.6g) instead of "
                   "(T-=%.8g, -v-=%.6g | T+=%.8g, -v+=%.6g)" % (
                       Tprof[1], vprof[1], Tprof[-2], vprof[-2], Tm, -vm, Tp, -vp))
    return out


def e2e_validation(ctx):
    rng = ctx.rng
    models = ["xSM_BM1", "quartic1_TeV"] if ctx.quick else \
        [m for m in MODELS if MODELS[m].get("tier") != "recorded"]
    models.append("manager_xSM")
    worst = dict(r30=0.0, r33=0.0, asym=0.0)
    mults = set()
    for name in models:
        _, thermo, hydro, _, _, TN, _ = build_model(name)
        if name == "manager_xSM":
            fl = _CACHE[name + ":built_flags"]
            ctx.log("EOM built by WallGoManager with Config() defaults:", fl)
            if fl["forceEnergyConservation"] is not True:
                ctx.fail_input("WallGoManager.buildEOM with the default configuration builds an "
                               "EOM with forceEnergyConservation=%r: wallPressure then freezes the "
                               "plasma profile of the first iteration" %
                               fl["forceEnergyConservation"],
                               dict(kind="e2e", model=name, vw=0.4, improve=False),
                               key="e2e:manager-default")
        cs = math.sqrt(float(thermo.csqLowT(TN)))
        vJ = hydro.vJ
        first = name == models[0]
        for bi, (lo, hi) in enumerate(((0.2, cs - 0.02), (cs + 0.005, min(vJ - 0.005, cs + 0.02)),
                                        (vJ + 0.03, 0.9))):
            vw = round(rng.uniform(lo, hi), 4)
            variants = [(False, None), (True, None)] if (not ctx.quick or first) else \
                [(rng.random() < 0.5, None)]
            if name == "manager_xSM":
                variants = [(False, None)] if ctx.quick and bi != 0 else [(False, None),
                                                                          (False, "zero")]
            elif not ctx.quick or first:
                # production configuration: includeOffEq=True (setBackground, mixing, boosts)
                variants += [(False, "zero"), (False, "moments")]
                if not ctx.quick or bi == 2:
                    variants.append((False, "varying"))
            for improve, offeq in variants:
                rep = dict(kind="e2e", model=name, vw=vw, improve=improve, offeq=offeq)
                try:
                    out = run_e2e(name, vw, improve, offeq=offeq)
                except Exception as ex:                  # noqa: BLE001
                    import traceback
                    ctx.log("wallPressure raised", traceback.format_exc())
                    ctx.fail_input("wallPressure raised %r (%s vw=%g offeq=%s)" % (
                        ex, name, vw, offeq), rep, key="e2e-raises")
                    continue
                ctx.count("e2e_wallPressure", rep,
                          bucket="%s/%s/improve=%s/offeq=%s" % (name, out.get("branch"), improve,
                                                               offeq))
                mults |= set(out.get("multipliers", []))
                for k_ in ("r30", "r33"):
                    worst[k_] = max(worst[k_], out.get(k_, 0.0))
                worst["asym"] = max(worst["asym"], out.get("asym_back", 0.0),
                                    out.get("asym_front", 0.0))
                if out["bad"]:
                    ctx.fail_input("wallPressure(%s, vw=%g, offeq=%s, forceImproveConvergence=%s) "
                                   "returns a plasma profile that violates the property: %s" % (
                                       name, vw, offeq, improve, "; ".join(out["bad"][:3])),
                                   dict(rep, errTol=out["errTol"]),
                                   key="e2e:" + out["bad"][0][:24])
    ctx.cov["e2e_multipliers_seen"] = sorted(mults)
    if not [m for m in mults if m < 1.0]:
        ctx.broken.append("harness: no wallPressure run reached the under-relaxation branches "
                          "(multiplier < 1)")
    # one full solve: WallGoResults.temperatureProfile / velocityProfile / fieldProfiles
    name = "manager_xSM" if ctx.quick else rng.choice(["manager_xSM", "xSM_BM1", "quartic1",
                                                        "quartic1_TeV"])
    try:
        out = run_e2e(name, None, False, errTol=1e-4, solve=True)
        ctx.count("e2e_solveWall", dict(model=name), bucket=name)
        if out["bad"]:
            ctx.fail_input("findWallVelocityDeflagrationHybrid(%s): WallGoResults profile violates "
                           "the property at vw=%s: %s" % (name, out.get("vw"),
                                                          "; ".join(out["bad"][:3])),
                           dict(kind="e2e", model=name, solve=True), key="e2e-solveWall")
        worst["r30"] = max(worst["r30"], out.get("r30", 0.0))
    except Exception as ex:                              # noqa: BLE001
        import traceback
        ctx.log("solveWall raised", traceback.format_exc())
        ctx.fail_input("findWallVelocityDeflagrationHybrid raised %r (%s)" % (ex, name),
                       dict(kind="e2e", model=name, solve=True), key="e2e-raises")
    ctx.log("end to end (wallPressure / solveWall, LTE): worst |dT30|/|c1| = %.2e, |dT33|/|c2| = "
            "%.2e, asymptote error = %.2e" % (worst["r30"], worst["r33"], worst["asym"]))


# =====================================================================================

def replay_model_witness(ctx):
    """Witness of theorem success_implies_T33_refuted (radiation V=-T^4, no moments, c1=-1,
    c2=1/4, one grid point) on the implementation: stub collaborators, the real
    findPlasmaProfile loop, the real scipy minimiser."""
    from WallGo import Fields
    case = dict(pot=[Fraction(1), Fraction(0), Fraction(0)], Tn=Fraction(1),
                particles=[], fields=[Fraction(0), Fraction(0)],
                dPhidz=[Fraction(0), Fraction(0)], index=0, vmid=Fraction(0))
    for nm in ("Delta00", "Delta02", "Delta20", "Delta11"):
        case[nm] = [[Fraction(0)]]
    eom = stub_eom(case)
    eom.grid = types.SimpleNamespace(xiValues=np.array([0.0]))
    eom.successTemperatureProfile = None
    fl = Fields([0.0, 0.0])
    fp = fl.getFieldPoint(0)
    with Recorder() as rec:
        T, v = eom.findPlasmaProfile(-1.0, 0.25, 0.0, fl, fl, stub_deltas(case), 1.0, 1.0)
    T, v = float(T[0]), float(v[0])
    w = -T * eom.thermo.effectivePotential.derivT(fp, T)
    res = -eom.thermo.effectivePotential.evaluate(fp, T) + w * v * v / (1 - v * v) - 0.25
    ctx.count("model_witness_replayed", nontrivial=False)
    ctx.log("refutation witness on the implementation: path=%s success=%s T=%.6g v=%.6g, "
            "T33 residual %.4g (LHS there %.4g)" % (
                rec.points[-1]["path"], eom.successTemperatureProfile, T, v, res,
                rec.points[-1]["fmin"]))
    if rec.points[-1]["path"] == "early" and eom.successTemperatureProfile is True and T > 0 \
            and res > 1e-3:
        return dict(kind="witness", c1=-1.0, c2=0.25, potential="V=-T^4", T=T, v=v, residual=res)
    ctx.broken.append("correspondence: the implementation does not follow the model on the "
                      "witness of success_implies_T33_refuted")
    return None


def run(ctx):
    gen_ok = True
    try:
        import glob
        package = {}
        for fpath in sorted(glob.glob(os.path.join(vlib.SRC, "*.py"))):
            with open(fpath) as fh:
                package[os.path.basename(fpath)] = fh.read()
        text, info = gen_eom_plasma.generate(vlib.read_src("equationOfMotion.py"),
                                             vlib.read_src("helpers.py"),
                                             vlib.read_src("hydrodynamics.py"), package=package)
        ctx.write("EomPlasma.v", text, sources=dict(
            files=["src/WallGo/equationOfMotion.py", "src/WallGo/helpers.py",
                   "src/WallGo/hydrodynamics.py"],
            sha=vlib.sha(vlib.read_src("equationOfMotion.py")), spans=info["spans"],
            facts=info.get("facts"),
            not_modelled=sorted(set(info["ignored"]))))
    except pyrx.TranslateError as e:
        ctx.log("translator failed:", e)
        ctx.broken.append("translator: %s" % e)
        gen_ok = False
    proved = gen_ok and ctx.prove(extra=["EomPlasma.v"])
    ctx.trusted += ["tools/pyrx.py + tools/gen_eom_plasma.py (AST translator, fail closed)",
                    "Interval tactic (certified evaluation)"]
    try:
        stub_correspondence(ctx, proved)
        ctx.cov["refutation_witness_on_implementation"] = replay_model_witness(ctx)
    except Exception as ex:                              # noqa: BLE001
        import traceback
        ctx.log("stub correspondence raised", traceback.format_exc())
        ctx.broken.append("harness: stub correspondence raised %r" % ex)
    direct_validation(ctx)
    e2e_validation(ctx)
    ctx.cov["rule"] = (
        "stub cases: random dyadic potentials -aT^4+bST^2+cS^2, 1-3 particles, 2 fields, "
        "anisotropic Delta tables (4 columns, random column index); decision cases built "
        "around a hydrodynamic state (subsonic and supersonic) with T+/T- 3-20% away from "
        "the root, |Tn-T+|/Tn in {0, 5e-11, 2e-10, >1e-2}, and a no-root variant; cases whose "
        "decisions have relative margin < 1e-6 are skipped. Real models: xSM BM1, the same "
        "with 10x light d.o.f. (weak: (T+-Tn)/Tn < 1e-3), a one-field quartic in GeV-like units "
        "(Tn=83) and the same physics in units with Tn=0.083 and Tn~1; wall velocities drawn in the "
        "deflagration, hybrid and detonation windows, random widths 3-8/Tn and offsets, "
        "moments none / wall-localised / same size everywhere, built from explicit on-shell "
        "momentum ensembles (Delta02 != Delta20); every grid point is one evaluation.")
    ctx.assumptions += [
        "scipy root_scalar on a sign-change bracket returns a zero inside it (checked at "
        "every grid point: bracket signs, root location, |LHS(root)|/|c2| <= 1e-5)",
        "V(phi(T),T) = -p(T) and -T dV/dT = w(T) at the phase minima, and the junction "
        "conditions for (v+,T+,v-,T-) (C10/C02; measured on every profile)",
        "where the LHS has no root the solver returns its minimiser and still reports "
        "success (theorem no_root_returns_minimum): conservation then holds only up to the "
        "value of the minimum; this is measured, see finding_success_without_root"]


def replay(rep):
    print(json.dumps({k: v for k, v in rep.items() if k not in ("T", "v")}, indent=1))
    if rep.get("kind") == "e2e":
        out = run_e2e(rep["model"], rep["vw"], rep["improve"], rep.get("errTol", 1e-5),
                      solve=rep.get("solve", False), offeq=rep.get("offeq"))
        print(json.dumps({k: v for k, v in out.items() if k != "points"}, indent=1, default=str))
        return 1 if out.get("bad") else 0
    if rep.get("kind") == "profile" or "model" in rep:
        for pr in rep.get("prefix", []):
            run_profile(rep["model"], rep["vw"], rep["widths"], rep["offsets"], pr["moments"],
                        pr["seed"], pr["amp"], errTol=pr["errTol"], offEq=pr["offEq"],
                        regrid=pr["regrid"])
        res = run_profile(rep["model"], rep["vw"], rep["widths"], rep["offsets"],
                          rep["moments"], rep["seed"], rep["amp"], errTol=rep.get("errTol", 1e-6),
                          offEq=rep.get("offEq", True), regrid=not rep.get("prefix"))
        TOL_CONS = tol_cons(rep.get("errTol", 1e-6))
        print("branch", res["branch"], "success", res["success"], "T+ %.8g T- %.8g v+ %.8g v- %.8g"
              % (res["Tp"], res["Tm"], res["vp"], res["vm"]))
        for d in res["points"]:
            print("k=%2d path=%-5s T=%.8g v=%.8g dT30/|c1|=%.2e dT33/|c2|=%.2e min(LHS)/|c2|=%.2e"
                  % (d["k"], d["path"], d["T"], d["v"], d["r30"], d["r33"], d["fmin_rel"]))
        bad = [d for d in res["points"] if abs(d["r33"]) > TOL_CONS or abs(d["r30"]) > TOL_CONS]
        return 1 if bad else 0
    return 0
