"""C09 -- uniform plasma: wall pressure = free-energy difference; exact field gradient."""
import json
import math
import subprocess
import types
from fractions import Fraction

import numpy as np

import gen_eom_profile
import pyrx
import vlib

EXPLANATION = (
    "EOM.wallProfile (per field) and the def-use slice of EOM._intermediatePressureResults "
    "that is handed to Polynomial.integrate are regenerated from equationOfMotion.py (every "
    "use of the wall parameters and of the grid carries the version that reaches it). Coq "
    "proves for ALL widths, offsets, vevs and every C1 potential that the returned gradient "
    "is the derivative of the returned profile, that the integral of dV/dphi.dphi/dz is the "
    "potential difference (1 and 2 fields, finite stretch, whole line, in the compactified "
    "grid coordinate with weight -dz/dchi, for any T(z) when the field part is T-"
    "independent), and that the generated integrand IS that total derivative for the wall "
    "parameters that are returned. The model is compared with the real wallProfile by "
    "certified interval evaluation; the real EOM pressure is compared with V(low)-V(high) "
    "on polynomial potentials over wall shapes, grid sizes and both grid settings, and the "
    "hypothesis on the grid Jacobian is validated on every grid used.")

TN = 100.0


# ---------------------------------------------------------------------------------------
# models

def make_potential(kind, params):
    from WallGo.effectivePotential import EffectivePotential, VeffDerivativeSettings
    from WallGo.fields import Fields

    if kind == "quartic1":
        D, E, lam, T0, g = (params[k] for k in ("D", "E", "lam", "T0", "g"))

        class Quartic1(EffectivePotential):
            fieldCount = 1
            effectivePotentialError = 1e-15

            def evaluate(self, fields, temperature):
                fields = Fields(fields)
                phi = fields.getField(0)
                T = np.asarray(temperature)
                return (D * (T ** 2 - T0 ** 2) * phi ** 2 - E * T * phi ** 3
                        + lam / 4 * phi ** 4 - g * math.pi ** 2 / 90 * T ** 4)

            def minima(self, T):
                disc = 9 * E ** 2 * T ** 2 - 8 * lam * D * (T ** 2 - T0 ** 2)
                return Fields([(3 * E * T + math.sqrt(disc)) / (2 * lam)]), Fields([0.0])

        pot = Quartic1()
        scale = [50.0]
    else:
        muh2, lh, mus2, ls, lhs, ch, cs, a = (params[k] for k in (
            "muh2", "lh", "mus2", "ls", "lhs", "ch", "cs", "a"))

        class TwoField(EffectivePotential):
            fieldCount = 2
            effectivePotentialError = 1e-15

            def evaluate(self, fields, temperature):
                fields = Fields(fields)
                h, s = fields.getField(0), fields.getField(1)
                T = np.asarray(temperature)
                return (0.5 * (-muh2 + ch * T ** 2) * h ** 2 + 0.25 * lh * h ** 4
                        + 0.5 * (-mus2 + cs * T ** 2) * s ** 2 + 0.25 * ls * s ** 4
                        + 0.25 * lhs * h ** 2 * s ** 2 - a * T ** 4)

            def minima(self, T):
                v = math.sqrt((muh2 - ch * T ** 2) / lh)
                w = math.sqrt((mus2 - cs * T ** 2) / ls)
                return Fields([v, 0.0]), Fields([0.0, w])

        pot = TwoField()
        scale = [100.0, 100.0]
    pot.configureDerivatives(VeffDerivativeSettings(
        temperatureVariationScale=10.0, fieldValueVariationScale=scale))
    return pot


def zero_boltzmann(grid):
    from WallGo.containers import BoltzmannDeltas
    from WallGo.polynomial import Polynomial
    from WallGo.results import BoltzmannResults
    zp = Polynomial(np.zeros((0, grid.M - 1)), grid, direction=("Array", "z"),
                    basis=("Array", "Cardinal"))
    deltas = BoltzmannDeltas(Delta00=zp, Delta02=zp, Delta20=zp, Delta11=zp)
    return BoltzmannResults(deltaF=np.zeros((0, grid.M - 1, grid.N - 1, grid.N - 1)),
                            Deltas=deltas, truncationError=0.0,
                            linearizationCriterion1=np.zeros(0),
                            linearizationCriterion2=np.zeros(0))


class NoParticleBoltzmann:
    """Boltzmann solver of an EMPTY set of out-of-equilibrium particles"""

    def __init__(self, grid):
        self.grid = grid
        self.offEqParticles = []

    def setBackground(self, background):
        self.background = background

    def getDeltas(self):
        return zero_boltzmann(self.grid)


def make_eom(veff, M, offEq, nf):
    """A real EOM object (its own methods are the code under test) around a real
    Grid3Scales; the isinstance asserts of __init__ are skipped, same attributes set."""
    from WallGo.equationOfMotion import EOM
    from WallGo.grid3Scales import Grid3Scales
    grid = Grid3Scales(M, 5, 10.0 / TN, 10.0 / TN, 5.0 / TN, TN, 0.5, 0.1)
    eom = EOM.__new__(EOM)
    eom.grid = grid
    eom.nbrFields = nf
    eom.meanFreePathScale = 100.0 / TN
    eom.wallThicknessBounds = (0.1, 100.0)
    eom.wallOffsetBounds = (-10.0, 10.0)
    eom.includeOffEq = offEq
    eom.forceEnergyConservation = False
    eom.thermo = types.SimpleNamespace(effectivePotential=veff, Tnucl=TN)
    eom.boltzmannSolver = NoParticleBoltzmann(grid)
    eom.particles = eom.boltzmannSolver.offEqParticles
    return eom


TOLERANCE_RULE = (
    "|p - dV|/|dV| <= min(1, 10 (E_M + E_R)) + 3e-9 Vscale/|dV|, R = M min(width)/L the "
    "number of grid points per narrowest returned wall (L = half extent of the returned "
    "wall as in _updateGrid), Vscale = max |V| at the two phases (rounding floor of the "
    "finite-difference gradient); equal tails: E_M = 0, E_R = 10^(3 - 0.48 R); unequal tails "
    "(includeOffEq): E_M = 10^(-0.5 - 0.065 (min(M,120) - 40) - 0.03 max(0, M - 120)), "
    "E_R = 10^(-0.12 R); fitted to the worst of 3840 evaluations of the unchanged code "
    "(largest observed error/tolerance 0.12 where the cap 1 is not reached, 0.30 at M < 45 "
    "with unequal tails where the quadrature is accurate to tens of percent only)")


def tolerance(M, offEq, R, vscale_over_dV):
    """Quadrature accuracy of the UNCHANGED code relative to |Delta V| (see TOLERANCE_RULE)"""
    if offEq:
        eM = 10 ** (-0.5 - 0.065 * (min(M, 120) - 40) - 0.03 * max(0, M - 120))
        eR = 10 ** (-0.12 * R)
    else:
        eM = 0.0
        eR = 10 ** (3 - 0.48 * R)
    return min(1.0, 10 * (eM + eR)) + 3e-9 * vscale_over_dV


def t_profile(case, n):
    """temperature on the grid: constant, or varying when the field part is T-independent"""
    if case.get("Tvar", 0.0):
        x = np.linspace(-1.0, 1.0, n)
        return TN * (1.0 + case["Tvar"] * np.tanh(2.0 * x))
    return TN * np.ones(n)


def run_case(case):
    """Evaluate the property on the real EOM for one generated input."""
    from WallGo.containers import WallParams
    from WallGo.polynomial import Polynomial
    veff = make_potential(case["kind"], case["params"])
    nf = veff.fieldCount
    lo, hi = veff.minima(TN)
    eom = make_eom(veff, case["M"], case["offEq"], nf)
    n = case["M"] - 1
    vMid = case["vMid"]
    Tprof = t_profile(case, n)

    def step(wp, mult):
        return eom._intermediatePressureResults(
            wp, lo, hi, 0.0, 0.0, vMid, zero_boltzmann(eom.grid), float(Tprof[-1]),
            float(Tprof[0]), temperatureProfileInput=Tprof,
            velocityProfileInput=vMid * np.ones(n), multiplier=mult)

    widths = np.array(case["widthsT"], dtype=float) / TN
    offsets = np.array(case["offsets"], dtype=float)
    wp = WallParams(widths=widths.copy(), offsets=offsets.copy())
    eom._updateGrid(wp, vMid)            # same call as in EOM.wallPressure
    out = dict()
    if case["mode"] == "imposed":
        p, wpo, _, _ = step(wp, 0.0)
    else:
        # let the step move the wall, on a grid that resolves the wall it moves to: first
        # find the minimum of the action, re-map the grid to it, then start the checked
        # step from a perturbed shape
        for _ in range(2):
            _, wp, _, _ = step(wp, 1.0)
            eom._updateGrid(wp, vMid)
        start = WallParams(widths=wp.widths * np.array(case["wfac"][:nf]),
                           offsets=wp.offsets + np.array(([0.0] + case["dofs"])[:nf]))
        out["start"] = [list(map(float, start.widths * TN)), list(map(float, start.offsets))]
        p, wpo, _, _ = step(start, case["multiplier"])
    grid = eom.grid
    out["tails"] = [float(grid.tailLengthInside), float(grid.tailLengthOutside)]
    out["aInOut"] = [float(grid.aIn), float(grid.aOut)]
    Tref = float(Tprof[0])
    dV = float(np.ravel(veff.evaluate(lo, Tref))[0] - np.ravel(veff.evaluate(hi, Tref))[0])
    out.update(pressure=float(p), deltaV=dV, rel=abs(float(p) - dV) / abs(dV),
               returned=[list(map(float, wpo.widths * TN)), list(map(float, wpo.offsets))])
    wr, orr = np.asarray(wpo.widths, dtype=float), np.asarray(wpo.offsets, dtype=float)
    Lret = (np.max((1 - orr) * wr) - np.min((-1 - orr) * wr)) / 2
    out["R"] = float(case["M"] * np.min(wr) / Lret)
    out["vscale_over_dV"] = float(max(abs(np.ravel(veff.evaluate(lo, Tref))[0]),
                                      abs(np.ravel(veff.evaluate(hi, Tref))[0])) / abs(dV))
    out["tol"] = tolerance(case["M"], case["offEq"], out["R"], out["vscale_over_dV"])
    # the generated integrand, rebuilt from the RETURNED wall parameters on the grid the
    # caller sees (statement of Coq lemmas integrand_1 / integrand_2)
    fields, dphi = eom.wallProfile(grid.xiValues, lo, hi, wpo)
    dVdPhi = veff.derivField(fields, Tprof)
    dVdz = np.sum(np.array(dVdPhi * dphi), axis=1)
    dzdchi, _, _ = grid.getCompactificationDerivatives()
    pm = float(Polynomial(dVdz, grid).integrate(weight=-dzdchi))
    out["slice_rel"] = abs(pm - float(p)) / abs(dV)
    # hypothesis of the theorems: dzdchi is the derivative of the grid map chi -> z
    chi = np.asarray(grid.chiValues, dtype=float)
    zeros = np.zeros_like(chi)
    err = None
    for hf in (4e-3, 1e-3, 2.5e-4):       # truncation vs rounding: best of three steps
        h = hf * (1.0 - np.abs(chi))
        Z = lambda s: grid.decompactify(chi + s * h, zeros, zeros)[0]  # noqa: E731
        fd = (Z(-2) - 8 * Z(-1) + 8 * Z(1) - Z(2)) / (12 * h)
        e1 = np.abs(fd - dzdchi) / np.abs(dzdchi)
        err = e1 if err is None else np.minimum(err, e1)
    out["jac_rel"] = float(np.max(err))
    out["xi_consistent"] = float(np.max(np.abs(
        grid.decompactify(chi, zeros, zeros)[0] - grid.xiValues)))
    # ... and the grid reaches both phases (end points of the integral)
    f_all = np.asarray(fields)
    span = np.max(np.abs(np.asarray(hi) - np.asarray(lo)))
    out["end_gap"] = float(max(np.max(np.abs(f_all[0] - np.asarray(lo).ravel())),
                               np.max(np.abs(f_all[-1] - np.asarray(hi).ravel()))) / span)
    return out


def gen_case(rng, tier_M):
    kind = rng.choice(["quartic1", "twofield", "twofield", "twofield_Tindep"])
    if kind == "quartic1":
        params = dict(D=rng.choice([0.15, 0.2, 0.3]), E=rng.choice([0.03, 0.05]),
                      lam=rng.choice([0.08, 0.1]), g=100.0)
        # both phases exist at TN iff T0 < TN < T0/sqrt(1-r), r = 9E^2/(8 lam D)
        r = 9 * params["E"] ** 2 / (8 * params["lam"] * params["D"])
        params["T0"] = TN * math.sqrt(1 - rng.uniform(0.2, 0.9) * r)
        nf = 1
    else:
        params = dict(muh2=rng.choice([7000.0, 7800.0, 9000.0]), lh=rng.choice([0.1, 0.13]),
                      mus2=rng.choice([8000.0, 9000.0]), ls=rng.choice([0.8, 1.0]),
                      lhs=rng.choice([1.0, 1.2, 1.5]), ch=rng.choice([0.3, 0.4]),
                      cs=rng.choice([0.2, 0.25]), a=10.0)
        if kind == "twofield_Tindep":
            params.update(ch=0.0, cs=0.0, a=rng.choice([0.5, 2.0]),
                          muh2=params["muh2"] - 3500.0, mus2=params["mus2"] - 2500.0)
        nf = 2
    w0 = rng.uniform(2.0, 12.0)
    widths = [w0] + [w0 * math.exp(rng.uniform(-math.log(3), math.log(3)))
                     for _ in range(nf - 1)]
    offsets = [0.0] + [rng.uniform(-2.0, 2.0) for _ in range(nf - 1)]
    case = dict(kind="twofield" if nf == 2 else kind, params=params, M=rng.choice(tier_M),
                offEq=rng.random() < 0.6, vMid=rng.choice([0.05, 0.3, 0.6, 0.9]),
                widthsT=widths, offsets=offsets, mode="imposed")
    if kind == "twofield_Tindep":
        case["Tvar"] = rng.choice([0.02, 0.05])
    elif rng.random() < 0.4:
        case.update(mode="moved", multiplier=rng.choice([1.0, 0.5, 0.25]),
                    wfac=[rng.uniform(0.7, 1.4), rng.uniform(0.7, 1.4)],
                    dofs=[rng.uniform(-0.3, 0.3)])
    return case


def judge(ctx, case, res):
    """compare one evaluation with the property; report failing inputs"""
    tol = res["tol"]
    ok = True
    tag = "M=%d offEq=%s vMid=%g %s %s" % (case["M"], case["offEq"], case["vMid"],
                                           case["kind"], case["mode"])
    if res["jac_rel"] > 1e-5 or res["xi_consistent"] > 1e-9:
        ok = False
        ctx.fail_input(
            "grid Jacobian is not the derivative of the grid map (rel. diff %.2e, tails "
            "%s) [%s]" % (res["jac_rel"], res["tails"], tag),
            dict(kind="jacobian", case=case, result=res), key="jacobian-not-derivative")
    if res["slice_rel"] > 1e-11:
        ok = False
        ctx.fail_input(
            "returned pressure is not the integral of dV/dphi.dphi/dz for the RETURNED wall "
            "parameters (rel. diff %.2e) [%s]" % (res["slice_rel"], tag),
            dict(kind="slice", case=case, result=res), key="integrand-not-returned-wall")
    if not res["rel"] <= tol:
        ok = False
        ctx.fail_input(
            "pressure %.10e != V(low)-V(high) %.10e (rel. diff %.2e > %.1e) [%s]" % (
                res["pressure"], res["deltaV"], res["rel"], tol, tag),
            dict(kind="pressure", case=case, result=res, tolerance=tol),
            key="pressure-not-deltaV")
    return ok


# ---------------------------------------------------------------------------------------
# wallProfile: certified correspondence and derivative check

def profile_cases(ctx, rng, npts):
    """real wallProfile on multi-field arrays at dyadic inputs -> rows for Coq"""
    from WallGo.containers import WallParams
    from WallGo.equationOfMotion import EOM
    from WallGo.fields import Fields
    eom = EOM.__new__(EOM)
    rows = []
    for _ in range(npts):
        nf = rng.choice([1, 2, 3])
        lo = [Fraction(rng.randint(-2000, 2000), 8) for _ in range(nf)]
        hi = [Fraction(rng.randint(-2000, 2000), 8) for _ in range(nf)]
        w = [Fraction(rng.randint(4, 400), 1024) for _ in range(nf)]
        d = [Fraction(rng.randint(-64, 64), 32) for _ in range(nf)]
        z = [Fraction(rng.randint(-600, 600), 1024) for _ in range(3)]
        wp = WallParams(widths=np.array([float(x) for x in w]),
                        offsets=np.array([float(x) for x in d]))
        f, g = eom.wallProfile(np.array([float(x) for x in z]), Fields([float(x) for x in lo]),
                               Fields([float(x) for x in hi]), wp)
        f, g = np.asarray(f), np.asarray(g)
        # scalar call convention as well (np.isscalar branch)
        fs, gs = eom.wallProfile(float(z[0]), Fields([float(x) for x in lo]),
                                 Fields([float(x) for x in hi]), wp)
        if not (np.allclose(np.ravel(fs), f[0], rtol=0, atol=0) and
                np.allclose(np.ravel(gs), g[0], rtol=0, atol=0)):
            ctx.fail_input("wallProfile scalar and array call disagree",
                           dict(kind="profile-branches", z=str(z[0])), key="profile-branches")
        for k in range(3):
            for i in range(nf):
                rows.append((z[k], lo[i], hi[i], w[i], d[i], float(f[k, i]), float(g[k, i])))
                ctx.count("profile_certified_eval", (str(z[k]), str(w[i]), str(d[i])))
    return rows


def eval_file(rows):
    hdr = """From Coq Require Import Reals Lra.
From Interval Require Import Tactic.
From WG Require Import Lib.NumpySem.
From GenC09 Require Import EomProfile.
Local Open Scope R_scope.
Definition e0 := mk_env tt.
Ltac ev := unfold wallProfile; cbv zeta; cbn [fst snd]; unfold tanh, sinh, cosh;
           interval with (i_prec 90).
"""
    goals = []
    for z, lo, hi, w, d, f, g in rows:
        call = "(wallProfile e0 %s %s %s %s %s)" % tuple(pyrx.rlit(x) for x in (z, lo, hi, w, d))
        for proj, y in (("fst", f), ("snd", g)):
            q = Fraction(y)
            tol = abs(q) * Fraction(1, 10 ** 12) + abs(hi - lo) * Fraction(1, 10 ** 13) / \
                (w if proj == "snd" else 1) + Fraction(1, 10 ** 300)
            goals.append("Goal Rabs (%s %s - %s) <= %s.\nProof. ev. Qed." % (
                proj, call, pyrx.rlit(q), pyrx.rlit(tol)))
    return hdr + "\n".join(goals) + "\n"


def grid_rows(ctx, rng, n):
    """real EOM._updateGrid -> (inputs as exact rationals, resulting grid parameters)"""
    from WallGo.containers import WallParams
    rows = []
    veff1 = make_potential("quartic1", dict(D=0.2, E=0.05, lam=0.1, T0=97.0, g=100.0))
    for _ in range(n):
        nf = rng.choice([1, 2])
        offEq = rng.random() < 0.5
        w = [rng.randint(8, 512) / 4096.0 for _ in range(nf)]
        o = [0.0] + [rng.randint(-64, 64) / 32.0 for _ in range(nf - 1)]
        v = rng.choice([0.0, 0.05, 0.3, 0.6, 0.9, 0.99])
        eom = make_eom(veff1, 40, offEq, nf)
        eom.meanFreePathScale = rng.choice([0.25, 1.0, 3.5])
        eom._updateGrid(WallParams(widths=np.array(w), offsets=np.array(o)), v)
        g = eom.grid
        rows.append(dict(nf=nf, offEq=offEq, w=w, o=o, v=v, mfp=eom.meanFreePathScale,
                         smoothing=float(g.smoothing), ratio=float(g.ratioPointsWall),
                         out=[float(g.tailLengthInside), float(g.tailLengthOutside),
                              float(g.wallThickness), float(g.wallCenter)]))
        ctx.count("updateGrid_certified_eval", rows[-1],
                  bucket="%d fields/%s" % (nf, "offEq" if offEq else "eq"))
    return rows


def grid_eval_file(rows):
    F = vlib.frac
    hdr = """From Coq Require Import Reals Lra.
From Interval Require Import Tactic.
From WG Require Import Lib.NumpySem.
From GenC09 Require Import EomProfile.
Local Open Scope R_scope.
(* Rmax / Rmin are eliminated by cases; the infeasible case is refuted by interval *)
Ltac case_le a b :=
  let H := fresh "H" in
  destruct (Rle_dec a b) as [H|H];
  [ first [ (exfalso; apply (Rle_not_lt _ _ H); interval with (i_prec 90)) | clear H ]
  | first [ (exfalso; apply H; interval with (i_prec 90)) | clear H ] ].
Ltac ev := unfold updateGrid1, updateGrid2; cbv zeta; cbn [fst snd];
           cbn [ug_meanFreePathScale ug_includeOffEq smoothing ratioPointsWall];
           unfold Rmax, Rmin;
           repeat match goal with |- context [Rle_dec ?a ?b] =>
             tryif (match a with context [Rle_dec _ _] => idtac end) then fail else
             tryif (match b with context [Rle_dec _ _] => idtac end) then fail else
             case_le a b end;
           interval with (i_prec 90).
"""
    goals = []
    projs = ["fst (fst (fst %s))", "snd (fst (fst %s))", "snd (fst %s)", "snd %s"]
    for r in rows:
        env = "(mk_ug_env %s %s %s %s)" % (pyrx.rlit(F(r["mfp"])), "1" if r["offEq"] else "0",
                                           pyrx.rlit(F(r["smoothing"])), pyrx.rlit(F(r["ratio"])))
        args = " ".join("%s %s" % (pyrx.rlit(F(a)), pyrx.rlit(F(b)))
                        for a, b in zip(r["w"], r["o"]))
        call = "(updateGrid%d %s %s %s)" % (r["nf"], env, args, pyrx.rlit(F(r["v"])))
        for pj, y in zip(projs, r["out"]):
            q = F(y)
            tol = abs(q) * Fraction(1, 10 ** 12) + Fraction(1, 10 ** 15)
            goals.append("Goal Rabs (%s - %s) <= %s.\nProof. ev. Qed." % (
                pj % call, pyrx.rlit(q), pyrx.rlit(tol)))
    return hdr + "\n".join(goals) + "\n"


def profile_derivative_check(ctx, rng, n):
    """dPhidz against a 4th-order central difference of the profile itself (real code)"""
    from WallGo.containers import WallParams
    from WallGo.equationOfMotion import EOM
    from WallGo.fields import Fields
    eom = EOM.__new__(EOM)
    for _ in range(n):
        nf = rng.choice([1, 2, 3])
        lo = [rng.uniform(-300, 300) for _ in range(nf)]
        hi = [rng.uniform(-300, 300) for _ in range(nf)]
        w0 = rng.uniform(0.01, 0.3)
        w = [w0] + [w0 * math.exp(rng.uniform(-math.log(3), math.log(3)))
                    for _ in range(nf - 1)]
        d = [0.0] + [rng.uniform(-2, 2) for _ in range(nf - 1)]
        wp = WallParams(widths=np.array(w), offsets=np.array(d))
        z = np.linspace(-6, 6, 97) * max(w)
        h = 1e-3 * min(w)
        F = lambda s: np.asarray(eom.wallProfile(z + s * h, Fields(lo), Fields(hi), wp)[0])
        num = (F(-2) - 8 * F(-1) + 8 * F(1) - F(2)) / (12 * h)
        g = np.asarray(eom.wallProfile(z, Fields(lo), Fields(hi), wp)[1])
        rel = float(np.max(np.abs(g - num)) / (np.max(np.abs(num)) + 1e-300))
        ctx.count("profile_derivative_direct", dict(w=w, d=d), bucket="%d fields" % nf)
        if not rel < 1e-8:
            ctx.fail_input("dPhidz is not the z-derivative of the profile (rel. diff %.2e)"
                           % rel, dict(kind="profile-derivative", lo=lo, hi=hi, widths=w,
                                       offsets=d, rel=rel), key="dPhidz-not-derivative")


# ---------------------------------------------------------------------------------------

def run(ctx):
    src = vlib.read_src("equationOfMotion.py")
    gen_ok = True
    info = None
    try:
        text, info = gen_eom_profile.generate(src)
        ctx.write("EomProfile.v", text, sources=dict(
            file="src/WallGo/equationOfMotion.py", sha=vlib.sha(src), spans=info["spans"]))
        ctx.log("pressure slice: returned wall version %d, profile calls %s, grid versions %s"
                % (info["result"]["wall"], info["profile_calls"],
                   sorted(info["grid_versions"])))
    except pyrx.TranslateError as e:
        ctx.log("translator failed:", e)
        ctx.broken.append("translator: %s" % e)
        gen_ok = False
    proved = gen_ok and ctx.prove(extra=["EomProfile.v"])
    ctx.trusted += ["tools/pyrx.py + tools/gen_eom_profile.py (AST translator: per-field "
                    "scalarisation of wallProfile, versioned def-use slice of "
                    "_intermediatePressureResults)",
                    "Coquelicot 3.x (real analysis library)",
                    "Interval tactic (certified evaluation; uses kernel primitive floats/ints)"]
    rng = ctx.rng
    # --- certified correspondence of the generated wallProfile --------------------------
    try:
        rows = profile_cases(ctx, rng, ctx.n(4, 40))
        if gen_ok and proved is not False:
            chunks = [rows[i:i + 40] for i in range(0, len(rows), 40)]
            procs = []
            for k, ch in enumerate(chunks):
                p = ctx.write("Cases/Profile_%d.v" % k, eval_file(ch))
                procs.append((k, subprocess.Popen(
                    ["timeout", "600", "coqc"] + ctx.coq_args() + [p], cwd=ctx.bdir,
                    stdout=subprocess.PIPE, stderr=subprocess.PIPE, text=True)))
            grows = grid_rows(ctx, rng, ctx.n(6, 40))
            p = ctx.write("Cases/UpdateGrid.v", grid_eval_file(grows))
            procs.append(("UpdateGrid", subprocess.Popen(
                ["timeout", "600", "coqc"] + ctx.coq_args() + [p], cwd=ctx.bdir,
                stdout=subprocess.PIPE, stderr=subprocess.PIPE, text=True)))
            ctx.sample(dict(updateGrid_row=grows[0]))
            for k, pr in procs:
                _, err = pr.communicate()
                if pr.returncode != 0:
                    ctx.broken.append("correspondence: certified evaluation %s" % (
                        k if isinstance(k, str) else "Profile_%d" % k))
                    ctx.log("certified evaluation failed", vlib.tail(err, 8))
        ctx.log("certified evaluations done (%d wallProfile rows)" % len(rows))
        ctx.sample(dict(profile_row=[str(x) for x in rows[0]]))
        profile_derivative_check(ctx, rng, ctx.n(20, 200))
        ctx.log("profile derivative checks done")
    except Exception as ex:          # noqa: BLE001
        import traceback
        ctx.log("profile correspondence raised", traceback.format_exc())
        ctx.broken.append("harness: profile correspondence raised %r" % ex)
    # --- direct validation on the real EOM ------------------------------------------------
    tier_M = [40, 41, 44, 48, 50, 55, 60, 70, 80, 100, 120, 140, 160, 200] if ctx.quick else \
        [40, 41, 42, 43, 45, 47, 50, 53, 57, 60, 64, 70, 75, 80, 90, 100, 120, 140, 160,
         200, 240]
    worst = {}
    ncases = ctx.n(300, 3000)
    for _ in range(ncases):
        case = gen_case(rng, tier_M)
        try:
            res = run_case(case)
        except Exception as ex:      # noqa: BLE001
            import traceback
            ctx.log("EOM raised", traceback.format_exc().strip().splitlines()[-1])
            ctx.fail_input("EOM._intermediatePressureResults raised %r" % ex,
                           dict(kind="raise", case=case), key="raises")
            continue
        unequal = abs(res["aInOut"][0] - res["aInOut"][1]) > 1e-3 * res["aInOut"][0]
        ctx.count("pressure_direct", case,
                  bucket="%s/%s/%s" % ("offEq" if case["offEq"] else "eq", case["mode"],
                                       "aIn!=aOut" if unequal else "aIn==aOut"))
        ctx.count("jacobian_hypothesis")
        ctx.count("slice_vs_returned_wall")
        judge(ctx, case, res)
        k = "%d/%s" % (case["M"], "offEq" if case["offEq"] else "eq")
        r = res["rel"] / res["tol"]
        if r > worst.get(k, (0, 0))[0]:
            worst[k] = (round(r, 4), res["rel"])
        if len(ctx.cov["samples"]) < 5:
            ctx.sample(dict(case=case, pressure=res["pressure"], deltaV=res["deltaV"],
                            rel=res["rel"], jacobian_rel=res["jac_rel"],
                            tails=res["tails"]))
    ctx.cov["calibration"] = dict(
        note="worst (rel.error / tolerance, rel.error) per M/grid setting on this run",
        worst=worst, tolerance=TOLERANCE_RULE)
    ctx.log("largest error/tolerance ratio: %s" % (max(worst.values())[0] if worst else None))
    ctx.cov["rule"] = (
        "potentials: 1-field quartic (3 coefficients varied), 2-field quartic with portal "
        "coupling (7 coefficients varied), 2-field quartic with T-independent field part and "
        "a varying temperature profile; T=100; first width 2..12/T, other widths within a "
        "factor 3, offsets in [-2,2]; M from 40 to 200 (240 thorough); grid tails from "
        "EOM._updateGrid with includeOffEq False (equal tails) and True (mfp*gamma vs "
        "mfp/gamma, vMid in {0.05,0.3,0.6,0.9}); wall shape imposed (multiplier 0) or moved "
        "by the step (multiplier 1, 0.5, 0.25 from a perturbed start on a grid re-mapped to "
        "the action minimum); distinct = distinct case dictionary")
    ctx.assumptions += [
        "Gauss-Lobatto quadrature error of Polynomial.integrate (validated: calibrated "
        "tolerance per M and grid setting, recorded under coverage.calibration)",
        "grid.getCompactificationDerivatives()[0] is the derivative of the map chi -> z used "
        "for grid.xiValues (hypothesis of the theorems; proved by C17; validated by central "
        "differences of decompactify on every grid used here)",
        "effectivePotential.derivField is the gradient of evaluate (finite differences, "
        "exact for quartics up to rounding: C19/C08)",
        "numpy broadcasting in wallProfile is elementwise (validated by the certified "
        "evaluation on multi-field arrays)",
        "methods called between the two wallProfile calls do not re-map self.grid except "
        "through self.grid.<method>() / self._updateGrid() calls visible in "
        "_intermediatePressureResults"]


def replay(rep):
    print(json.dumps({k: v for k, v in rep.items() if k != "result"}, indent=1))
    if "case" in rep and rep.get("kind") in ("pressure", "slice", "jacobian"):
        res = run_case(rep["case"])
        print("re-evaluated:", json.dumps(res, indent=1))
        tol = res["tol"]
        bad = res["rel"] > tol or res["slice_rel"] > 1e-11 or res["jac_rel"] > 1e-5
        print("tolerance", tol, "->", "FAILS" if bad else "passes")
        return 1 if bad else 0
    return 0
